"""C08 helpers — obligations on the parts of document parsing that are *not* the derived key tables:

  value paths     per key: the value is read by `next_value::<FieldType>` (the field type's own Deserialize); a key read
                  through a custom deserializer (`deserialize_with` / `with`) is accepted only when that function is a
                  recognised *string leaf* (see below) and the spec kind of the key is `string`
  string leaves   `String::deserialize(d)` then a fallible validating conversion (TryFrom / FromStr / parse) applied to
                  exactly that string, whose failure (and the failure of String::deserialize) cannot end in success
  leaf accounting every workspace type reachable from a document root is a derived strict struct, a derived strict unit
                  enum with the spec's names, a validated string leaf, or an untagged choice of unit | string-like
  enum names      name -> variant tables of the closed string enums equal the spec (read off visit_str + visit_enum)
  reader          read_toml_file::<A>(p) = toml::from_str::<A>(read_to_string(p)?) ?, both failures propagated
"""
import re
from .lib import serde_schema as S
from .lib import discard
from .lib.mir import op_place
from .lib.paths import strip
from .lib.tables import arm_defs
from .lib.value import vstr, walk

# ---- spec tables that complement rules/tables/c08_schema.json --------------------------------------------------------
# closed string enums of the formats: document string -> Rust variant
ENUM_SPEC = {
    # buildpack.md "sbom-formats": the three media types the lifecycle understands
    'libcnb_data::sbom::SbomFormat': {'application/vnd.cyclonedx+json': 'CycloneDxJson', 'application/spdx+json': 'SpdxJson',
                                      'application/vnd.syft+json': 'SyftJson'},
    # package.toml [platform].os: linux | windows
    'libcnb_data::package_descriptor::PlatformOs': {'linux': 'Linux', 'windows': 'Windows'},
}
# value kinds of the keys that c08_schema.json's key_kinds does not list
EXTRA_KINDS = {
    'libcnb_data::buildpack::ComponentBuildpackDescriptor': {'api': 'string', 'buildpack': 'table', 'stacks': 'array<table>', 'targets': 'array<table>'},
    'libcnb_data::buildpack::CompositeBuildpackDescriptor': {'api': 'string', 'buildpack': 'table', 'order': 'array<table>'},
    'libcnb_data::buildpack::License': {'type': 'string', 'uri': 'string'},
    'libcnb_data::buildpack::Order': {'group': 'array<table>'},
    'libcnb_data::buildpack_plan::BuildpackPlan': {'entries': 'array<table>'},
    'libcnb_data::layer_content_metadata::LayerContentMetadata': {'types': 'table'},
    'libcnb_data::launch::Launch': {'labels': 'array<table>', 'processes': 'array<table>', 'slices': 'array<table>'},
    'libcnb_data::store::Store': {'metadata': 'table'},
    'libcnb_data::package_descriptor::PackageDescriptor': {'buildpack': 'table', 'dependencies': 'array<table>', 'platform': 'table'},
    'libcnb_data::package_descriptor::PackageDescriptorBuildpackReference': {'uri': 'string'},
    'libcnb_data::package_descriptor::PackageDescriptorDependency': {'uri': 'string'},
}
# array keys whose value is a set by nature (the spec attaches no meaning to order / repetition)
UNORDERED = {('libcnb_data::buildpack::Buildpack', 'sbom-formats')}
# std types that deserialize from a TOML string and keep it as it is
STRING_LIKE = ('std::path::PathBuf', 'std::string::String')

STRING_DESER = re.compile(r"Deserialize<'\w+> for std::string::String>::deserialize$")
# calls on the success path that hand their argument on unchanged
PURE_WRAPPERS = re.compile(r"^uriparse::URIReference::<'\w+>::into_owned$")


def norm_ty(t):
    return re.sub(r"'\w+", "'_", t or '')


# ---- type identity -----------------------------------------------------------------------------------------------------
_PATH = re.compile(r'[A-Za-z_][A-Za-z0-9_]*(?:::[A-Za-z_][A-Za-z0-9_]*)+')


class Names:
    """The spec tables name workspace types by their paths on the pinned tree.  lib/mir.py already reads a moved /
    renamed type under its baseline name when its signature (field names and field *type texts*) is unchanged; that is
    one pass, so a moved type whose field mentions another moved type keeps its new name.  This completes the
    identification to a fixpoint, by two facts that do not depend on where an item is spelled:
      signature  a gone baseline type = the one new type of identical signature, read modulo the identifications made so far
      position   a gone baseline type = the new type that now stands in the same place of the same field of an (identified)
                 parent type, i.e. the type of the same table of the document
    Only the *name* under which a spec row is looked up is affected: the type found is checked against the whole row
    (keys, strictness, kinds, value paths), so a wrong identification cannot hide anything, it could only raise alarms.
    `cur(t)` baseline path -> today's path, `base(text)` today's paths in a type text -> baseline paths.
    (local; wanted in lib/mir.py: iterate read_under_baseline_names over adts to a fixpoint)"""

    def __init__(self, prog):
        import json
        from .lib import mir
        self.to_base = {}
        try:
            with open(mir.BASELINE) as fh:
                base = json.load(fh)['adts']
        except (OSError, KeyError, ValueError):
            base = {}
        crates = {p.split('::')[0] for p in prog.adts}
        cur = {p: mir.adt_sig(a, p.split('::')[0]) for p, a in prog.adts.items() if not a.get('in_body')}
        for _ in range(8):
            missing = {p: s for p, s in base.items() if p not in cur and p not in self.to_base.values() and s[0] in crates}
            fresh = {p: self._sig_base(s) for p, s in cur.items() if p not in base and p not in self.to_base}
            if not missing or not fresh:
                break
            m = dict(mir._match(missing, fresh))
            if not m:
                m = self._by_position(base, cur, missing, fresh)
            if not m:
                break
            self.to_base.update(m)
        self.to_cur = {b: c for c, b in self.to_base.items()}
        self._rx_b = self._rx(self.to_base)
        self._rx_c = self._rx(self.to_cur)

    @staticmethod
    def _rx(m):
        if not m:
            return None
        return re.compile(r'(?<![\w:])(' + '|'.join(re.escape(n) for n in sorted(m, key=len, reverse=True)) + r')(?!\w|::)')

    def _sig_base(self, s):
        if not self.to_base:
            return s
        rx = self._rx(self.to_base)
        return [s[0], s[1], [[vn, [[fn_, rx.sub(lambda mm: self.to_base[mm.group(1)], ty)] for fn_, ty in fs]] for vn, fs in s[2]]]

    def _by_position(self, base, cur, missing, fresh):
        cand = {}
        for pb, sb in base.items():
            pc = pb if pb in cur else {b: c for c, b in self.to_base.items()}.get(pb)
            if pc is None or pc not in cur:
                continue
            sc = self._sig_base(cur[pc])
            if sb[1] != sc[1]:
                continue
            vb = {vn: dict(map(tuple, fs)) for vn, fs in sb[2]}
            vc = {vn: dict(map(tuple, fs)) for vn, fs in sc[2]}
            for vn, fb in vb.items():
                for fname, tb in fb.items():
                    tc = vc.get(vn, {}).get(fname)
                    if tc is None or tc == tb:
                        continue
                    nb, nc = _PATH.findall(tb), _PATH.findall(tc)
                    if len(nb) != len(nc) or _PATH.sub('@', tb) != _PATH.sub('@', tc):
                        continue
                    for x, y in zip(nb, nc):
                        if x != y:
                            cand.setdefault(x, set()).add(y if (x in missing and y in fresh) else None)
        out = {}
        for b, cs in cand.items():
            if len(cs) == 1 and None not in cs:
                c = next(iter(cs))
                if c not in out and sum(1 for b2, cs2 in cand.items() if c in cs2) == 1:
                    out[c] = b
        return out

    def cur(self, text):
        return self._rx_c.sub(lambda m: self.to_cur[m.group(1)], text) if self._rx_c and text else text

    def base(self, text):
        return self._rx_b.sub(lambda m: self.to_base[m.group(1)], text) if self._rx_b and text else text


def is_conv(name):
    """a fallible, validating conversion from a string (by trait): TryFrom::try_from / FromStr::from_str / str::parse"""
    return bool(re.search(r'(^|[ :])std::convert::TryFrom(<.*>)?>?::try_from$', name) or name == 'std::convert::TryFrom::try_from'
                or re.search(r'(^|[ :])std::convert::TryInto(<.*>)?>?::try_into$', name)   # = <U as TryFrom<T>>::try_from (std blanket impl)
                or re.search(r'std::str::FromStr>?::from_str$', name) or re.search(r'^(core|std)::str::<impl str>::parse(::<.*>)?$', name))


def site_call(prog, site):
    if not site:
        return None, None
    f = prog.fns.get(site[0])
    if f is None:
        return None, None
    return f, f.call_at(site[1])


def effective_conversion(prog, conv):
    """the workspace function that a validating conversion call (value of the normal form) runs:
    `s.parse::<T>()` = <T as FromStr>::from_str, `s.try_into()` : U = <U as TryFrom<S>>::try_from, a resolved trait call =
    itself; None when that is not an impl of the workspace (a std blanket impl does not validate anything)"""
    if conv is None or conv[0] != 'call':
        return None
    g, c = site_call(prog, conv[3]) if len(conv) > 3 else (None, None)
    name = conv[1]
    cands = []
    if c is not None:
        full, ga = c.full or '', list(c.ga or [])
        if re.search(r'^(core|std)::str::<impl str>::parse(::<.*>)?$', name) and ga:
            cands.append('<%s as std::str::FromStr>::from_str' % ga[-1])
        elif name.endswith('TryInto::try_into') or re.search(r'TryInto<.*>>::try_into$', name):
            if len(ga) == 2:
                cands.append('<%s as std::convert::TryFrom<%s>>::try_from' % (ga[1], ga[0]))
        elif name in ('std::convert::TryFrom::try_from', 'std::str::FromStr::from_str') and full:
            cands.append(full)
    cands.append(name)
    for n in cands:
        if n in prog.fns:
            return n
    return None


def conversion_is(prog, sl, conv, primary, depth=0):
    """does the conversion call `conv` run the workspace conversion satisfying primary(path) -- directly, or through another
    workspace conversion that is nothing but the primary one applied to its own argument (its failure being its failure)?"""
    e = effective_conversion(prog, conv)
    if e is None:
        return False
    if primary(e):
        return True
    if depth >= 2:
        return False
    E = prog.fns[e]
    if E.argc != 1:
        return False
    r = sl.inline_deep(sl.local(E, 0), keep=tuple(p for p in prog.fns if primary(p)))
    alts = r[1] if r[0] == 'phi' else (r,)
    inner = None
    for x in alts:
        # either the primary conversion's result itself, or Ok(primary(..)?) with the residual handed on
        y = x
        if y[0] == 'agg' and y[2] == 'Ok' and y[1] == 'std::result::Result':
            y = dict(y[3]).get('0', ('unknown',))
        if y[0] == 'call' and y[1].endswith('FromResidual::from_residual'):
            continue
        while y[0] == 'unwrap':
            y = y[1]
        if y[0] == 'call' and y[1].endswith('::map_err') and y[2]:
            y = y[2][0]
        if not (y[0] == 'call' and is_conv(y[1]) and len(y[2]) == 1):
            return False
        if inner is not None and inner != y:
            return False
        inner = y
    if inner is None:
        return False
    a = _peel_same_text(inner[2][0])
    if not (a[0] == 'param' and a[1] == E.path and a[2] == 0):
        return False
    g, c = site_call(prog, inner[3])
    if not must_succeed(prog, E, g, c):
        return False
    return conversion_is(prog, sl, inner, primary, depth + 1)


def _switched(fn, local):
    for blk in fn.blocks:
        t = blk['t']
        if t['t'] == 'switch':
            p = op_place(t['o'])
            if p and p[0] == local:
                return True
    return False


def _ok_local2(prog, fn, local, site_bbs, seen, depth):
    """discard._ok_local, except that a discriminant read whose result is never switched on (the drop-flag reads rustc
    emits after a `match` on a value with a destructor) says nothing about the value and is skipped.
    (local workaround; wanted in lib/discard.py)"""
    if (fn.path, local) in seen or depth > 10:
        return False
    seen.add((fn.path, local))
    real = [u for u in fn.uses_of(local) if u[1] != 'drop']
    if not real:
        return False
    decided = False
    for (bi, kind, idx, how, pl) in real:
        if kind == 'arg':
            c = fn.call_at(bi)
            if c.indirect:
                return False
            names = c.names()
            if discard.TRY in names or any(n.endswith('as std::ops::Try>::branch') for n in names) or names & discard.PANICKING:
                decided = True
                continue
            if names & discard.OK_PRESERVING and idx == 0:
                if c.dest and c.dest[0] == 0 and len(c.dest) == 1:
                    decided = True
                    continue
                if c.dest and len(c.dest) == 1 and _ok_local2(prog, fn, c.dest[0], site_bbs, seen, depth + 1):
                    decided = True
                    continue
            return False
        if kind == 'stmt':
            st = fn.blocks[bi]['s'][idx]
            target, rv = st[1], st[2]
            projs = pl[1:]
            if how == 'discr':
                if len(target) == 1 and not _switched(fn, target[0]):
                    continue
                if not discard._non_ok_arms_fail(fn, bi, target, rv, site_bbs):
                    return False
                decided = True
                continue
            if projs:
                continue
            if rv['r'] in ('use', 'ref', 'cast'):
                if target[0] == 0 and len(target) == 1:
                    decided = True
                    continue
                if len(target) == 1 and _ok_local2(prog, fn, target[0], site_bbs, seen, depth + 1):
                    decided = True
                    continue
            return False
        return False
    return decided


def ok_on_success(prog, fn, call):
    if discard.ok_on_success(prog, fn, call):
        return True
    dest = call.dest
    if dest is None or len(dest) > 1 or dest[0] == 0:
        return False
    from .lib.effects import success_sites
    return _ok_local2(prog, fn, dest[0], {s.bb for s in success_sites(fn)}, set(), 0)


AND_THEN = ('std::result::Result::<T, E>::and_then', 'std::option::Option::<T>::and_then')


def must_succeed(prog, top, g, c, depth=0):
    """does `top` returning successfully imply that call `c` (inside g, which is top, a closure of top handed to
    and_then, or a helper called from those) produced Ok?  True / False"""
    if g is None or c is None or depth > 6:
        return False
    if not ok_on_success(prog, g, c):
        return False
    if g.path == top.path:
        return True
    if g.kind == 'Closure':
        parent = prog.fns.get(g.parent) if g.parent else None
        if parent is None:
            return False
        users = [c2 for c2 in parent.calls if not c2.indirect and g in prog.fn_item_args(c2)]
        if len(users) != 1 or not users[0].is_(*AND_THEN):
            return False   # only and_then makes the closure's failure the result's failure
        return must_succeed(prog, top, parent, users[0], depth + 1)
    # a helper function: every call of it from top's code must itself have to succeed
    scope = [top] + prog.closures_of(top)
    more = True
    while more:   # helpers called from top (transitively, private value helpers only)
        more = False
        for f in list(scope):
            for c2 in f.calls:
                for h in prog.callee_fns(c2):
                    if h not in scope and h.crate == top.crate and len(scope) < 40:
                        scope.append(h)
                        scope.extend(x for x in prog.closures_of(h) if x not in scope)
                        more = True
    sites = [(f, c2) for f in scope for c2 in f.calls if g in prog.callee_fns(c2)]
    if not sites:
        return False
    return all(must_succeed(prog, top, f, c2, depth + 1) for f, c2 in sites)


def string_leaf(prog, sl, W, out=None):
    """W(deserializer) -> Result<T, _>.  Is it `validate(String::deserialize(deserializer)?)?` with nothing in between?
    -> (verdict, text) with verdict True (recognised), False (decided: the string is changed / a failure is tolerated),
    None (shape not recognised).  out (dict): out['conv'] = the validating conversion's call value of the normal form"""
    v = sl.mk_unwrap(sl.local(W, 0), 1)
    for _ in range(8):
        while v[0] == 'unwrap':
            v = v[1]
        if v[0] != 'call':
            return None, 'success value is %s' % vstr(v)[:120]
        name = v[1]
        if is_conv(name):
            if not v[2]:
                return None, 'conversion without argument'
            arg = v[2][0]
            if out is not None:
                out['conv'] = v
            a = arg
            while a[0] == 'unwrap':
                a = a[1]
            exact = (a[0] == 'call' and STRING_DESER.search(a[1]) and a[2] and a[2][0][0] == 'param'
                     and a[2][0][1] == W.path and a[2][0][2] == 0)
            if not exact:
                inner = [x for x in walk(arg) if x[0] == 'call' and STRING_DESER.search(x[1])]
                if inner:
                    return False, 'the validating conversion is applied to %s, not to the string of the document' % vstr(arg)[:160]
                return None, 'argument of the conversion is %s' % vstr(arg)[:120]
            g, c = site_call(prog, v[3])
            if not must_succeed(prog, W, g, c):
                return False, 'a failing %s can still end in a successful parse' % name.split('::')[-1]
            g2, c2 = site_call(prog, a[3])
            if not must_succeed(prog, W, g2, c2):
                return False, 'a value that is not a string can still end in a successful parse'
            extra = extra_failures(sl, W, {v[3], a[3]})
            if extra:
                return None, 'fails in a way that is neither the string read nor the validating conversion: %s' % extra
            return True, '%s(String::deserialize(d)?)?' % re.sub(r'<.*>', '', name).split('::')[-1]
        if PURE_WRAPPERS.search(name) and v[2]:
            v = v[2][0]
            continue
        h = prog.fns.get(name)
        if h is not None and h.kind != 'Closure' and h.crate == W.crate:
            iv = sl.inline_call(v)
            if iv is None or iv == v:
                return None, 'helper %s not inlinable' % name
            v = sl.mk_unwrap(iv, 1)
            continue
        return None, 'success value is %s' % vstr(v)[:120]
    return None, 'too deep'


def extra_failures(sl, W, sites):
    """failure alternatives of W's result that do not stem from the calls at `sites` (the string read / the conversion):
    an additional rejection, which would make a conforming value fail"""
    v = sl.local(W, 0)
    alts = v[1] if v[0] == 'phi' else (v,)
    for x in alts:
        if x[0] == 'agg' and x[2] in ('Err', 'None') and x[1] in ('std::result::Result', 'std::option::Option'):
            src = x
        elif x[0] == 'call' and x[1].endswith('FromResidual::from_residual'):
            src = x
        else:
            continue
        if not any(y[0] == 'call' and len(y) > 3 and y[3] in sites for y in walk(src)):
            return vstr(x)[:120]
    return None


def deserialize_fn(prog, t):
    """the function implementing Deserialize::deserialize for workspace type t (derived or hand-written)"""
    fs = S._find(prog, r"(Deserialize<'de> for %s>::deserialize$)|(^<%s as .*Deserialize<'de>>::deserialize$)" % (re.escape(t), re.escape(t)))
    return fs[0] if len(fs) == 1 else None


# ---- enum name tables ------------------------------------------------------------------------------------------------
def enum_table(prog, sl, t, d):
    """{document string: Rust variant} of a derived unit enum: visit_str gives string -> __fieldN, visit_enum __fieldN -> variant"""
    ve = S._find(prog, r"Deserialize<'de> for %s>::deserialize::__Visitor<'de[^>]*> as .*::visit_enum$" % S._ty_rx(t))
    if len(ve) != 1:
        return None, 'visit_enum not found'
    by_index = {}
    for bi, v, conds in arm_defs(ve[0], 0, sl):
        v = strip(v)
        if not (v[0] == 'agg' and v[2] == 'Ok'):
            continue
        inner = strip(dict(v[3])['0'])
        if not (inner[0] == 'agg' and inner[1] == t):
            return None, 'visit_enum arm yields %s' % vstr(inner)[:80]
        idx = [next(iter(cd.outcome)) for cd in conds if cd.kind == 'variant' and len(cd.outcome) == 1 and next(iter(cd.outcome)).startswith('__field')]
        if len(idx) != 1:
            return None, 'visit_enum arm for %s not keyed by one __field' % inner[2]
        n = int(idx[0][len('__field'):])
        if by_index.get(n, inner[2]) != inner[2]:
            return None, 'two variants for __field%d' % n
        by_index[n] = inner[2]
    table = {}
    for name, k in d['keys'].items():
        if k.index not in by_index:
            return None, 'no variant for %s' % name
        table[name] = by_index[k.index]
    return table, ve[0]


# ---- value paths -------------------------------------------------------------------------------------------------------
def value_paths(prog, sl, t, d):
    """per key of derived struct t: list of (how, detail, fn) for every place the key's value is read in visit_map:
    ('direct', type)            next_value::<type>
    ('with', W | None, text)    next_value::<__DeserializeWith> wrapping the custom function W
    """
    vms = [prog.fns[p] for p in d['fns'] if p.endswith('::visit_map')]
    if len(vms) != 1:
        return None
    vm = vms[0]
    agg = None
    for b in vm.blocks:
        for st in b['s']:
            if st[0] == '=' and st[2]['r'] == 'agg' and st[2].get('adt') == t:
                agg = sl._rvalue(vm, st[2], set(), 0, None)
    if agg is None:
        return None
    by_field = {k.field: k for k in d['keys'].values()}
    out = {}
    for fname, fv in agg[3]:
        k = by_field.get(fname)
        if k is None:
            continue
        reads = []
        alts = fv[1] if fv[0] == 'phi' else (fv,)
        for a in alts:
            a0 = strip(a)
            via_field = None
            if a0[0] == 'field':
                via_field = a0[2]
                a0 = strip(a0[1])
            if not (a0[0] == 'call' and a0[1].endswith('next_value')):
                continue
            f, c = site_call(prog, a0[3])
            ty = c.ga[-1] if c is not None and len(c.ga) == 2 else None   # <A as MapAccess>::next_value::<V>: [A, V]
            if ty is None:
                reads.append(('unknown', 'next_value without type argument', None))
            elif '__DeserializeWith' in ty:
                reads.append(with_function(prog, sl, vm, via_field))
            elif via_field is not None:
                reads.append(('unknown', 'field %s of next_value::<%s>' % (via_field, ty), None))
            else:
                reads.append(('direct', ty, None))
        out[k.key] = reads
    return out


def with_function(prog, sl, vm, via_field):
    ws = [f for p, f in prog.fns.items() if p.startswith('<' + vm.path + '::__DeserializeWith') and p.endswith('::deserialize')]
    if len(ws) != 1 or via_field != 'value':
        return ('with', None, 'wrapper of the custom deserializer not identified (%d candidates)' % len(ws))
    wv = sl.mk_unwrap(sl.local(ws[0], 0), 1)
    if wv[0] != 'agg':
        return ('with', None, 'wrapper yields %s' % vstr(wv)[:80])
    val = strip(dict(wv[3]).get('value', ('unknown',)))
    if not (val[0] == 'call' and val[2] and val[2][0][0] == 'param' and val[2][0][1] == ws[0].path):
        return ('with', None, 'wrapper value is %s' % vstr(val)[:80])
    g, c = site_call(prog, val[3])
    if not must_succeed(prog, ws[0], g, c):
        return ('with', None, 'failure of the custom deserializer is not propagated')
    W = prog.fns.get(val[1])
    if W is None:
        return ('with', None, 'custom deserializer %s is outside the workspace' % val[1])
    return ('with', W, W.path)


# ---- read_toml_file ------------------------------------------------------------------------------------------------------
def succ_ty(ret):
    """T of std::result::Result<T, E>"""
    pre = 'std::result::Result<'
    if not (ret or '').startswith(pre):
        return None
    depth, out = 0, []
    for ch in ret[len(pre):]:
        if ch in '<([':
            depth += 1
        elif ch in '>)]':
            depth -= 1
        if ch == ',' and depth == 0:
            break
        out.append(ch)
    return ''.join(out).strip()


def _flows_to_result(prog, top, g, ty, depth=0):
    """type `ty` (in g's terms) is what top's own result carries: g's success type is ty, and every call of helper g in
    top's code yields top's success type"""
    if succ_ty(g.ret) != ty or depth > 4:
        return False
    if g.path == top.path:
        return True
    if g.kind == 'Closure':
        parent = prog.fns.get(g.parent) if g.parent else None
        return parent is not None and _flows_to_result(prog, top, parent, succ_ty(parent.ret), depth + 1)
    scope = [top] + prog.closures_of(top)
    sites = [(h, c2) for h in scope for c2 in h.calls if g in prog.callee_fns(c2)]
    return bool(sites) and all(succ_ty(c2.dty) == succ_ty(top.ret) for h, c2 in sites)


def buffer_filled_from(prog, sl, f, site):
    """the String created at `site` (inside f or a helper of f) is filled by exactly one `File::open(P)?.read_to_string(&mut
    buf)?` with P = f's path parameter, both of which must succeed -> None, else the reason.
    (local stand-in for Slicer._read_into, which does not follow the reborrow `&mut *(&mut buf)`; wanted in lib/value.py)"""
    from .lib.effects import Effects
    g, c0 = site_call(prog, site)
    if c0 is None or not c0.dest or len(c0.dest) != 1:
        return 'text buffer not found'
    buf = c0.dest[0]
    refs = set()
    changed = True
    while changed:
        changed = False
        for b in g.blocks:
            for st in b['s']:
                if st[0] == '=' and len(st[1]) == 1 and st[2]['r'] == 'ref' and st[2].get('mut') and st[1][0] not in refs:
                    pl = st[2]['p']
                    if (len(pl) == 1 and pl[0] == buf) or (pl and pl[0] in refs):
                        refs.add(st[1][0])
                        changed = True
    writers = []
    for c in g.calls:
        for i, a in enumerate(c.args):
            pl = op_place(a)
            if pl and pl[0] in refs:
                writers.append((c, i))
    if len(writers) != 1 or writers[0][0].indirect or writers[0][0].decl != 'std::io::Read::read_to_string' or writers[0][1] != 1:
        return 'the text buffer is written by %s' % [w[0].name for w in writers]
    w = writers[0][0]
    recv = sl.operand(g, w.args[0])
    while recv[0] == 'unwrap':
        recv = recv[1]
    opens = [recv] if recv[0] == 'call' and recv[1] == 'std::fs::File::open' and recv[2] else []
    if len(opens) != 1:
        return 'the reader is %s, not the file opened from the path' % vstr(recv)[:100]
    go, co = site_call(prog, opens[0][3])
    if not must_succeed(prog, f, g, w) or not must_succeed(prog, f, go, co):
        return 'a failing open / read can still end in success'
    E = Effects(prog, sl)
    for e in E.expand(f, 'must'):
        if e.call is not None and e.call.fn.path == go.path and e.call.bb == co.bb:
            pv = e.path
            while pv is not None and pv[0] == 'unwrap':
                pv = pv[1]
            if pv is not None and pv[0] == 'param' and pv[1] == f.path and pv[2] == 0:
                return None
            return 'the file that is opened is %s' % (vstr(pv) if pv else None)
    return 'the open of the file is not on every successful path'


# calls that hand a text on unchanged (value level): what is parsed is still exactly the text read
SAME_TEXT = re.compile(r"(^|[ :<])(std::string::String as std::clone::Clone>::clone|std::string::String::as_str|std::string::String::into_boxed_str"
                       r"|std::string::ToString>?::to_string|std::borrow::ToOwned>?::to_owned|std::ops::Deref>?::deref|std::convert::AsRef<str>>?::as_ref"
                       r"|std::borrow::Borrow<str>>?::borrow|std::convert::From<std::string::String>>::from|std::convert::From<&str>>::from)$")


def _peel_same_text(a):
    for _ in range(12):
        if a[0] == 'unwrap':
            a = a[1]
        elif a[0] == 'call' and len(a[2]) == 1 and SAME_TEXT.search(a[1]):
            a = a[2][0]
        else:
            break
    return a


def _is_path_param(f, x):
    while x[0] == 'unwrap':
        x = x[1]
    return x[0] == 'param' and x[1] == f.path and x[2] == 0


def _reader_of(f, r, sites):
    """r is a reader that yields exactly the bytes of the file at f's path parameter: File::open(path)?, possibly buffered"""
    while r[0] == 'unwrap':
        r = r[1]
    if r[0] != 'call':
        return False
    if r[1] == 'std::fs::File::open' and len(r[2]) == 1 and _is_path_param(f, r[2][0]):
        sites.append(r[3])
        return True
    if re.match(r'^std::io::BufReader::<.*>::new$', r[1]) and len(r[2]) == 1:
        return _reader_of(f, r[2][0], sites)
    if re.match(r'^std::io::BufReader::<.*>::with_capacity$', r[1]) and len(r[2]) == 2:
        return _reader_of(f, r[2][1], sites)
    return False


def file_text(f, a):
    """is value `a` exactly the text of the file at f's path parameter?  -> ([sites of the fallible calls that all have to
    succeed], spelling) | (None, 'altered') a complete read of the file occurs strictly inside other computations |
    (None, 'unknown')"""
    a = _peel_same_text(a)
    sites = []
    if a[0] == 'call' and a[1] == 'std::fs::read_to_string' and len(a[2]) == 1 and _is_path_param(f, a[2][0]):
        return [a[3]], 'read_to_string(path)?'
    if a[0] == 'call' and a[1] == 'std::io::read_to_string' and len(a[2]) == 1 and _reader_of(f, a[2][0], sites):
        return sites + [a[3]], 'io::read_to_string(File::open(path)?)?'
    if a[0] == 'call' and re.match(r'^std::string::String::from_utf8$', a[1]) and len(a[2]) == 1:
        b = a[2][0]
        while b[0] == 'unwrap':
            b = b[1]
        if b[0] == 'call' and b[1] == 'std::fs::read' and len(b[2]) == 1 and _is_path_param(f, b[2][0]):
            return [b[3], a[3]], 'String::from_utf8(fs::read(path)?)?'
    whole = ('std::fs::read_to_string', 'std::fs::read', 'std::io::read_to_string')
    if any(x[0] == 'call' and x[1] in whole and any(y[0] == 'param' and y[1] == f.path for y in walk(x)) for x in walk(a)):
        return None, 'altered'
    if any(x[0] == 'param' and x[1] == f.path and x[2] == 0 for x in walk(a)) and not any(x[0] == 'call' and x[1] == 'std::fs::File::open' for x in walk(a)):
        return None, 'altered'   # the path itself (not what a file holds) reaches the parser
    return None, 'unknown'


def reader_ok(prog, sl, f):
    """read_toml_file::<A>(path): the value is toml::from_str::<A> of exactly the file's text, both failures propagate"""
    v = sl.mk_unwrap(sl.inline_deep(sl.mk_unwrap(sl.local(f, 0), 1)), 1)
    while v[0] == 'unwrap':
        v = v[1]
    if not (v[0] == 'call' and re.match(r'^toml(::de)?::from_str$', v[1]) and v[2]):
        return None, 'success value is %s' % vstr(v)[:140]
    g, c = site_call(prog, v[3])
    if c is None or not c.ga or g is None or not _flows_to_result(prog, f, g, c.ga[0]):
        return None, 'toml::from_str is not instantiated with the type the caller asked for (%s)' % (c.ga if c else None)
    a = _peel_same_text(v[2][0])
    if a[0] == 'call' and a[1] == 'std::string::String::new':
        # `let mut buf = String::new(); File::open(path)?.read_to_string(&mut buf)?;`
        why = buffer_filled_from(prog, sl, f, a[3])
        if why is None:
            if not must_succeed(prog, f, g, c):
                return False, 'a TOML/deserialization error can still end in success'
            return True, 'toml::from_str::<%s>(File::open(path)?.read_to_string(..)?)?' % c.ga[0]
        return None, why
    sites, how = file_text(f, a)
    if sites is None:
        if how == 'altered':
            return False, 'parses %s, not the text of the file' % vstr(a)[:140]
        return None, 'parsed text is %s' % vstr(a)[:140]
    if not must_succeed(prog, f, g, c):
        return False, 'a TOML/deserialization error can still end in success'
    for site in sites:
        g2, c2 = site_call(prog, site)
        if not must_succeed(prog, f, g2, c2):
            return False, 'a read error can still end in success'
    return True, 'toml::from_str::<%s>(&%s)?' % (c.ga[0], how)


