"""Helpers of C20: obligations of the triage basis restated on values / effects instead of one spelling.

VecSlicer   a Slicer that also knows what a `Vec` *holds* after it was grown in place: `v.extend(it)`,
            `v.push(x)`, `v.extend_from_slice(s)`, `v.append(&mut w)` through `&mut v` make the value of v
            `chain(v0, it)` / `chain(v0, once(x))` — the iterator algebra (lib/iters.py) and the effect expansion
            (loops over decomposable collections are unrolled) then see through an intermediate table such as
                let mut dirs = vec![(a, &self.all), ..]; dirs.extend(self.process.iter().map(..)); for (d, x) in dirs {..}
            exactly as through the four separate calls / the loop over `&self.process` it replaces.
            Only growth that *certainly happened before every other use* of the vector is modelled (the growing call is
            outside any loop and dominates every other read of the local, so the flow-insensitive value is exact); any
            other growth pattern leaves the value as lib/value.py gives it.
order_free_transfer  a hash iteration that needs no triage: a complete loop that only inserts each entry under its own key
            into a keyed container (copy-on-write overlay map written back into an Env / BTreeMap)
lift_to / triage_scope  a triage names a container of a public function; it covers the private bodies / phases only that
            function can reach, with the iterated container re-expressed at the call sites
exec_d_rows the file WRITE effects of the exec.d writer, each classified as <root>/../exec.d/<key of an element of
            the triaged container> or not — independent of where the `fs::copy` call lives (inline, closure handed
            to a combinator, private helper).
"""
from .lib.value import Slicer, walk, vstr
from .lib.mir import op_place, op_const, _rvalue_places
from .lib import iters
from .lib.paths import strip

IT = iters.IT
# name suffix -> how the second argument contributes elements
GROW_ONE = ('std::vec::Vec::<T, A>::push', 'std::vec::Vec::<T>::push')
GROW_MANY = ('std::vec::Vec::<T, A>::extend_from_slice', 'std::vec::Vec::<T>::extend_from_slice',
             'std::vec::Vec::<T, A>::append', 'std::vec::Vec::<T>::append')


def _grow_kind(c):
    if c.indirect or len(c.args) != 2:
        return None
    if c.decl == 'std::iter::Extend::extend' and (c.name or '').startswith('<std::vec::Vec<'):
        return 'many'
    if c.is_(*GROW_ONE):
        return 'one'
    if c.is_(*GROW_MANY):
        return 'many'
    return None


class VecSlicer(Slicer):
    def apply_closure(self, clv, args):
        if self._sym is None:
            self._sym = VecSlicer(self.prog, self.max_depth)
            self._sym.symbolic_upvars = True
        return Slicer.apply_closure(self, clv, args)

    def _growers(self, fn, local):
        """[(Call, 'one'|'many')] in program order: in-place growth of Vec `local` that precedes every other use"""
        key = ('vecgrow', fn.path)
        idx = self._cache.get(key)
        if idx is None:
            idx = {}
            refs = {}     # temp holding `&mut local` -> (local, bb, stmt index)
            for bi, b in enumerate(fn.blocks):
                for si, st in enumerate(b['s']):
                    if st[0] == '=' and len(st[1]) == 1 and st[2]['r'] == 'ref' and st[2].get('mut') and len(st[2]['p']) == 1:
                        refs[st[1][0]] = (st[2]['p'][0], bi, si)
            for c in fn.calls:
                k = _grow_kind(c)
                if k is None:
                    continue
                pl = op_place(c.args[0])
                if pl and len(pl) == 1 and pl[0] in refs and len(fn.whole_defs(pl[0])) == 1:
                    tgt, rb, rs = refs[pl[0]]
                    idx.setdefault(tgt, []).append((c, k, (rb, rs)))
            self._cache[key] = idx
        cand = idx.get(local)
        if not cand:
            return []
        if not (fn.locals[local].get('ty') or '').startswith('std::vec::Vec<'):
            return []
        if len(fn.whole_defs(local)) != 1:
            return []
        own = {rs for _, _, rs in cand}
        reads = [u for u in fn.uses_of(local) if u[1] != 'drop' and not (u[1] == 'stmt' and (u[0], u[2]) in own)]
        dom = fn.dominators()
        for c, k, _ in cand:
            if fn.in_loop(c.bb):
                return []
            # every other read of the vector comes after the growth (a read in the growing block itself would be the
            # `&mut` borrow, which is excluded, or precede the terminator: not exact -> give up)
            if any(u[0] == c.bb or not fn.dominates(c.bb, u[0]) for u in reads):
                return []
        cand = sorted(cand, key=lambda x: len(dom.get(x[0].bb, ())))
        for a, b in zip(cand, cand[1:]):
            if not fn.dominates(a[0].bb, b[0].bb):
                return []
        return [(c, k) for c, k, _ in cand]

    def _with_updates(self, fn, local, v, seen, d):
        v = Slicer._with_updates(self, fn, local, v, seen, d)
        for c, k in self._growers(fn, local):
            x = self.operand(fn, c.args[1], seen, d)
            if k == 'one':
                x = ('call', 'std::iter::once', (x,), None)
            v = ('call', IT + 'chain', (v, x), (fn.path, c.bb))
        return v


_slicers = {}


def vec_slicer(prog):
    s = _slicers.get(id(prog))
    if s is None or s.prog is not prog:
        s = _slicers[id(prog)] = VecSlicer(prog)
    return s


def element_key(v, is_container):
    """is v the key (`.0`) of an element of an iteration over the container (or the element of its `keys()`)"""
    from . import layer_env_common as L
    coll, proj = L.loop_element(v)
    if coll is None:
        return False
    keys_only = False
    for _ in range(8):
        coll = strip(coll)
        if is_container(coll):
            return proj == (() if keys_only else ('0',))
        if coll[0] == 'call' and coll[2] and len(coll[2]) == 1:
            if coll[1].endswith(('::keys', '::into_keys')):
                keys_only = True
            elif not (iters._is_source(coll[1]) and coll[1].endswith(iters.SAME_ELEMS)) and coll[1] not in iters.SAME:
                return False
            coll = coll[2][0]
            continue
        return False
    return False


def exec_d_rows(prog, E, rx, is_container):
    """[(effect, ok, why)] for every file WRITE effect of the exec.d writer rx: ok iff it goes to
    <first parameter>/../exec.d/<key of an element of the container>"""
    from . import layer_env_common as L
    root = lambda v: v[0] == 'param' and v[1] == rx.path and v[2] == 0
    rows = []
    for e in E.expand(rx, 'may'):
        if e.kind != 'WRITE':
            continue
        if e.path is None:
            rows.append((e, False, 'no destination path'))
            continue
        pv = E.slicer.inline_deep(e.path)
        cs = L.comps(pv, root)
        if cs is None:
            rows.append((e, False, 'destination is not below the layers directory: ' + vstr(pv)[:80]))
        elif len(cs) < 2 or cs[-2] != 'exec.d':
            rows.append((e, False, 'destination is not directly inside exec.d: ' + vstr(pv)[:80]))
        elif isinstance(cs[-1], str) or not element_key(cs[-1], is_container):
            rows.append((e, False, 'file name is not the key of the element being handled: ' + vstr(pv)[:80]))
        else:
            rows.append((e, True, ''))
    return rows


def _element_of(v, is_container):
    """(collection value, projection) if v is (a projection of) the element of an iteration over the container — through
    borrows, `.iter()`-like sources, order/element preserving adapters and an intermediate collected (sorted) Vec"""
    from . import layer_env_common as L
    coll, proj = L.loop_element(v)
    if coll is None:
        return None, None
    c = coll
    for _ in range(10):
        c = strip(c)
        if is_container(c):
            return coll, proj
        if c[0] == 'call' and c[2] and (iters._is_source(c[1]) or c[1] in iters.SAME or c[1] in iters.COLLECTING
                                        or c[1].endswith('IntoIterator::into_iter')):
            c = c[2][0]
            continue
        break
    return None, None


def process_scope_rows(prog, E, f, is_container, root):
    """The triage basis of the process scopes, stated on the *effects* of write_to_layer_dir and on which data an
    effect ranges over — not on where the `entries` map of a delta is read:
    a file WRITE "belongs to a process scope" iff its path or its data is computed from the *value* (`.1`) of an element
    of an iteration over the container (the per-process delta: directly, through `.entries`, or handed to a private
    helper that plans the files of a delta — `planned_env_files(delta)`);
    it is fine iff its directory is <root>/<literal components>/<key (`.0`) of the same element>.
    -> [(effect, dirs | None, why)]: dirs = literal components + ('<key>',)"""
    from . import layer_env_common as L
    rows = []
    for e in E.expand(f, 'may'):
        if e.kind != 'WRITE':
            continue
        colls = []
        for v in ((e.path,) if e.path is not None else ()) + tuple(e.args or ()):
            for x in walk(v):
                if x[0] != 'field':
                    continue
                coll, proj = _element_of(x, is_container)
                if coll is not None and proj[:1] == ('1',) and coll not in colls:
                    colls.append(coll)
        if not colls:
            continue
        if e.path is None:
            rows.append((e, None, 'no destination path'))
            continue
        if len(colls) > 1:
            rows.append((e, None, 'data of two different iterations over the container in one file'))
            continue
        cs = L.comps(e.path, root)
        if cs is None:
            cs = L.comps(E.slicer.inline_deep(e.path), root)
        if cs is None or len(cs) < 2:
            rows.append((e, None, 'destination is not a file in a directory below the layer directory: ' + vstr(e.path)[:100]))
            continue
        dirs = cs[:-1]
        last = dirs[-1]
        kc, kp = (None, None) if isinstance(last, str) else _element_of(last, is_container)
        if kc is None or kc != colls[0] or kp != ('0',):
            rows.append((e, None, 'directory is not named by the key of the element whose delta is written: ' + vstr(e.path)[:100]))
            continue
        if not all(isinstance(d, str) for d in dirs[:-1]):
            rows.append((e, None, 'directory above the key is not literal: ' + vstr(e.path)[:100]))
            continue
        rows.append((e, dirs[:-1] + ('<key>',), ''))
    return rows


def created_file_data(prog, E, e):
    """What is written into the file created by effect e (`File::create(p)`), when lib/effects.py could not attach it
    as one value: every value handed to a call together with the handle — `write_all(handle, data)` in the creating
    function, in a closure a combinator runs on the creation result (`File::create(p).and_then(|mut f| f.write_all(data))`,
    the closure applied to the result), `write!(handle, ..)`, `to_writer(handle, value)` — in the terms of the entry
    function of the expansion.  -> (values, reason it is not decided | None): not decided when the handle leaves the
    function that creates it (returned, or handed to a workspace function: its writes are not followed); no values =
    the file is created empty"""
    sl = E.slicer
    g = e.call.fn
    site = (g.path, e.call.bb)

    def derives(v):
        return isinstance(v, tuple) and any(x[0] == 'call' and len(x) == 4 and x[3] == site for x in walk(v))

    data = []
    for c in g.calls:
        if c is e.call or not c.args:
            continue
        vals = [sl.operand(g, a) for a in c.args]
        idx = [i for i, v in enumerate(vals) if derives(v)]
        if not idx:
            continue
        if not c.indirect and any(h.crate in CRATES and h.kind != 'Closure' for h in prog.callee_fns(c)):
            return [], 'the file handle is handed to %s' % (c.name or '?')
        for i, v in enumerate(vals):
            if i in idx:
                continue
            if isinstance(v, tuple) and v and v[0] == 'closure':
                # a combinator running the closure on the (success payload of the) creation result
                av = sl.apply_closure(v, (vals[idx[0]],))
                for x in walk(av) if isinstance(av, tuple) else ():
                    if x[0] == 'call' and x[2] and derives(x[2][0]):
                        data.extend(a for a in x[2][1:] if isinstance(a, tuple))
                # what the closure captured is part of what it can write
                data.append(v)
            elif isinstance(v, tuple):
                data.append(v)
    if 'fs::File' in (g.ret or ''):
        return [], 'the file handle is returned by %s' % g.path.split('::')[-1]
    m = getattr(e, 'mapping', None)
    if m:
        data = [E.subst(v, m) for v in data]
    return data, None


# ======================================================================================================================
# deepening round: obligations that do not depend on how a hash container is consumed / which clock is read
# ======================================================================================================================
import re

CRATES = ('libcnb', 'libcnb_data', 'libcnb_common')
HASH_HEAD = re.compile(r'(^|::)(HashMap|HashSet|IndexMap|IndexSet|FxHashMap|FxHashSet|AHashMap|AHashSet)$')
HASH_ITER_TY = re.compile(r'\b(hash_map|hash_set)::(Iter|IterMut|IntoIter|Keys|Values|ValuesMut|IntoKeys|IntoValues|Drain|'
                          r'Union|Intersection|Difference|SymmetricDifference|ExtractIf)\b')
BTREE_HEAD = re.compile(r'(^|::)(BTreeMap|BTreeSet)$')

# --- R3: sources of values that differ between two processes running on identical inputs -----------------------------
# by what they read, not by one spelling: the wall/monotonic clock (also through `elapsed`), time stamps and inode
# identity of files, process / thread identity, the per-process hash seed, PRNGs and random names, addresses
NONDET_FAMILIES = (
    ('clock', re.compile(r'^std::time::(SystemTime|Instant)::(now|elapsed)$|^(chrono|time|jiff|humantime)::|^std::time::Instant::')),
    ('file time stamp / inode', re.compile(r'^std::fs::Metadata::(modified|accessed|created)$|'
                                           r'^std::os::(unix|linux)::fs::MetadataExt::(st_)?(mtime|atime|ctime|ino|dev|rdev)(_nsec)?$|'
                                           r'^std::fs::FileTimes|^filetime::')),
    ('process / thread identity', re.compile(r'^std::process::id$|^std::os::unix::process::parent_id$|^std::thread::current$|'
                                             r'^std::thread::Thread::id$|^libc::get(pid|ppid|tid)$|^std::process::Child::id$')),
    ('per-process hash seed', re.compile(r'\bRandomState\b')),
    ('randomness', re.compile(r'^(fastrand|rand|rand_core|uuid|getrandom|nanoid|ulid|tempfile)::|^std::env::temp_dir$')),
    ('address', re.compile(r'std::fmt::Pointer\b')),
)
SCHEDULE_RX = re.compile(r'^std::thread::(spawn|scope|Builder::spawn|Builder::spawn_scoped|Scope::spawn)\b|^(rayon|crossbeam|tokio)::|'
                         r'^std::sync::mpsc::')


def nondet_family(name):
    for fam, rx in NONDET_FAMILIES:
        if rx.search(name or ''):
            return fam
    return None


def nondet_calls(f):
    """[(family, Call)] of calls in f that read something that differs between two processes"""
    out = []
    for c in f.calls:
        for n in sorted(c.names()):
            fam = nondet_family(n)
            if fam:
                out.append((fam, c))
                break
    return out


def library_fns(prog, out_of_subject):
    """every function of the library crates whose code runs between the buildpack author's logic and the bytes of an
    output (builders, conversions, trait impls, layer API, runtime), i.e. everything but derived code and the
    telemetry exporter"""
    return {p: f for p, f in prog.fns.items() if f.crate in CRATES and not f.derived and not out_of_subject.match(p)}


# --- R2: order-observing uses of a hash container that are not spelled as an iteration -------------------------------
ORDER_FREE_METHOD = re.compile(r'^std::collections::(hash_map::|hash_set::)?(HashMap|HashSet)::<.*>::(new|with_capacity|with_hasher|'
                               r'with_capacity_and_hasher|insert|get|get_mut|get_key_value|get_many_mut|contains_key|contains|remove|'
                               r'remove_entry|take|replace|entry|len|is_empty|clear|reserve|try_reserve|shrink_to_fit|shrink_to|capacity|'
                               r'hasher|get_or_insert_with|is_subset|is_superset|is_disjoint|try_insert)$')
ORDER_FREE_DECL = {'std::clone::Clone::clone', 'std::clone::Clone::clone_from', 'std::default::Default::default',
                   'std::cmp::PartialEq::eq', 'std::cmp::PartialEq::ne', 'std::ops::Index::index', 'std::mem::take',
                   'std::mem::swap', 'std::mem::replace', 'std::mem::drop', 'std::ops::Deref::deref', 'std::ops::DerefMut::deref_mut',
                   'std::borrow::Borrow::borrow', 'std::convert::AsRef::as_ref', 'std::borrow::ToOwned::to_owned'}


def _arg_local(f, op):
    pl = op_place(op)
    if not pl:
        return None
    # the type head (references peeled) of `*x` is the head of x
    return f.locals[pl[0]] if all(x == '*' for x in pl[1:]) else None


def _is_hash_container(loc):
    return bool(loc) and bool(HASH_HEAD.search(loc.get('head') or ''))


def implicit_hash_uses(prog, f, explicit):
    """[(Call, argument index)]: a hash-ordered container handed *as a whole* to code that can observe its order
    (`vec.extend(map)`, `Vec::from_iter(set)`, `iter.chain(map)`, `format!("{map:?}")`, `toml::to_string(&map)`,
    `serializer.collect_map(&map)`, a generic workspace function).  Order-free container API (lookup, insertion, size,
    clone, equality), conversions into another unordered / sorted container and workspace functions that declare the
    parameter as a hash container (their own body is analysed) are not uses.  `explicit` = calls already recognised as
    iterations."""
    out = []
    for c in f.calls:
        if c in explicit or not c.args:
            continue
        locs = [_arg_local(f, a) for a in c.args]
        idx = [i for i, l in enumerate(locs) if _is_hash_container(l)]
        if not idx:
            continue
        names = c.names()
        if any(ORDER_FREE_METHOD.match(n) for n in names) or (names & ORDER_FREE_DECL):
            continue
        decl = c.decl or c.name or ''
        if decl == 'std::iter::Extend::extend' and 0 in idx:
            # growing a hash container: the order in which elements arrive is not observable afterwards
            continue
        if decl in ('std::iter::FromIterator::from_iter', 'std::iter::Iterator::collect', 'std::convert::From::from', 'std::convert::Into::into'):
            dhead = (c.dty or '').split('<')[0]
            if HASH_HEAD.search(dhead) or BTREE_HEAD.search(dhead):
                continue
        callees = [] if c.indirect else prog.callee_fns(c)
        if callees and all(g.crate in CRATES for g in callees):
            idx = [i for i in idx if not all(i < g.argc and _is_hash_container(g.locals[i + 1]) for g in callees)]
            if not idx:
                continue
        for i in idx:
            out.append((c, i))
    return out


def workspace_hash_iterators(prog):
    """workspace functions that hand out an iterator over a hash container (`Env::iter`, `<&Env as IntoIterator>`):
    calling one of them is iterating the hash container"""
    return {p for p, f in prog.fns.items() if f.crate in CRATES and not f.derived and HASH_ITER_TY.search(f.ret or '')}


# --- R2: how an iteration over a triaged container is consumed --------------------------------------------------------
ELEMENTWISE = set(iters.SAME) | {IT + 'map', IT + 'filter', IT + 'filter_map', IT + 'flat_map', IT + 'flatten', IT + 'inspect',
                                 IT + 'chain', 'std::iter::IntoIterator::into_iter', IT + 'by_ref', IT + 'size_hint',
                                 'std::iter::ExactSizeIterator::len'}
COMPLETE = {IT + 'for_each', IT + 'try_for_each', IT + 'collect', IT + 'count', IT + 'sum', IT + 'product', IT + 'unzip',
            IT + 'partition', IT + 'min', IT + 'max', 'std::iter::Extend::extend', 'std::iter::FromIterator::from_iter'}
SHORT_CIRCUIT = {IT + 'try_for_each'}
ORDER_KEEPING_SLICE = re.compile(r'^std::slice::<impl \[T\]>::(sort\w*|iter|iter_mut|len|is_empty)$')
POSITIONAL = set(iters.TRUNCATING) | {IT + 'nth', IT + 'last', IT + 'zip', IT + 'nth_back', IT + 'next_back', IT + 'next_chunk',
                                      IT + 'array_chunks', IT + 'advance_by'}


ITER_VALUED = set(iters.SAME) | set(iters.FEWER) | set(iters.LAZY_WITH_CLOSURE) | {
    IT + 'enumerate', IT + 'zip', IT + 'chain', IT + 'flatten', IT + 'flat_map', IT + 'cycle', IT + 'map_while', IT + 'scan',
    IT + 'intersperse', IT + 'array_chunks', 'std::iter::DoubleEndedIterator::rev', 'std::iter::Extend::extend'}


def _iterates(v, is_cont, depth=0):
    """is v an iterator (or collected sequence) over the container"""
    v = strip(v)
    if is_cont(v):
        return True
    if depth > 14 or not isinstance(v, tuple) or not v:
        return False
    if v[0] == 'phi':
        return any(_iterates(x, is_cont, depth + 1) for x in v[1])
    if v[0] != 'call' or not v[2]:
        return False
    name, args = v[1], v[2]
    # only calls whose result is again the sequence (adapters, sources, collections of it): `next`, `count`, `try_for_each`,
    # `find` .. give an element / a number / a verdict
    if name in ITER_VALUED or iters._is_source(name) or name in iters.COLLECTING or name.endswith('IntoIterator::into_iter'):
        return any(_iterates(a, is_cont, depth + 1) for a in args[:2] if isinstance(a, tuple) and a and a[0] != 'closure')
    return False


def hash_iteration_shape(prog, sl, E, top, is_cont, scope=None):
    """(positional, undecided): calls in `top` and its closures that consume an iterator over the triaged container by
    *position* (a prefix / suffix / every n-th / the first element: which elements those are depends on the hash
    order), and calls whose way of consuming it is not known to visit every element independently of the order.
    `scope` = [(function, container predicate in that function's terms)] when the code of `top` is spread over private
    helpers only it can reach (triage_scope)"""
    positional, undecided = [], []
    for g, is_cont in (scope if scope is not None else [(g, is_cont) for g in [top] + prog.closures_of(top)]):
        loop_next = {(lp.next_call.bb) for lp in E.loops(g) if lp.next_call is not None}
        for c in g.calls:
            if c.indirect or not c.args:
                continue
            hit = None
            for i, a in enumerate(c.args[:2]):
                v = sl.operand(g, a)
                if isinstance(v, tuple) and v and not is_cont(strip(v)) and _iterates(v, is_cont):
                    hit = i
                    break
            if hit is None:
                continue
            decl = c.decl or c.name or ''
            short = decl.split('::')[-1]
            if decl == IT + 'next':
                if c.bb not in loop_next:
                    positional.append('%s takes a single element (%s)' % (short, c.where()))
                continue
            if decl in POSITIONAL:
                positional.append('%s (%s)' % (short, c.where()))
            elif decl in SHORT_CIRCUIT or (decl in COMPLETE and (c.dty or '').startswith(('std::result::Result<', 'std::option::Option<'))):
                # stops at the first failing element: complete only if that failure cannot end in success
                from .lib.discard import ok_on_success
                if not ok_on_success(prog, g, c):
                    positional.append('%s stops at the first failing element and its failure can end in success (%s)' % (short, c.where()))
            elif decl in ELEMENTWISE or decl in COMPLETE or decl in iters.COLLECTING or decl in ('std::vec::Vec::<T, A>::extend_from_slice',):
                continue
            elif decl.startswith(('std::ops::Try::', 'std::ops::FromResidual::', 'std::ops::Deref::', 'std::ops::DerefMut::',
                                  'std::convert::AsRef::', 'std::borrow::Borrow::', 'std::mem::drop', 'std::clone::Clone::clone',
                                  'std::vec::Vec::<T, A>::as_slice', 'std::vec::Vec::<T, A>::len', 'std::vec::Vec::<T, A>::is_empty')) \
                    or ORDER_KEEPING_SLICE.match(decl):
                continue
            else:
                undecided.append('%s (%s)' % (decl, c.where()))
    return positional, undecided


# --- R1: what is actually serialised -----------------------------------------------------------------------------------
SINK_RX = re.compile(r'^(toml::(ser::)?to_(string|string_pretty|vec|writer)|toml::(value::)?(Value|Table)::try_from|'
                     r'toml::map::Map::<.*>::try_from|serde_json::(ser::|value::)?to_\w+|serde_yaml::\w*::?to_\w+|'
                     r'libcnb_common::toml_file::write_toml_file)$')
ADT_PATH = re.compile(r'[A-Za-z_][A-Za-z0-9_]*(?:::[A-Za-z_][A-Za-z0-9_]*)+')


GENERIC_TOKEN = re.compile(r"(?<![\w:'])([A-Z][A-Za-z0-9_]*)(?![\w]|::)")


def generic_tokens(ty):
    """names of generic parameters in a MIR type string: every ADT is printed with its full path, so a bare
    capitalised identifier (`M`, `T`, the `Serialize` of `impl Serialize`) is a type parameter"""
    return set(GENERIC_TOKEN.findall(ty or '')) - {'Self'}


PROJECTION = re.compile(r'<[^<>]* as [^<>]*>::\w+')
IMPL_TY = re.compile(r'impl [A-Za-z_][\w:]*(<[^<>]*>)?( \+ [A-Za-z_][\w:]*)*')


def _norm_ty(t):
    t = re.sub(r"'\w+ ?", '', t or '')
    return t.replace('&mut ', '&')


def unify(pattern, actual, toks):
    """bindings of the type parameters `toks` when the declared parameter type `pattern` is instantiated with the
    argument type `actual` (`Option<&T>` vs `Option<&launch::Launch>` -> {T: launch::Launch}); None if the shapes differ"""
    pat = IMPL_TY.sub(lambda m: 'I' + m.group(0).split(' ')[1].split('::')[-1].split('<')[0], pattern or '')
    p, a = _norm_ty(pat).lstrip('&'), _norm_ty(actual).lstrip('&')
    rx = re.escape(p)
    names = {}
    for k, tok in enumerate(sorted(generic_tokens(pat), key=len, reverse=True)):
        one = r'(?<![\w:])' + re.escape(tok) + r'(?![\w])'
        rx, n = re.subn(one, '(?P<g%d>.+)' % k, rx, count=1)
        if n:
            names['g%d' % k] = tok
            rx = re.sub(one, '.+', rx)
    m = re.match('^' + rx + '$', a)
    if not m:
        return None
    out = {}
    for g, tok in names.items():
        tok = tok[1:] if tok.startswith('I') and tok[1:] in toks else tok
        out[tok] = m.group(g)
    return out


def serialised_types(prog, sl, walker=walk):
    """[(sink Call, Fn in which this part of the serialised type is written down | None for a part chosen by the
    caller of a public generic function / an associated type of a user trait, type string)] for every call of a
    serialiser in the library crates.  Generic parts of the type (`&impl Serialize`, `Option<&T>`,
    `LayerContentMetadata<M>`) are followed to the workspace call sites of the enclosing function: through the
    parameters the serialised value is computed from (`walker` decides what counts as computed by the library), taking
    what the caller's argument type puts in the place of the type parameter"""
    callers = prog.callers()
    rows = []
    seen = set()

    def go(f, ty, val, sink, depth):
        if (id(sink), f.path, ty) in seen:
            return
        seen.add((id(sink), f.path, ty))
        rows.append((sink, f, ty))
        toks = generic_tokens(PROJECTION.sub('', ty))
        if generic_tokens(ty) - toks:
            rows.append((sink, None, ty))       # `<L as Layer>::Metadata`: chosen by the user's trait implementation
        if not toks:
            return
        from_params = {x[2] + 1 for x in walker(val) if x[0] == 'param' and x[1] == f.path and isinstance(x[2], int)}
        idx = [i for i in range(1, f.argc + 1) if i in from_params and generic_tokens(f.locals[i].get('ty')) & toks]
        css = [cs for cs in callers.get(f.path, []) if not cs.indirect and cs.fn.path != f.path and cs.fn.crate in CRATES
               and not cs.fn.derived and f.path in cs.names()]
        n = 0
        if idx and css and depth < 5:
            for cs in css:
                for i in idx:
                    l2 = _arg_local(cs.fn, cs.args[i - 1]) if i - 1 < len(cs.args) else None
                    if l2 is None:
                        continue
                    n += 1
                    b = unify(f.locals[i].get('ty'), l2['ty'], toks)
                    v2 = sl.operand(cs.fn, cs.args[i - 1])
                    if b is None:
                        go(cs.fn, l2['ty'], v2, sink, depth + 1)    # shapes differ: the whole argument type (over-approximation)
                    else:
                        for tok, bound in sorted(b.items()):
                            if tok in toks:
                                go(cs.fn, bound, v2, sink, depth + 1)
        if not n:
            rows.append((sink, None, ty))

    for f in prog.fns.values():
        if f.crate not in CRATES or f.derived:
            continue
        for c in f.calls:
            if c.indirect or not c.args or not any(SINK_RX.match(n) for n in c.names()):
                continue
            loc = _arg_local(f, c.args[0])
            if loc is None:
                rows.append((c, None, '?'))
                continue
            go(f, loc['ty'], sl.operand(f, c.args[0]), c, 0)
    return rows


# --- R1: which function a serialiser call belongs to ------------------------------------------------------------------
def sink_owner(prog, f, owners, _seen=None):
    """the function of `owners` that f's code belongs to: f itself, the function a closure is written in, or — for a
    private (not `pub`, not a trait implementation) workspace function — the single member of `owners` that every one
    of its uses (direct calls and references to it as a function item, followed through further private functions)
    ends in.  A triage stated for a public function ("what this serialiser produces goes to fd 3") covers the phases
    it was split into as long as nobody else can reach them; None as soon as one use is outside (or there is none)"""
    _seen = _seen if _seen is not None else set()
    if f.path in owners:
        return f.path
    if f.path in _seen:
        return None
    _seen = _seen | {f.path}
    if f.kind == 'Closure':
        p = prog.fns.get(f.parent)
        return sink_owner(prog, p, owners, _seen) if p is not None else None
    if f.kind not in ('Fn', 'AssocFn') or f.vis in ('pub', 'n/a') or f.impl_trait or f.crate not in CRATES or f.derived:
        return None
    found = set()
    n = 0
    for cs in prog.callers().get(f.path, []):
        if cs.fn.path == f.path:
            continue
        n += 1
        found.add(sink_owner(prog, cs.fn, owners, _seen))
    if n and len(found) == 1 and None not in found:
        return next(iter(found))
    return None


# --- R2: a triage is about a container of a public function, wherever the loop over it is written ---------------------
def lift_to(prog, sl, g, v, owner_path, depth=0):
    """value v (in the terms of g) re-expressed in the terms of the function `owner_path`, at every call site through
    which g is reached (parameters replaced by the call-site arguments, through further private functions) ->
    [values] | None when a use of g cannot be substituted (handed over as a function item, called from a closure,
    recursion)"""
    from .lib.value import subst
    if g.path == owner_path:
        return [v]
    if depth > 4 or g.kind == 'Closure':
        return None
    if not any(x[0] == 'param' and x[1] == g.path for x in walk(v)):
        return [v]
    css = [cs for cs in prog.callers().get(g.path, []) if cs.fn.path != g.path]
    if not css:
        return None
    out = []
    for cs in css:
        if cs.indirect or g.path not in cs.names():
            return None
        m = {(g.path, i): sl.operand(cs.fn, a) for i, a in enumerate(cs.args)}
        r = lift_to(prog, sl, cs.fn, subst(v, m, sl), owner_path, depth + 1)
        if r is None:
            return None
        out.extend(r)
    return out


def triage_scope(prog, top):
    """the functions whose code is the code of `top`: top, the private workspace functions that only top can reach
    (sink_owner: a public function split into a thin wrapper and non-generic bodies / phases) and their closures"""
    fns = [top]
    for g in prog.fns.values():
        if g.path != top.path and g.crate in CRATES and g.kind in ('Fn', 'AssocFn') and not g.derived \
                and sink_owner(prog, g, {top.path: 1}) == top.path:
            fns.append(g)
    out = []
    for g in fns:
        out.append(g)
        out.extend(prog.closures_of(g))
    return out

# --- R2: a hash iteration whose order cannot be observed afterwards: a keyed transfer ---------------------------------
DISTINCT_ELEMS = re.compile(r'\bhash_map::(Iter|IterMut|IntoIter|Drain|Keys|IntoKeys)\b|\bhash_set::(Iter|IntoIter|Drain)\b')
HASH_ITER_SELF = re.compile(r'^<std::collections::hash_(map|set)::\w+<')
KEYS_ONLY = re.compile(r'\bhash_map::(Keys|IntoKeys)\b|\bhash_set::')
KEYED_INSERT = re.compile(r'^std::collections::(hash_map::|btree_map::|hash_set::|btree_set::)?(HashMap|BTreeMap|HashSet|BTreeSet)::<.*>::insert$')
INJECTIVE = {'std::convert::Into::into', 'std::convert::From::from', 'std::clone::Clone::clone', 'std::borrow::ToOwned::to_owned',
             'std::convert::AsRef::as_ref', 'std::ops::Deref::deref', 'std::borrow::Borrow::borrow', 'std::ffi::OsStr::to_os_string',
             'std::ffi::OsString::as_os_str', 'std::path::Path::to_path_buf', 'std::string::String::as_str', 'std::string::ToString::to_string',
             'std::ffi::OsStr::to_owned', 'std::str::<impl str>::to_owned', 'std::ffi::OsString::from'}


def _peel_injective(prog, v):
    """v with conversions that map different keys to different keys (clone / into / to_owned / borrows) peeled"""
    for _ in range(8):
        v = strip(v)
        if v[0] == 'call' and len(v[2]) == 1 and len(v) == 4 and v[3] and v[3][0] in prog.fns:
            c = prog.fns[v[3][0]].call_at(v[3][1])
            if c is not None and not c.indirect and (c.names() & INJECTIVE):
                v = v[2][0]
                continue
        return v
    return v


def _keyed_insert(prog, sl, f, c):
    """(index of the key argument, index of the receiver) if the call inserts its key argument into a keyed container
    (HashMap / BTreeMap / HashSet / BTreeSet::insert, or a workspace function that does nothing but that with its
    parameters — Env::insert), else None"""
    if c.indirect or len(c.args) < 2:
        return None
    if any(KEYED_INSERT.match(n) for n in c.names()):
        return 1, 0
    gs = prog.callee_fns(c)
    if len(gs) != 1 or gs[0].crate not in CRATES or gs[0].kind == 'Closure':
        return None
    g = gs[0]
    inner = [ic for ic in g.calls if not ic.indirect and any(KEYED_INSERT.match(n) for n in ic.names())]
    if len(inner) != 1 or g.in_loop(inner[0].bb):
        return None
    ic = inner[0]
    for oc in g.calls:
        if oc is not ic and (oc.indirect or not (oc.names() & (INJECTIVE | {'std::mem::drop'}))):
            return None
    recv = strip(sl.operand(g, ic.args[0]))
    while recv[0] == 'field':
        recv = strip(recv[1])
    key = _peel_injective(prog, sl.operand(g, ic.args[1]))
    if recv[0] == 'param' and recv[1] == g.path and key[0] == 'param' and key[1] == g.path and recv[2] != key[2]:
        return key[2], recv[2]
    return None


def _iter_chain(f, lp):
    """the locals the iterator of the loop lives in: the argument of `next`, back through re-borrows and moves to the
    local the iterator was created into"""
    pl = op_place(lp.next_call.args[0])
    chain = []
    x = pl[0] if pl else None
    defs = f.defs()
    while x is not None and x not in chain and len(chain) < 8:
        chain.append(x)
        ds = defs.get(x, [])
        if len(ds) != 1 or ds[0][0] != 'stmt':
            break
        rv = ds[0][3]
        if rv['r'] == 'ref':
            x = rv['p'][0]
        elif rv['r'] == 'use' and op_place(rv['o']):
            x = op_place(rv['o'])[0]
        else:
            break
    return chain


def order_free_transfer(prog, sl, E, f, cs, implicit=()):
    """Is every hash iteration of f (the iteration calls cs) a *keyed transfer*: a complete `for` loop over the distinct
    keys / entries of a hash map or set whose body does nothing but insert something computed from the element under
    the element's own key into a keyed container (HashMap / BTreeMap / set insert, Env::insert)?  Insertions under
    distinct keys commute, so the container that results — the only thing that leaves the loop — is the same for every
    iteration order.  Stated on the loop, not on a spelling:
      * the iterator yields each key once (not `values()`), is consumed by that loop only and completely (no exit other
        than exhaustion),
      * nothing is carried from one iteration to the next: every local written in the body lives in the body (or only
        ever holds constants: drop flags), nothing outside the body is borrowed mutably except the iterator and the
        insert target, the insert target is not read in the body,
      * every other call in the body takes no `&mut` argument and has no effect known to lib/effects.py,
      * the inserted key is the element's key up to conversions that keep different keys different.
    -> (ok, why not)"""
    if implicit:
        return False, 'the container is handed as a whole to order-observing code'
    loops = {lp.next_call.bb: lp for lp in E.loops(f) if lp.next_call is not None}
    mine = []
    for c in cs:
        if c.decl == IT + 'next':
            lp = loops.get(c.bb)
            if lp is None:
                return False, 'a single element is taken (%s)' % c.where()
            # the loop draws from the hash iterator itself (an adapter in between could swap / merge what is the key)
            if not (HASH_ITER_SELF.match(c.name or '') and DISTINCT_ELEMS.search(c.name or '')):
                return False, 'the loop is not directly over the distinct keys / entries of the container (%s)' % (c.name or '?')
            mine.append(lp)
    if not mine:
        return False, 'no loop consumes the iteration'
    for c in cs:
        if c.decl == IT + 'next':
            continue
        # a source call (`into_iter`, `iter`, `drain`, `keys`): its result is the iterator of one of those loops only
        if f.in_loop(c.bb) or not c.dest or len(c.dest) != 1:
            return False, 'the iterator is created in a loop / into a place (%s)' % c.where()
        feeds = [lp for lp in mine if c.dest[0] in _iter_chain(f, lp)]
        if len(feeds) != 1:
            return False, 'the iterator created at %s is not consumed by exactly one loop' % c.where()
        chain = _iter_chain(f, feeds[0])
        for x in chain:
            for u in f.uses_of(x):
                if u[1] == 'drop' or (u[1] == 'arg' and u[0] == feeds[0].header):
                    continue
                if u[1] != 'stmt' or f.blocks[u[0]]['s'][u[2]][1][0] not in chain:
                    return False, 'the iterator created at %s is used by more than the loop' % c.where()
    defs = f.defs()

    def const_only(x):
        ds = defs.get(x, []) + defs.get((x, 'partial'), [])
        return bool(ds) and all(d[0] == 'stmt' and d[3]['r'] == 'use' and op_const(d[3]['o']) is not None for d in ds)

    def lives_in(x, body):
        ds = defs.get(x, []) + defs.get((x, 'partial'), [])
        return x > f.argc and bool(ds) and all(d[1] in body for d in ds)

    for lp in mine:
        body = lp.body
        ex = getattr(lp, 'exhaust', None)
        if ex is None or [(b, t) for b in body for t in f.succs(b) if t not in body and (b, t) != ex and f.blocks[t]['t']['t'] != 'unreachable']:
            return False, 'the loop at %s can be left before the iterator is exhausted' % lp.next_call.where()
        keys_only = bool(KEYS_ONLY.search(lp.next_call.name or ''))
        chain = _iter_chain(f, lp)
        targets = set()
        n_ins = 0
        for c in f.calls:
            if c.bb not in body or c is lp.next_call:
                continue
            ki = _keyed_insert(prog, sl, f, c)
            if ki is not None:
                k_i, r_i = ki
                kv = _peel_injective(prog, sl.operand(f, c.args[k_i]))
                proj = []
                while kv[0] == 'field':
                    proj.append(kv[2])
                    kv = strip(kv[1])
                if not (kv[0] == 'call' and kv[1] == IT + 'next' and len(kv) == 4 and kv[3] == (f.path, lp.next_call.bb)
                        and tuple(proj) == (() if keys_only else ('0',))):
                    return False, 'an insert at %s is not under the key of the element being handled' % c.where()
                rp = op_place(c.args[r_i])
                if not rp or len(rp) != 1:
                    return False, 'the insert target at %s is not a plain borrow' % c.where()
                rd = defs.get(rp[0], [])
                if len(rd) != 1 or rd[0][0] != 'stmt' or rd[0][1] not in body or rd[0][3]['r'] != 'ref' or not rd[0][3].get('mut'):
                    return False, 'the insert target at %s is not a plain borrow' % c.where()
                tgt = tuple(rd[0][3]['p'])
                if tgt[0] in chain:
                    return False, 'the insert at %s goes into the iterated container' % c.where()
                targets.add((tgt, rp[0]))
                for i, a in enumerate(c.args):
                    loc = _arg_local(f, a)
                    if i != r_i and loc is not None and (loc.get('ty') or '').startswith('&mut'):
                        return False, 'the insert at %s takes a further `&mut` argument' % c.where()
                n_ins += 1
                continue
            if c.indirect:
                return False, 'an indirect call in the loop body (%s)' % c.where()
            from .lib.effects import vocab_lookup
            if vocab_lookup(c) is not None:
                return False, 'the loop body has an effect (%s at %s)' % (c.name, c.where())
            for a in c.args:
                loc = _arg_local(f, a) if op_place(a) else None
                if op_place(a) and (loc is None or (loc.get('ty') or '').startswith(('&mut', '*mut'))):
                    # a `&mut` argument is harmless when what it borrows lives in the body (a value built up per element)
                    rd = defs.get(op_place(a)[0], []) if len(op_place(a)) == 1 else []
                    if not (loc is not None and len(rd) == 1 and rd[0][0] == 'stmt' and rd[0][1] in body and rd[0][3]['r'] == 'ref'
                            and '*' not in rd[0][3]['p'][1:] and lives_in(rd[0][3]['p'][0], body)):
                        return False, 'a call in the loop body can change state outside it (%s at %s)' % (c.name, c.where())
            for g in prog.callee_fns(c):
                if g.crate in CRATES and E.expand(g, 'may'):
                    return False, 'the loop body has effects (%s at %s)' % (c.name, c.where())
        if not n_ins:
            return False, 'the loop at %s does not insert into a keyed container' % lp.next_call.where()
        tgt_locals = {t[0][0] for t in targets}
        tgt_refs = {t[1] for t in targets}
        for b in body:
            blk = f.blocks[b]
            for st in blk['s']:
                if st[0] == 'setdiscr':
                    return False, 'the loop body writes a discriminant in place'
                if st[0] != '=':
                    continue
                pl, rv = st[1], st[2]
                if '*' in pl[1:] or not (lives_in(pl[0], body) or const_only(pl[0])):
                    return False, 'the loop body writes %s, which lives outside the loop: state is carried between iterations' % (f.local_name(pl[0]) or '_%d' % pl[0])
                for p, how in _rvalue_places(rv):
                    outside = not lives_in(p[0], body)
                    if how in ('refmut', 'rawptr') and outside and not (b == lp.header and p[0] in chain) \
                            and not (len(pl) == 1 and pl[0] in tgt_refs and (tuple(p), pl[0]) in targets):
                        return False, 'the loop body borrows %s mutably' % (f.local_name(p[0]) or '_%d' % p[0])
                    if p[0] in tgt_locals and not (how == 'refmut' and len(pl) == 1 and pl[0] in tgt_refs):
                        return False, 'the loop body reads the container it inserts into'
            t = blk['t']
            if t['t'] == 'call':
                d = t['dest']
                if '*' in d[1:] or not (lives_in(d[0], body) or const_only(d[0])):
                    return False, 'the loop body stores a call result outside the loop'
                for a in t.get('args', []):
                    p = op_place(a)
                    if p and p[0] in tgt_locals:
                        return False, 'the loop body reads the container it inserts into'
            elif t['t'] not in ('goto', 'switch', 'drop', 'unreachable', 'assert'):
                return False, 'the loop body ends a block with %s' % t['t']
    return True, ''
