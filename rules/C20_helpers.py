"""Helpers of C20: obligations of the triage basis restated on values / effects instead of one spelling.

VecSlicer   a Slicer that also knows what a `Vec` *holds* after it was grown in place: `v.extend(it)`,
            `v.push(x)`, `v.extend_from_slice(s)`, `v.append(&mut w)` through `&mut v` make the value of v
            `chain(v0, it)` / `chain(v0, once(x))` — the iterator algebra (lib/iters.py) and the effect expansion
            (loops over decomposable collections are unrolled) then see through an intermediate table such as
                let mut dirs = vec![(a, &self.all), ..]; dirs.extend(self.process.iter().map(..)); for (d, x) in dirs {..}
            exactly as through the four separate calls / the loop over `&self.process` it replaces.
            Only growth that *certainly happened before every other use* of the vector is modelled (the growing call is
            outside any loop and dominates every other read of the local, so the flow-insensitive value is exact); any
            other growth pattern leaves the value as lib/value.py gives it.
exec_d_rows the file WRITE effects of the exec.d writer, each classified as <root>/../exec.d/<key of an element of
            the triaged container> or not — independent of where the `fs::copy` call lives (inline, closure handed
            to a combinator, private helper).
"""
from .lib.value import Slicer, walk, vstr
from .lib.mir import op_place
from .lib import iters
from .lib.paths import strip

IT = iters.IT
# name suffix -> how the second argument contributes elements
GROW_ONE = ('std::vec::Vec::<T, A>::push', 'std::vec::Vec::<T>::push')
GROW_MANY = ('std::vec::Vec::<T, A>::extend_from_slice', 'std::vec::Vec::<T>::extend_from_slice',
             'std::vec::Vec::<T, A>::append', 'std::vec::Vec::<T>::append')


def _grow_kind(c):
    if c.indirect or len(c.args) != 2:
        return None
    if c.decl == 'std::iter::Extend::extend' and (c.name or '').startswith('<std::vec::Vec<'):
        return 'many'
    if c.is_(*GROW_ONE):
        return 'one'
    if c.is_(*GROW_MANY):
        return 'many'
    return None


class VecSlicer(Slicer):
    def apply_closure(self, clv, args):
        if self._sym is None:
            self._sym = VecSlicer(self.prog, self.max_depth)
            self._sym.symbolic_upvars = True
        return Slicer.apply_closure(self, clv, args)

    def _growers(self, fn, local):
        """[(Call, 'one'|'many')] in program order: in-place growth of Vec `local` that precedes every other use"""
        key = ('vecgrow', fn.path)
        idx = self._cache.get(key)
        if idx is None:
            idx = {}
            refs = {}     # temp holding `&mut local` -> (local, bb, stmt index)
            for bi, b in enumerate(fn.blocks):
                for si, st in enumerate(b['s']):
                    if st[0] == '=' and len(st[1]) == 1 and st[2]['r'] == 'ref' and st[2].get('mut') and len(st[2]['p']) == 1:
                        refs[st[1][0]] = (st[2]['p'][0], bi, si)
            for c in fn.calls:
                k = _grow_kind(c)
                if k is None:
                    continue
                pl = op_place(c.args[0])
                if pl and len(pl) == 1 and pl[0] in refs and len(fn.whole_defs(pl[0])) == 1:
                    tgt, rb, rs = refs[pl[0]]
                    idx.setdefault(tgt, []).append((c, k, (rb, rs)))
            self._cache[key] = idx
        cand = idx.get(local)
        if not cand:
            return []
        if not (fn.locals[local].get('ty') or '').startswith('std::vec::Vec<'):
            return []
        if len(fn.whole_defs(local)) != 1:
            return []
        own = {rs for _, _, rs in cand}
        reads = [u for u in fn.uses_of(local) if u[1] != 'drop' and not (u[1] == 'stmt' and (u[0], u[2]) in own)]
        dom = fn.dominators()
        for c, k, _ in cand:
            if fn.in_loop(c.bb):
                return []
            # every other read of the vector comes after the growth (a read in the growing block itself would be the
            # `&mut` borrow, which is excluded, or precede the terminator: not exact -> give up)
            if any(u[0] == c.bb or not fn.dominates(c.bb, u[0]) for u in reads):
                return []
        cand = sorted(cand, key=lambda x: len(dom.get(x[0].bb, ())))
        for a, b in zip(cand, cand[1:]):
            if not fn.dominates(a[0].bb, b[0].bb):
                return []
        return [(c, k) for c, k, _ in cand]

    def _with_updates(self, fn, local, v, seen, d):
        v = Slicer._with_updates(self, fn, local, v, seen, d)
        for c, k in self._growers(fn, local):
            x = self.operand(fn, c.args[1], seen, d)
            if k == 'one':
                x = ('call', 'std::iter::once', (x,), None)
            v = ('call', IT + 'chain', (v, x), (fn.path, c.bb))
        return v


_slicers = {}


def vec_slicer(prog):
    s = _slicers.get(id(prog))
    if s is None or s.prog is not prog:
        s = _slicers[id(prog)] = VecSlicer(prog)
    return s


def element_key(v, is_container):
    """is v the key (`.0`) of an element of an iteration over the container (or the element of its `keys()`)"""
    from . import layer_env_common as L
    coll, proj = L.loop_element(v)
    if coll is None:
        return False
    keys_only = False
    for _ in range(8):
        coll = strip(coll)
        if is_container(coll):
            return proj == (() if keys_only else ('0',))
        if coll[0] == 'call' and coll[2] and len(coll[2]) == 1:
            if coll[1].endswith(('::keys', '::into_keys')):
                keys_only = True
            elif not (iters._is_source(coll[1]) and coll[1].endswith(iters.SAME_ELEMS)) and coll[1] not in iters.SAME:
                return False
            coll = coll[2][0]
            continue
        return False
    return False


def exec_d_rows(prog, E, rx, is_container):
    """[(effect, ok, why)] for every file WRITE effect of the exec.d writer rx: ok iff it goes to
    <first parameter>/../exec.d/<key of an element of the container>"""
    from . import layer_env_common as L
    root = lambda v: v[0] == 'param' and v[1] == rx.path and v[2] == 0
    rows = []
    for e in E.expand(rx, 'may'):
        if e.kind != 'WRITE':
            continue
        if e.path is None:
            rows.append((e, False, 'no destination path'))
            continue
        pv = E.slicer.inline_deep(e.path)
        cs = L.comps(pv, root)
        if cs is None:
            rows.append((e, False, 'destination is not below the layers directory: ' + vstr(pv)[:80]))
        elif len(cs) < 2 or cs[-2] != 'exec.d':
            rows.append((e, False, 'destination is not directly inside exec.d: ' + vstr(pv)[:80]))
        elif isinstance(cs[-1], str) or not element_key(cs[-1], is_container):
            rows.append((e, False, 'file name is not the key of the element being handled: ' + vstr(pv)[:80]))
        else:
            rows.append((e, True, ''))
    return rows


def _element_of(v, is_container):
    """(collection value, projection) if v is (a projection of) the element of an iteration over the container — through
    borrows, `.iter()`-like sources, order/element preserving adapters and an intermediate collected (sorted) Vec"""
    from . import layer_env_common as L
    coll, proj = L.loop_element(v)
    if coll is None:
        return None, None
    c = coll
    for _ in range(10):
        c = strip(c)
        if is_container(c):
            return coll, proj
        if c[0] == 'call' and c[2] and (iters._is_source(c[1]) or c[1] in iters.SAME or c[1] in iters.COLLECTING
                                        or c[1].endswith('IntoIterator::into_iter')):
            c = c[2][0]
            continue
        break
    return None, None


def process_scope_rows(prog, E, f, is_container, root):
    """The triage basis of the process scopes, stated on the *effects* of write_to_layer_dir and on which data an
    effect ranges over — not on where the `entries` map of a delta is read:
    a file WRITE "belongs to a process scope" iff its path or its data is computed from the *value* (`.1`) of an element
    of an iteration over the container (the per-process delta: directly, through `.entries`, or handed to a private
    helper that plans the files of a delta — `planned_env_files(delta)`);
    it is fine iff its directory is <root>/<literal components>/<key (`.0`) of the same element>.
    -> [(effect, dirs | None, why)]: dirs = literal components + ('<key>',)"""
    from . import layer_env_common as L
    rows = []
    for e in E.expand(f, 'may'):
        if e.kind != 'WRITE':
            continue
        colls = []
        for v in ((e.path,) if e.path is not None else ()) + tuple(e.args or ()):
            for x in walk(v):
                if x[0] != 'field':
                    continue
                coll, proj = _element_of(x, is_container)
                if coll is not None and proj[:1] == ('1',) and coll not in colls:
                    colls.append(coll)
        if not colls:
            continue
        if e.path is None:
            rows.append((e, None, 'no destination path'))
            continue
        if len(colls) > 1:
            rows.append((e, None, 'data of two different iterations over the container in one file'))
            continue
        cs = L.comps(e.path, root)
        if cs is None:
            cs = L.comps(E.slicer.inline_deep(e.path), root)
        if cs is None or len(cs) < 2:
            rows.append((e, None, 'destination is not a file in a directory below the layer directory: ' + vstr(e.path)[:100]))
            continue
        dirs = cs[:-1]
        last = dirs[-1]
        kc, kp = (None, None) if isinstance(last, str) else _element_of(last, is_container)
        if kc is None or kc != colls[0] or kp != ('0',):
            rows.append((e, None, 'directory is not named by the key of the element whose delta is written: ' + vstr(e.path)[:100]))
            continue
        if not all(isinstance(d, str) for d in dirs[:-1]):
            rows.append((e, None, 'directory above the key is not literal: ' + vstr(e.path)[:100]))
            continue
        rows.append((e, dirs[:-1] + ('<key>',), ''))
    return rows


def created_file_data(prog, E, e):
    """What is written into the file created by effect e (`File::create(p)`), when lib/effects.py could not attach it
    as one value: every value handed to a call together with the handle — `write_all(handle, data)` in the creating
    function, in a closure a combinator runs on the creation result (`File::create(p).and_then(|mut f| f.write_all(data))`,
    the closure applied to the result), `write!(handle, ..)`, `to_writer(handle, value)` — in the terms of the entry
    function of the expansion.  -> (values, reason it is not decided | None): not decided when the handle leaves the
    function that creates it (returned, or handed to a workspace function: its writes are not followed); no values =
    the file is created empty"""
    sl = E.slicer
    g = e.call.fn
    site = (g.path, e.call.bb)

    def derives(v):
        return isinstance(v, tuple) and any(x[0] == 'call' and len(x) == 4 and x[3] == site for x in walk(v))

    data = []
    for c in g.calls:
        if c is e.call or not c.args:
            continue
        vals = [sl.operand(g, a) for a in c.args]
        idx = [i for i, v in enumerate(vals) if derives(v)]
        if not idx:
            continue
        if not c.indirect and any(h.crate in CRATES and h.kind != 'Closure' for h in prog.callee_fns(c)):
            return [], 'the file handle is handed to %s' % (c.name or '?')
        for i, v in enumerate(vals):
            if i in idx:
                continue
            if isinstance(v, tuple) and v and v[0] == 'closure':
                # a combinator running the closure on the (success payload of the) creation result
                av = sl.apply_closure(v, (vals[idx[0]],))
                for x in walk(av) if isinstance(av, tuple) else ():
                    if x[0] == 'call' and x[2] and derives(x[2][0]):
                        data.extend(a for a in x[2][1:] if isinstance(a, tuple))
                # what the closure captured is part of what it can write
                data.append(v)
            elif isinstance(v, tuple):
                data.append(v)
    if 'fs::File' in (g.ret or ''):
        return [], 'the file handle is returned by %s' % g.path.split('::')[-1]
    m = getattr(e, 'mapping', None)
    if m:
        data = [E.subst(v, m) for v in data]
    return data, None


# ======================================================================================================================
# deepening round: obligations that do not depend on how a hash container is consumed / which clock is read
# ======================================================================================================================
import re

CRATES = ('libcnb', 'libcnb_data', 'libcnb_common')
HASH_HEAD = re.compile(r'(^|::)(HashMap|HashSet|IndexMap|IndexSet|FxHashMap|FxHashSet|AHashMap|AHashSet)$')
HASH_ITER_TY = re.compile(r'\b(hash_map|hash_set)::(Iter|IterMut|IntoIter|Keys|Values|ValuesMut|IntoKeys|IntoValues|Drain|'
                          r'Union|Intersection|Difference|SymmetricDifference|ExtractIf)\b')
BTREE_HEAD = re.compile(r'(^|::)(BTreeMap|BTreeSet)$')

# --- R3: sources of values that differ between two processes running on identical inputs -----------------------------
# by what they read, not by one spelling: the wall/monotonic clock (also through `elapsed`), time stamps and inode
# identity of files, process / thread identity, the per-process hash seed, PRNGs and random names, addresses
NONDET_FAMILIES = (
    ('clock', re.compile(r'^std::time::(SystemTime|Instant)::(now|elapsed)$|^(chrono|time|jiff|humantime)::|^std::time::Instant::')),
    ('file time stamp / inode', re.compile(r'^std::fs::Metadata::(modified|accessed|created)$|'
                                           r'^std::os::(unix|linux)::fs::MetadataExt::(st_)?(mtime|atime|ctime|ino|dev|rdev)(_nsec)?$|'
                                           r'^std::fs::FileTimes|^filetime::')),
    ('process / thread identity', re.compile(r'^std::process::id$|^std::os::unix::process::parent_id$|^std::thread::current$|'
                                             r'^std::thread::Thread::id$|^libc::get(pid|ppid|tid)$|^std::process::Child::id$')),
    ('per-process hash seed', re.compile(r'\bRandomState\b')),
    ('randomness', re.compile(r'^(fastrand|rand|rand_core|uuid|getrandom|nanoid|ulid|tempfile)::|^std::env::temp_dir$')),
    ('address', re.compile(r'std::fmt::Pointer\b')),
)
SCHEDULE_RX = re.compile(r'^std::thread::(spawn|scope|Builder::spawn|Builder::spawn_scoped|Scope::spawn)\b|^(rayon|crossbeam|tokio)::|'
                         r'^std::sync::mpsc::')


def nondet_family(name):
    for fam, rx in NONDET_FAMILIES:
        if rx.search(name or ''):
            return fam
    return None


def nondet_calls(f):
    """[(family, Call)] of calls in f that read something that differs between two processes"""
    out = []
    for c in f.calls:
        for n in sorted(c.names()):
            fam = nondet_family(n)
            if fam:
                out.append((fam, c))
                break
    return out


def library_fns(prog, out_of_subject):
    """every function of the library crates whose code runs between the buildpack author's logic and the bytes of an
    output (builders, conversions, trait impls, layer API, runtime), i.e. everything but derived code and the
    telemetry exporter"""
    return {p: f for p, f in prog.fns.items() if f.crate in CRATES and not f.derived and not out_of_subject.match(p)}


# --- R2: order-observing uses of a hash container that are not spelled as an iteration -------------------------------
ORDER_FREE_METHOD = re.compile(r'^std::collections::(hash_map::|hash_set::)?(HashMap|HashSet)::<.*>::(new|with_capacity|with_hasher|'
                               r'with_capacity_and_hasher|insert|get|get_mut|get_key_value|get_many_mut|contains_key|contains|remove|'
                               r'remove_entry|take|replace|entry|len|is_empty|clear|reserve|try_reserve|shrink_to_fit|shrink_to|capacity|'
                               r'hasher|get_or_insert_with|is_subset|is_superset|is_disjoint|try_insert)$')
ORDER_FREE_DECL = {'std::clone::Clone::clone', 'std::clone::Clone::clone_from', 'std::default::Default::default',
                   'std::cmp::PartialEq::eq', 'std::cmp::PartialEq::ne', 'std::ops::Index::index', 'std::mem::take',
                   'std::mem::swap', 'std::mem::replace', 'std::mem::drop', 'std::ops::Deref::deref', 'std::ops::DerefMut::deref_mut',
                   'std::borrow::Borrow::borrow', 'std::convert::AsRef::as_ref', 'std::borrow::ToOwned::to_owned'}


def _arg_local(f, op):
    pl = op_place(op)
    if not pl:
        return None
    # the type head (references peeled) of `*x` is the head of x
    return f.locals[pl[0]] if all(x == '*' for x in pl[1:]) else None


def _is_hash_container(loc):
    return bool(loc) and bool(HASH_HEAD.search(loc.get('head') or ''))


def implicit_hash_uses(prog, f, explicit):
    """[(Call, argument index)]: a hash-ordered container handed *as a whole* to code that can observe its order
    (`vec.extend(map)`, `Vec::from_iter(set)`, `iter.chain(map)`, `format!("{map:?}")`, `toml::to_string(&map)`,
    `serializer.collect_map(&map)`, a generic workspace function).  Order-free container API (lookup, insertion, size,
    clone, equality), conversions into another unordered / sorted container and workspace functions that declare the
    parameter as a hash container (their own body is analysed) are not uses.  `explicit` = calls already recognised as
    iterations."""
    out = []
    for c in f.calls:
        if c in explicit or not c.args:
            continue
        locs = [_arg_local(f, a) for a in c.args]
        idx = [i for i, l in enumerate(locs) if _is_hash_container(l)]
        if not idx:
            continue
        names = c.names()
        if any(ORDER_FREE_METHOD.match(n) for n in names) or (names & ORDER_FREE_DECL):
            continue
        decl = c.decl or c.name or ''
        if decl == 'std::iter::Extend::extend' and 0 in idx:
            # growing a hash container: the order in which elements arrive is not observable afterwards
            continue
        if decl in ('std::iter::FromIterator::from_iter', 'std::iter::Iterator::collect', 'std::convert::From::from', 'std::convert::Into::into'):
            dhead = (c.dty or '').split('<')[0]
            if HASH_HEAD.search(dhead) or BTREE_HEAD.search(dhead):
                continue
        callees = [] if c.indirect else prog.callee_fns(c)
        if callees and all(g.crate in CRATES for g in callees):
            idx = [i for i in idx if not all(i < g.argc and _is_hash_container(g.locals[i + 1]) for g in callees)]
            if not idx:
                continue
        for i in idx:
            out.append((c, i))
    return out


def workspace_hash_iterators(prog):
    """workspace functions that hand out an iterator over a hash container (`Env::iter`, `<&Env as IntoIterator>`):
    calling one of them is iterating the hash container"""
    return {p for p, f in prog.fns.items() if f.crate in CRATES and not f.derived and HASH_ITER_TY.search(f.ret or '')}


# --- R2: how an iteration over a triaged container is consumed --------------------------------------------------------
ELEMENTWISE = set(iters.SAME) | {IT + 'map', IT + 'filter', IT + 'filter_map', IT + 'flat_map', IT + 'flatten', IT + 'inspect',
                                 IT + 'chain', 'std::iter::IntoIterator::into_iter', IT + 'by_ref', IT + 'size_hint',
                                 'std::iter::ExactSizeIterator::len'}
COMPLETE = {IT + 'for_each', IT + 'try_for_each', IT + 'collect', IT + 'count', IT + 'sum', IT + 'product', IT + 'unzip',
            IT + 'partition', IT + 'min', IT + 'max', 'std::iter::Extend::extend', 'std::iter::FromIterator::from_iter'}
SHORT_CIRCUIT = {IT + 'try_for_each'}
ORDER_KEEPING_SLICE = re.compile(r'^std::slice::<impl \[T\]>::(sort\w*|iter|iter_mut|len|is_empty)$')
POSITIONAL = set(iters.TRUNCATING) | {IT + 'nth', IT + 'last', IT + 'zip', IT + 'nth_back', IT + 'next_back', IT + 'next_chunk',
                                      IT + 'array_chunks', IT + 'advance_by'}


ITER_VALUED = set(iters.SAME) | set(iters.FEWER) | set(iters.LAZY_WITH_CLOSURE) | {
    IT + 'enumerate', IT + 'zip', IT + 'chain', IT + 'flatten', IT + 'flat_map', IT + 'cycle', IT + 'map_while', IT + 'scan',
    IT + 'intersperse', IT + 'array_chunks', 'std::iter::DoubleEndedIterator::rev', 'std::iter::Extend::extend'}


def _iterates(v, is_cont, depth=0):
    """is v an iterator (or collected sequence) over the container"""
    v = strip(v)
    if is_cont(v):
        return True
    if depth > 14 or not isinstance(v, tuple) or not v:
        return False
    if v[0] == 'phi':
        return any(_iterates(x, is_cont, depth + 1) for x in v[1])
    if v[0] != 'call' or not v[2]:
        return False
    name, args = v[1], v[2]
    # only calls whose result is again the sequence (adapters, sources, collections of it): `next`, `count`, `try_for_each`,
    # `find` .. give an element / a number / a verdict
    if name in ITER_VALUED or iters._is_source(name) or name in iters.COLLECTING or name.endswith('IntoIterator::into_iter'):
        return any(_iterates(a, is_cont, depth + 1) for a in args[:2] if isinstance(a, tuple) and a and a[0] != 'closure')
    return False


def hash_iteration_shape(prog, sl, E, top, is_cont):
    """(positional, undecided): calls in `top` and its closures that consume an iterator over the triaged container by
    *position* (a prefix / suffix / every n-th / the first element: which elements those are depends on the hash
    order), and calls whose way of consuming it is not known to visit every element independently of the order"""
    positional, undecided = [], []
    for g in [top] + prog.closures_of(top):
        loop_next = {(lp.next_call.bb) for lp in E.loops(g) if lp.next_call is not None}
        for c in g.calls:
            if c.indirect or not c.args:
                continue
            hit = None
            for i, a in enumerate(c.args[:2]):
                v = sl.operand(g, a)
                if isinstance(v, tuple) and v and not is_cont(strip(v)) and _iterates(v, is_cont):
                    hit = i
                    break
            if hit is None:
                continue
            decl = c.decl or c.name or ''
            short = decl.split('::')[-1]
            if decl == IT + 'next':
                if c.bb not in loop_next:
                    positional.append('%s takes a single element (%s)' % (short, c.where()))
                continue
            if decl in POSITIONAL:
                positional.append('%s (%s)' % (short, c.where()))
            elif decl in SHORT_CIRCUIT or (decl in COMPLETE and (c.dty or '').startswith(('std::result::Result<', 'std::option::Option<'))):
                # stops at the first failing element: complete only if that failure cannot end in success
                from .lib.discard import ok_on_success
                if not ok_on_success(prog, g, c):
                    positional.append('%s stops at the first failing element and its failure can end in success (%s)' % (short, c.where()))
            elif decl in ELEMENTWISE or decl in COMPLETE or decl in iters.COLLECTING or decl in ('std::vec::Vec::<T, A>::extend_from_slice',):
                continue
            elif decl.startswith(('std::ops::Try::', 'std::ops::FromResidual::', 'std::ops::Deref::', 'std::ops::DerefMut::',
                                  'std::convert::AsRef::', 'std::borrow::Borrow::', 'std::mem::drop', 'std::clone::Clone::clone',
                                  'std::vec::Vec::<T, A>::as_slice', 'std::vec::Vec::<T, A>::len', 'std::vec::Vec::<T, A>::is_empty')) \
                    or ORDER_KEEPING_SLICE.match(decl):
                continue
            else:
                undecided.append('%s (%s)' % (decl, c.where()))
    return positional, undecided


# --- R1: what is actually serialised -----------------------------------------------------------------------------------
SINK_RX = re.compile(r'^(toml::(ser::)?to_(string|string_pretty|vec|writer)|toml::(value::)?(Value|Table)::try_from|'
                     r'toml::map::Map::<.*>::try_from|serde_json::(ser::|value::)?to_\w+|serde_yaml::\w*::?to_\w+|'
                     r'libcnb_common::toml_file::write_toml_file)$')
ADT_PATH = re.compile(r'[A-Za-z_][A-Za-z0-9_]*(?:::[A-Za-z_][A-Za-z0-9_]*)+')


GENERIC_TOKEN = re.compile(r"(?<![\w:'])([A-Z][A-Za-z0-9_]*)(?![\w]|::)")


def generic_tokens(ty):
    """names of generic parameters in a MIR type string: every ADT is printed with its full path, so a bare
    capitalised identifier (`M`, `T`, the `Serialize` of `impl Serialize`) is a type parameter"""
    return set(GENERIC_TOKEN.findall(ty or '')) - {'Self'}


PROJECTION = re.compile(r'<[^<>]* as [^<>]*>::\w+')
IMPL_TY = re.compile(r'impl [A-Za-z_][\w:]*(<[^<>]*>)?( \+ [A-Za-z_][\w:]*)*')


def _norm_ty(t):
    t = re.sub(r"'\w+ ?", '', t or '')
    return t.replace('&mut ', '&')


def unify(pattern, actual, toks):
    """bindings of the type parameters `toks` when the declared parameter type `pattern` is instantiated with the
    argument type `actual` (`Option<&T>` vs `Option<&launch::Launch>` -> {T: launch::Launch}); None if the shapes differ"""
    pat = IMPL_TY.sub(lambda m: 'I' + m.group(0).split(' ')[1].split('::')[-1].split('<')[0], pattern or '')
    p, a = _norm_ty(pat).lstrip('&'), _norm_ty(actual).lstrip('&')
    rx = re.escape(p)
    names = {}
    for k, tok in enumerate(sorted(generic_tokens(pat), key=len, reverse=True)):
        one = r'(?<![\w:])' + re.escape(tok) + r'(?![\w])'
        rx, n = re.subn(one, '(?P<g%d>.+)' % k, rx, count=1)
        if n:
            names['g%d' % k] = tok
            rx = re.sub(one, '.+', rx)
    m = re.match('^' + rx + '$', a)
    if not m:
        return None
    out = {}
    for g, tok in names.items():
        tok = tok[1:] if tok.startswith('I') and tok[1:] in toks else tok
        out[tok] = m.group(g)
    return out


def serialised_types(prog, sl, walker=walk):
    """[(sink Call, Fn in which this part of the serialised type is written down | None for a part chosen by the
    caller of a public generic function / an associated type of a user trait, type string)] for every call of a
    serialiser in the library crates.  Generic parts of the type (`&impl Serialize`, `Option<&T>`,
    `LayerContentMetadata<M>`) are followed to the workspace call sites of the enclosing function: through the
    parameters the serialised value is computed from (`walker` decides what counts as computed by the library), taking
    what the caller's argument type puts in the place of the type parameter"""
    callers = prog.callers()
    rows = []
    seen = set()

    def go(f, ty, val, sink, depth):
        if (id(sink), f.path, ty) in seen:
            return
        seen.add((id(sink), f.path, ty))
        rows.append((sink, f, ty))
        toks = generic_tokens(PROJECTION.sub('', ty))
        if generic_tokens(ty) - toks:
            rows.append((sink, None, ty))       # `<L as Layer>::Metadata`: chosen by the user's trait implementation
        if not toks:
            return
        from_params = {x[2] + 1 for x in walker(val) if x[0] == 'param' and x[1] == f.path and isinstance(x[2], int)}
        idx = [i for i in range(1, f.argc + 1) if i in from_params and generic_tokens(f.locals[i].get('ty')) & toks]
        css = [cs for cs in callers.get(f.path, []) if not cs.indirect and cs.fn.path != f.path and cs.fn.crate in CRATES
               and not cs.fn.derived and f.path in cs.names()]
        n = 0
        if idx and css and depth < 5:
            for cs in css:
                for i in idx:
                    l2 = _arg_local(cs.fn, cs.args[i - 1]) if i - 1 < len(cs.args) else None
                    if l2 is None:
                        continue
                    n += 1
                    b = unify(f.locals[i].get('ty'), l2['ty'], toks)
                    v2 = sl.operand(cs.fn, cs.args[i - 1])
                    if b is None:
                        go(cs.fn, l2['ty'], v2, sink, depth + 1)    # shapes differ: the whole argument type (over-approximation)
                    else:
                        for tok, bound in sorted(b.items()):
                            if tok in toks:
                                go(cs.fn, bound, v2, sink, depth + 1)
        if not n:
            rows.append((sink, None, ty))

    for f in prog.fns.values():
        if f.crate not in CRATES or f.derived:
            continue
        for c in f.calls:
            if c.indirect or not c.args or not any(SINK_RX.match(n) for n in c.names()):
                continue
            loc = _arg_local(f, c.args[0])
            if loc is None:
                rows.append((c, None, '?'))
                continue
            go(f, loc['ty'], sl.operand(f, c.args[0]), c, 0)
    return rows


# --- R1: which function a serialiser call belongs to ------------------------------------------------------------------
def sink_owner(prog, f, owners, _seen=None):
    """the function of `owners` that f's code belongs to: f itself, the function a closure is written in, or — for a
    private (not `pub`, not a trait implementation) workspace function — the single member of `owners` that every one
    of its uses (direct calls and references to it as a function item, followed through further private functions)
    ends in.  A triage stated for a public function ("what this serialiser produces goes to fd 3") covers the phases
    it was split into as long as nobody else can reach them; None as soon as one use is outside (or there is none)"""
    _seen = _seen if _seen is not None else set()
    if f.path in owners:
        return f.path
    if f.path in _seen:
        return None
    _seen = _seen | {f.path}
    if f.kind == 'Closure':
        p = prog.fns.get(f.parent)
        return sink_owner(prog, p, owners, _seen) if p is not None else None
    if f.kind not in ('Fn', 'AssocFn') or f.vis in ('pub', 'n/a') or f.impl_trait or f.crate not in CRATES or f.derived:
        return None
    found = set()
    n = 0
    for cs in prog.callers().get(f.path, []):
        if cs.fn.path == f.path:
            continue
        n += 1
        found.add(sink_owner(prog, cs.fn, owners, _seen))
    if n and len(found) == 1 and None not in found:
        return next(iter(found))
    return None
