"""Helpers of C20: obligations of the triage basis restated on values / effects instead of one spelling.

VecSlicer   a Slicer that also knows what a `Vec` *holds* after it was grown in place: `v.extend(it)`,
            `v.push(x)`, `v.extend_from_slice(s)`, `v.append(&mut w)` through `&mut v` make the value of v
            `chain(v0, it)` / `chain(v0, once(x))` — the iterator algebra (lib/iters.py) and the effect expansion
            (loops over decomposable collections are unrolled) then see through an intermediate table such as
                let mut dirs = vec![(a, &self.all), ..]; dirs.extend(self.process.iter().map(..)); for (d, x) in dirs {..}
            exactly as through the four separate calls / the loop over `&self.process` it replaces.
            Only growth that *certainly happened before every other use* of the vector is modelled (the growing call is
            outside any loop and dominates every other read of the local, so the flow-insensitive value is exact); any
            other growth pattern leaves the value as lib/value.py gives it.
exec_d_rows the file WRITE effects of the exec.d writer, each classified as <root>/../exec.d/<key of an element of
            the triaged container> or not — independent of where the `fs::copy` call lives (inline, closure handed
            to a combinator, private helper).
"""
from .lib.value import Slicer, walk, vstr
from .lib.mir import op_place
from .lib import iters
from .lib.paths import strip

IT = iters.IT
# name suffix -> how the second argument contributes elements
GROW_ONE = ('std::vec::Vec::<T, A>::push', 'std::vec::Vec::<T>::push')
GROW_MANY = ('std::vec::Vec::<T, A>::extend_from_slice', 'std::vec::Vec::<T>::extend_from_slice',
             'std::vec::Vec::<T, A>::append', 'std::vec::Vec::<T>::append')


def _grow_kind(c):
    if c.indirect or len(c.args) != 2:
        return None
    if c.decl == 'std::iter::Extend::extend' and (c.name or '').startswith('<std::vec::Vec<'):
        return 'many'
    if c.is_(*GROW_ONE):
        return 'one'
    if c.is_(*GROW_MANY):
        return 'many'
    return None


class VecSlicer(Slicer):
    def apply_closure(self, clv, args):
        if self._sym is None:
            self._sym = VecSlicer(self.prog, self.max_depth)
            self._sym.symbolic_upvars = True
        return Slicer.apply_closure(self, clv, args)

    def _growers(self, fn, local):
        """[(Call, 'one'|'many')] in program order: in-place growth of Vec `local` that precedes every other use"""
        key = ('vecgrow', fn.path)
        idx = self._cache.get(key)
        if idx is None:
            idx = {}
            refs = {}     # temp holding `&mut local` -> (local, bb, stmt index)
            for bi, b in enumerate(fn.blocks):
                for si, st in enumerate(b['s']):
                    if st[0] == '=' and len(st[1]) == 1 and st[2]['r'] == 'ref' and st[2].get('mut') and len(st[2]['p']) == 1:
                        refs[st[1][0]] = (st[2]['p'][0], bi, si)
            for c in fn.calls:
                k = _grow_kind(c)
                if k is None:
                    continue
                pl = op_place(c.args[0])
                if pl and len(pl) == 1 and pl[0] in refs and len(fn.whole_defs(pl[0])) == 1:
                    tgt, rb, rs = refs[pl[0]]
                    idx.setdefault(tgt, []).append((c, k, (rb, rs)))
            self._cache[key] = idx
        cand = idx.get(local)
        if not cand:
            return []
        if not (fn.locals[local].get('ty') or '').startswith('std::vec::Vec<'):
            return []
        if len(fn.whole_defs(local)) != 1:
            return []
        own = {rs for _, _, rs in cand}
        reads = [u for u in fn.uses_of(local) if u[1] != 'drop' and not (u[1] == 'stmt' and (u[0], u[2]) in own)]
        dom = fn.dominators()
        for c, k, _ in cand:
            if fn.in_loop(c.bb):
                return []
            # every other read of the vector comes after the growth (a read in the growing block itself would be the
            # `&mut` borrow, which is excluded, or precede the terminator: not exact -> give up)
            if any(u[0] == c.bb or not fn.dominates(c.bb, u[0]) for u in reads):
                return []
        cand = sorted(cand, key=lambda x: len(dom.get(x[0].bb, ())))
        for a, b in zip(cand, cand[1:]):
            if not fn.dominates(a[0].bb, b[0].bb):
                return []
        return [(c, k) for c, k, _ in cand]

    def _with_updates(self, fn, local, v, seen, d):
        v = Slicer._with_updates(self, fn, local, v, seen, d)
        for c, k in self._growers(fn, local):
            x = self.operand(fn, c.args[1], seen, d)
            if k == 'one':
                x = ('call', 'std::iter::once', (x,), None)
            v = ('call', IT + 'chain', (v, x), (fn.path, c.bb))
        return v


_slicers = {}


def vec_slicer(prog):
    s = _slicers.get(id(prog))
    if s is None or s.prog is not prog:
        s = _slicers[id(prog)] = VecSlicer(prog)
    return s


def element_key(v, is_container):
    """is v the key (`.0`) of an element of an iteration over the container (or the element of its `keys()`)"""
    from . import layer_env_common as L
    coll, proj = L.loop_element(v)
    if coll is None:
        return False
    keys_only = False
    for _ in range(8):
        coll = strip(coll)
        if is_container(coll):
            return proj == (() if keys_only else ('0',))
        if coll[0] == 'call' and coll[2] and len(coll[2]) == 1:
            if coll[1].endswith(('::keys', '::into_keys')):
                keys_only = True
            elif not (iters._is_source(coll[1]) and coll[1].endswith(iters.SAME_ELEMS)) and coll[1] not in iters.SAME:
                return False
            coll = coll[2][0]
            continue
        return False
    return False


def exec_d_rows(prog, E, rx, is_container):
    """[(effect, ok, why)] for every file WRITE effect of the exec.d writer rx: ok iff it goes to
    <first parameter>/../exec.d/<key of an element of the container>"""
    from . import layer_env_common as L
    root = lambda v: v[0] == 'param' and v[1] == rx.path and v[2] == 0
    rows = []
    for e in E.expand(rx, 'may'):
        if e.kind != 'WRITE':
            continue
        if e.path is None:
            rows.append((e, False, 'no destination path'))
            continue
        pv = E.slicer.inline_deep(e.path)
        cs = L.comps(pv, root)
        if cs is None:
            rows.append((e, False, 'destination is not below the layers directory: ' + vstr(pv)[:80]))
        elif len(cs) < 2 or cs[-2] != 'exec.d':
            rows.append((e, False, 'destination is not directly inside exec.d: ' + vstr(pv)[:80]))
        elif isinstance(cs[-1], str) or not element_key(cs[-1], is_container):
            rows.append((e, False, 'file name is not the key of the element being handled: ' + vstr(pv)[:80]))
        else:
            rows.append((e, True, ''))
    return rows
