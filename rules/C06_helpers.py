"""Helpers of C06: values and guards of an effect's arguments, independent of how the code is split into private helpers,
closures handed to iterator adapters and Option/Result combinators.

  norm(sl, v)            bottom-up re-normalisation of a substituted value (mk_unwrap on every `unwrap`, field / variant
                         projections of exposed aggregates), so `x.and_then(|y| f(y))?` reads like `f(x?)?`
  returns(E, g, m)       the success alternatives of workspace function g under parameter bindings m:
                         [(returned value, guards)] with tail calls into other workspace functions followed
  resolve(E, v)          [(value, guards)]: v with every `payload-of(call private_helper(..))` replaced by the payload of
                         each feasible success alternative of that helper, together with the branch decisions (in the terms
                         of v) under which the helper produces that alternative
Guards have the format of effects.guards_of: (Cond, [(substituted value, outcome)..], substituted subject | None).
"""
from .lib.guards import conditions_ctx
from .lib.value import walk

LEAF = ('const', 'param', 'fnitem', 'constitem', 'unknown', 'closure_env', 'upvar')


def norm(sl, v, depth=0):
    if not isinstance(v, tuple) or not v or v[0] in LEAF or depth > 40:
        return v
    out = tuple(norm(sl, x, depth + 1) if isinstance(x, tuple) else x for x in v)
    if out[0] == 'unwrap' and len(out) == 2 and isinstance(out[1], tuple):
        r = sl.mk_unwrap(out[1], 1)
        # mk_unwrap may have applied a closure: what that exposed is normalised too
        return r if r == out or depth > 30 else norm(sl, r, depth + 8)
    if out[0] == 'field' and len(out) == 3 and isinstance(out[1], tuple):
        return sl._field(out[1], out[2])
    if out[0] == 'variant' and len(out) == 3 and isinstance(out[1], tuple):
        return sl._variant(out[1], out[2])
    return out


def subst_conds(E, cds, m):
    out = []
    for cd in cds:
        views = [(E.subst(v, m), oc) for v, oc in cd.views()] if cd.kind == 'bool' else [(E.subst(cd.value, m), cd.outcome)]
        out.append((cd, views, E.subst(cd.subject, m) if cd.subject is not None else None))
    return out


def returns(E, g, mapping=None, _stack=()):
    """[(value, guards)] for every success site of g (parameters bound by `mapping`)"""
    mapping = mapping or {}
    sl = E.slicer
    res = []
    for site in E.sites(g):
        guards = subst_conds(E, conditions_ctx(E.prog, g, site.bb, sl), mapping)
        if site.kind == 'ok':
            res.append((E.subst(sl._rvalue(g, site.stmt, set(), 0, None), mapping), guards))
        elif site.kind == 'tail':
            callees = [h for h in E.prog.callee_fns(site.call) if h.kind != 'Closure']
            if callees and len(_stack) < 6 and not any(h.path in _stack or h.path == g.path for h in callees):
                for h in callees:
                    m = E.call_mapping(g, site.call, h, mapping)
                    for v, gs in returns(E, h, m, _stack + (g.path,)):
                        res.append((v, guards + gs))
            else:
                res.append((E.subst(sl._call_value(g, site.call, set(), 0), mapping), guards))
        else:
            res.append((('tuple', ()), guards))
    return res


def _peel(sl, v, n):
    """payload after n success projections of v; None when v is literally a failure at one of them"""
    for _ in range(n):
        v = sl._ok_core(v)
        if v[0] == 'agg' and v[1] in ('std::result::Result', 'std::option::Option'):
            if v[2] in ('Err', 'None'):
                return None
            if v[2] in ('Ok', 'Some') and len(v[3]) == 1:
                v = v[3][0][1]
                continue
        v = sl.mk_unwrap(v, 1)
    return v


def _helper_payload(E, v, keep):
    """first sub-value unwrap^n(call g(..)) of v with g a workspace function (n >= 1): (subterm, n, call value)"""
    for x in walk(v):
        if x[0] != 'unwrap':
            continue
        n, y = 0, x
        while y[0] == 'unwrap':
            n, y = n + 1, E.slicer._ok_core(y[1])
        if y[0] == 'call' and y[1] in E.prog.fns and y[1] not in keep and E.prog.fns[y[1]].kind != 'Closure':
            return x, n, y
    return None


def _replace(v, old, new):
    if v == old:
        return new
    if not isinstance(v, tuple) or not v or v[0] in LEAF:
        return v
    return tuple(_replace(x, old, new) if isinstance(x, tuple) else x for x in v)


def resolve(E, v, keep=(), depth=0):
    sl = E.slicer
    v = norm(sl, v)
    hp = _helper_payload(E, v, keep) if depth < 5 else None
    if hp is None:
        return [(v, [])]
    sub, n, cv = hp
    g = E.prog.fns[cv[1]]
    m = {(g.path, i): a for i, a in enumerate(cv[2]) if i < g.argc}
    out = []
    alts = returns(E, g, m)
    for rv, guards in alts:
        pv = _peel(sl, norm(sl, rv), n)
        if pv is None:
            continue    # this alternative of the helper is a failure: it has no payload
        for v2, g2 in resolve(E, _replace(v, sub, pv), keep, depth + 1):
            out.append((v2, guards + g2))
    if not alts:
        return [(v, [])]
    return out


# ---- positions in a slice ---------------------------------------------------------------------------------------------
# `[_, a, b] = args`, `args.split_first()?.1.try_into()?` + array map, `&args[1..]`, `args.get(1)?` all denote "the element
# at position k of args": element(sl, v) brings such a value to ('index', base, '[k]') (conversions applied element-wise
# by array::map are kept around the element, so string/path conversions can be peeled by the caller as before)
_SAME_POS = ('::each_ref', '::each_mut', '::as_slice', '::as_mut_slice', '::as_ref', '::as_mut', '::deref', '::deref_mut',
             '::borrow', '::borrow_mut', '::iter', '::into_iter', '::to_vec', '::to_owned', '::clone', '::into_boxed_slice',
             '::try_into', '::try_from', '::into', '::from')
_RANGE = {'RangeFrom': 'start', 'Range': 'start', 'RangeInclusive': 'start'}


def _const_int(v):
    v = _strip(v)
    if v[0] == 'const' and isinstance(v[1], int) and not isinstance(v[1], bool):
        return v[1]
    if v[0] == 'const' and isinstance(v[1], str) and v[1].isdigit():
        return int(v[1])
    return None


def _strip(v):
    while isinstance(v, tuple) and v and v[0] in ('unwrap', 'updated') and len(v) > 1 and isinstance(v[1], tuple):
        v = v[1]
    return v


def _range_start(v):
    """start of a range value used as a slice index (`a..`, `a..b`); 0 for `..b` / `..`"""
    v = _strip(v)
    if v[0] == 'agg':
        nm = (v[1] or '').rsplit('::', 1)[-1]
        if nm in _RANGE:
            for fname, fv in v[3]:
                if fname == _RANGE[nm]:
                    return _const_int(fv)
            return None
        if nm in ('RangeTo', 'RangeToInclusive', 'RangeFull'):
            return 0
    if v[0] == 'call' and v[1].endswith('RangeInclusive::<Idx>::new') and v[2]:
        return _const_int(v[2][0])
    return None


def slice_base(sl, v, off=0, depth=0):
    """(base slice value, offset): position i of v is position i + offset of base"""
    if depth > 24:
        return v, off
    s = _strip(v)
    # the success payload of a length-checked conversion / Option adapters around it
    while s[0] == 'call' and s[2] and s[1] in ('std::result::Result::<T, E>::ok', 'std::option::Option::<T>::ok_or',
                                              'std::option::Option::<T>::ok_or_else', 'std::result::Result::<T, E>::map_err'):
        s = _strip(s[2][0])
    if s[0] == 'index' and s[2].startswith('[') and '..' in s[2]:
        a = s[2][1:-1].split('..')[0]
        if a.isdigit():
            return slice_base(sl, s[1], off + int(a), depth + 1)
        return v, off
    if s[0] == 'field' and s[2] in ('0', '1'):
        t = _strip(s[1])
        if t[0] == 'call' and t[2]:
            if t[1].endswith(('::split_first', '::split_first_mut')) and s[2] == '1':
                return slice_base(sl, t[2][0], off + 1, depth + 1)
            if t[1].endswith(('::split_last', '::split_last_mut')) and s[2] == '1':
                return slice_base(sl, t[2][0], off, depth + 1)
            if t[1].endswith(('::split_at', '::split_at_mut', '::split_at_checked', '::split_at_mut_checked')) and len(t[2]) == 2:
                k = _const_int(t[2][1])
                if s[2] == '0':
                    return slice_base(sl, t[2][0], off, depth + 1)
                if k is not None:
                    return slice_base(sl, t[2][0], off + k, depth + 1)
        return v, off
    if s[0] == 'call' and s[2]:
        nm = s[1]
        if nm.endswith(('::index', '::index_mut', '::get', '::get_mut')) and len(s[2]) == 2:
            k = _range_start(s[2][1])
            if k is not None:
                return slice_base(sl, s[2][0], off + k, depth + 1)
            return v, off
        if len(s[2]) == 1 and nm.endswith(_SAME_POS) and ('[T' in nm or 'slice' in nm or 'array' in nm or 'Vec' in nm or 'vec' in nm
                                                         or nm.startswith(('std::convert::', 'std::ops::Deref', 'std::borrow::', 'std::clone::',
                                                                           'std::iter::IntoIterator'))):
            return slice_base(sl, s[2][0], off, depth + 1)
    return v, off


def element(sl, v, depth=0):
    """normal form of "element k of a slice": ('index', base, '[k]') with base as far down as slice_base can follow;
    element-wise functions of array::map are applied to the element. Anything else is returned unchanged."""
    if depth > 12 or not isinstance(v, tuple) or not v:
        return v
    s = _strip(v)
    k = base = None
    if s[0] == 'index' and s[2].startswith('[') and '..' not in s[2] and s[2][1:-1].isdigit():
        k, base = int(s[2][1:-1]), s[1]
    elif s[0] == 'call' and s[2] and s[1].endswith(('::first', '::first_mut')) and 'slice' in s[1] and len(s[2]) == 1:
        k, base = 0, s[2][0]
    elif s[0] == 'call' and len(s[2]) == 2 and s[1].endswith(('::index', '::index_mut', '::get', '::get_mut', '::get_unchecked')) \
            and _const_int(s[2][1]) is not None:
        k, base = _const_int(s[2][1]), s[2][0]
    elif s[0] == 'field' and s[2] == '0' and _strip(s[1])[0] == 'call' and _strip(s[1])[1].endswith(('::split_first', '::split_first_mut')) \
            and _strip(s[1])[2]:
        k, base = 0, _strip(s[1])[2][0]
    if k is None:
        return v
    b = _strip(base)
    while b[0] == 'call' and b[2] and b[1] in ('std::result::Result::<T, E>::ok',):
        b = _strip(b[2][0])
    if b[0] == 'call' and len(b[2]) == 2 and b[1].endswith('>::map') and ('array' in b[1] or '[T; N]' in b[1]):
        inner = element(sl, ('index', b[2][0], '[%d]' % k), depth + 1)
        f = b[2][1]
        if f[0] == 'fnitem' and f[1] not in sl.prog.fns:
            return ('call', f[1], (inner,), None)
        r = sl.apply_closure(f, (inner,))
        return r if r is not None else ('call', 'std::array::<impl [T; N]>::map', (inner, f), None)
    root, off = slice_base(sl, base)
    return ('index', root, '[%d]' % (k + off))


# ---- file-type tests ---------------------------------------------------------------------------------------------------
# std defines Path::is_file(p) = fs::metadata(p).map(|m| m.is_file()).unwrap_or(false) (likewise is_dir; exists = metadata(p).is_ok()):
# a stat that follows symlinks whose failure counts as "no". file_test brings the spellings of that predicate to one form.
_FOLLOW = {'std::fs::metadata': True, 'std::path::Path::metadata': True,
           'std::fs::symlink_metadata': False, 'std::path::Path::symlink_metadata': False,
           'std::fs::DirEntry::metadata': False, 'std::fs::DirEntry::file_type': False}
_PATH_PRED = {'std::path::Path::is_file': 'is_file', 'std::path::Path::is_dir': 'is_dir', 'std::path::Path::exists': 'exists'}
_META_PRED = {'std::fs::Metadata::is_file': 'is_file', 'std::fs::Metadata::is_dir': 'is_dir',
              'std::fs::FileType::is_file': 'is_file', 'std::fs::FileType::is_dir': 'is_dir'}
_TRUE_IF_OK = ('std::result::Result::<T, E>::is_ok_and', 'std::option::Option::<T>::is_some_and')
_TRANSPARENT = ('std::result::Result::<T, E>::ok', 'std::result::Result::<T, E>::map_err', 'std::result::Result::<T, E>::inspect_err',
                'std::result::Result::<T, E>::as_ref', 'std::option::Option::<T>::as_ref', 'std::convert::AsRef::as_ref',
                'std::borrow::Borrow::borrow', 'std::ops::Deref::deref')


def _stat_of(v):
    """v = (payload of) a stat call on path P, possibly through transparent adapters: (P, follows symlinks?) | None"""
    v = _strip(v)
    while v[0] == 'call' and v[2] and v[1] in _TRANSPARENT:
        v = _strip(v[2][0])
    if v[0] == 'call' and v[2] and v[1] == 'std::fs::Metadata::file_type':
        return _stat_of(v[2][0])
    if v[0] == 'call' and v[2] and v[1] in _FOLLOW:
        return v[2][0], _FOLLOW[v[1]]
    return None


def _is_false(v):
    v = _strip(v)
    return v[0] == 'const' and v[1] in (False, 'false', 0)


def file_test(sl, v, depth=0):
    """(kind 'is_file'|'is_dir'|'exists', path value, follows symlinks?) when the boolean v is that test (a failed stat
    counting as false), else None"""
    if depth > 6 or not isinstance(v, tuple) or not v:
        return None
    s = _strip(v)
    if s[0] != 'call' or not s[2]:
        return None
    nm = s[1]
    if nm in _PATH_PRED and len(s[2]) == 1:
        return _PATH_PRED[nm], s[2][0], True
    if nm in _META_PRED and len(s[2]) == 1:
        # m.is_file() on the payload of a successful stat (`match fs::metadata(p) { Ok(m) => m.is_file(), Err(_) => false }`)
        st = _stat_of(s[2][0])
        return (_META_PRED[nm], st[0], st[1]) if st else None
    if nm in _TRUE_IF_OK and len(s[2]) == 2:
        st = _stat_of(s[2][0])
        if st is None:
            return None
        probe = ('unwrap', _strip_adapters(s[2][0]))
        body = sl.apply_closure(s[2][1], (probe,))
        if body is None and s[2][1][0] == 'fnitem':
            body = ('call', s[2][1][1], (probe,), None)
        r = file_test(sl, body, depth + 1) if body is not None else None
        return r if r and _same(r[1], st[0]) else None
    if nm in ('std::result::Result::<T, E>::unwrap_or', 'std::option::Option::<T>::unwrap_or') and len(s[2]) == 2 and _is_false(s[2][1]):
        m = _strip(s[2][0])
        while m[0] == 'call' and m[2] and m[1] in _TRANSPARENT:
            m = _strip(m[2][0])
        if m[0] == 'call' and len(m[2]) == 2 and m[1] in ('std::result::Result::<T, E>::map', 'std::option::Option::<T>::map'):
            return file_test(sl, ('call', _TRUE_IF_OK[0], (m[2][0], m[2][1]), None), depth + 1)
        return None
    if nm in ('std::result::Result::<T, E>::unwrap_or_default', 'std::option::Option::<T>::unwrap_or_default') and len(s[2]) == 1:
        return file_test(sl, ('call', 'std::result::Result::<T, E>::unwrap_or', (s[2][0], ('const', False)), None), depth + 1)
    if nm in ('std::result::Result::<T, E>::is_ok', 'std::option::Option::<T>::is_some') and len(s[2]) == 1:
        st = _stat_of(s[2][0])
        # only a plain stat: metadata(p).is_ok() = p.exists()
        t = _strip_adapters(s[2][0])
        if st and t[0] == 'call' and t[1] in _FOLLOW and t[1] != 'std::fs::DirEntry::file_type':
            return 'exists', st[0], st[1]
    return None


def _strip_adapters(v):
    v = _strip(v)
    while v[0] == 'call' and v[2] and v[1] in _TRANSPARENT:
        v = _strip(v[2][0])
    return v


def _same(a, b):
    return _strip_adapters(a) == _strip_adapters(b)


# ---- "the I/O error is NotFound" ----------------------------------------------------------------------------------------
def not_found_test(views, cd, pred=None):
    """[(error value E, holds?)] if the condition says `E.kind() == ErrorKind::NotFound` (holds True) or its negation
    (holds False): `==` / `!=` in either operand order, `matches!` / `match` on E.kind() (variant condition or the
    select view of an inlined private predicate), or a call of the workspace's not-found predicate `pred`."""
    out = []
    kind_of = lambda x: _strip(x)[2][0] if _strip(x)[0] == 'call' and _strip(x)[1] == 'std::io::Error::kind' and _strip(x)[2] else None
    is_nf = lambda x: _strip(x)[0] == 'agg' and _strip(x)[2] == 'NotFound' and (_strip(x)[1] or '').endswith('ErrorKind')
    if cd.kind == 'variant':
        if (cd.enum or '').endswith('io::ErrorKind') and cd.subject is not None:
            e = kind_of(cd.subject)
            if e is not None:
                if cd.outcome == frozenset({'NotFound'}):
                    out.append((e, True))
                elif 'NotFound' not in cd.outcome:
                    out.append((e, False))
        return out
    if cd.kind != 'bool':
        return out
    for val, oc in views:
        if not isinstance(oc, bool):
            continue
        val = _strip(val)
        if val[0] == 'call' and val[1] in ('std::cmp::PartialEq::eq', 'std::cmp::PartialEq::ne') and len(val[2]) == 2:
            a, b = val[2]
            e = kind_of(a) if is_nf(b) else kind_of(b) if is_nf(a) else None
            if e is not None:
                out.append((e, oc if val[1].endswith('::eq') else not oc))
        elif val[0] == 'call' and pred and val[1] == pred and val[2]:
            out.append((val[2][0], oc))
        elif val[0] == 'select' and (val[2] or '').endswith('ErrorKind'):
            e = kind_of(val[1])
            arms = [(set(names), _strip(x)) for names, x in val[3]]
            yes = [names for names, x in arms if x[0] == 'const' and x[1] is oc]
            rest = [names for names, x in arms if not (x[0] == 'const' and x[1] is oc)]
            if e is not None and all(x[0] == 'const' and isinstance(x[1], bool) for _, x in arms):
                taken = set().union(*yes) if yes else set()
                if taken == {'NotFound'}:
                    out.append((e, True))
                elif 'NotFound' not in taken and any('NotFound' in n for n in rest):
                    out.append((e, False))
    return out
