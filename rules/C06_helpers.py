"""Helpers of C06: values and guards of an effect's arguments, independent of how the code is split into private helpers,
closures handed to iterator adapters and Option/Result combinators.

  norm(sl, v)            bottom-up re-normalisation of a substituted value (mk_unwrap on every `unwrap`, field / variant
                         projections of exposed aggregates), so `x.and_then(|y| f(y))?` reads like `f(x?)?`
  returns(E, g, m)       the success alternatives of workspace function g under parameter bindings m:
                         [(returned value, guards)] with tail calls into other workspace functions followed
  resolve(E, v)          [(value, guards)]: v with every `payload-of(call private_helper(..))` replaced by the payload of
                         each feasible success alternative of that helper, together with the branch decisions (in the terms
                         of v) under which the helper produces that alternative
Guards have the format of effects.guards_of: (Cond, [(substituted value, outcome)..], substituted subject | None).
"""
from .lib.guards import conditions_ctx
from .lib.value import walk

LEAF = ('const', 'param', 'fnitem', 'constitem', 'unknown', 'closure_env', 'upvar')


def norm(sl, v, depth=0):
    if not isinstance(v, tuple) or not v or v[0] in LEAF or depth > 40:
        return v
    out = tuple(norm(sl, x, depth + 1) if isinstance(x, tuple) else x for x in v)
    if out[0] == 'unwrap' and len(out) == 2 and isinstance(out[1], tuple):
        r = sl.mk_unwrap(out[1], 1)
        # mk_unwrap may have applied a closure: what that exposed is normalised too
        return r if r == out or depth > 30 else norm(sl, r, depth + 8)
    if out[0] == 'field' and len(out) == 3 and isinstance(out[1], tuple):
        return sl._field(out[1], out[2])
    if out[0] == 'variant' and len(out) == 3 and isinstance(out[1], tuple):
        return sl._variant(out[1], out[2])
    return out


def subst_conds(E, cds, m):
    out = []
    for cd in cds:
        views = [(E.subst(v, m), oc) for v, oc in cd.views()] if cd.kind == 'bool' else [(E.subst(cd.value, m), cd.outcome)]
        out.append((cd, views, E.subst(cd.subject, m) if cd.subject is not None else None))
    return out


def returns(E, g, mapping=None, _stack=()):
    """[(value, guards)] for every success site of g (parameters bound by `mapping`)"""
    mapping = mapping or {}
    sl = E.slicer
    res = []
    for site in E.sites(g):
        guards = subst_conds(E, conditions_ctx(E.prog, g, site.bb, sl), mapping)
        if site.kind == 'ok':
            res.append((E.subst(sl._rvalue(g, site.stmt, set(), 0, None), mapping), guards))
        elif site.kind == 'tail':
            callees = [h for h in E.prog.callee_fns(site.call) if h.kind != 'Closure']
            if callees and len(_stack) < 6 and not any(h.path in _stack or h.path == g.path for h in callees):
                for h in callees:
                    m = E.call_mapping(g, site.call, h, mapping)
                    for v, gs in returns(E, h, m, _stack + (g.path,)):
                        res.append((v, guards + gs))
            else:
                res.append((E.subst(sl._call_value(g, site.call, set(), 0), mapping), guards))
        else:
            res.append((('tuple', ()), guards))
    return res


def _peel(sl, v, n):
    """payload after n success projections of v; None when v is literally a failure at one of them"""
    for _ in range(n):
        v = sl._ok_core(v)
        if v[0] == 'agg' and v[1] in ('std::result::Result', 'std::option::Option'):
            if v[2] in ('Err', 'None'):
                return None
            if v[2] in ('Ok', 'Some') and len(v[3]) == 1:
                v = v[3][0][1]
                continue
        v = sl.mk_unwrap(v, 1)
    return v


def _helper_payload(E, v, keep):
    """first sub-value unwrap^n(call g(..)) of v with g a workspace function (n >= 1): (subterm, n, call value)"""
    for x in walk(v):
        if x[0] != 'unwrap':
            continue
        n, y = 0, x
        while y[0] == 'unwrap':
            n, y = n + 1, E.slicer._ok_core(y[1])
        if y[0] == 'call' and y[1] in E.prog.fns and y[1] not in keep and E.prog.fns[y[1]].kind != 'Closure':
            return x, n, y
    return None


def _replace(v, old, new):
    if v == old:
        return new
    if not isinstance(v, tuple) or not v or v[0] in LEAF:
        return v
    return tuple(_replace(x, old, new) if isinstance(x, tuple) else x for x in v)


def resolve(E, v, keep=(), depth=0):
    sl = E.slicer
    v = norm(sl, v)
    hp = _helper_payload(E, v, keep) if depth < 5 else None
    if hp is None:
        return [(v, [])]
    sub, n, cv = hp
    g = E.prog.fns[cv[1]]
    m = {(g.path, i): a for i, a in enumerate(cv[2]) if i < g.argc}
    out = []
    alts = returns(E, g, m)
    for rv, guards in alts:
        pv = _peel(sl, norm(sl, rv), n)
        if pv is None:
            continue    # this alternative of the helper is a failure: it has no payload
        for v2, g2 in resolve(E, _replace(v, sub, pv), keep, depth + 1):
            out.append((v2, guards + g2))
    if not alts:
        return [(v, [])]
    return out
