"""Helpers of C06: values and guards of an effect's arguments, independent of how the code is split into private helpers,
closures handed to iterator adapters and Option/Result combinators.

  norm(sl, v)            bottom-up re-normalisation of a substituted value (mk_unwrap on every `unwrap`, field / variant
                         projections of exposed aggregates), so `x.and_then(|y| f(y))?` reads like `f(x?)?`
  returns(E, g, m)       the success alternatives of workspace function g under parameter bindings m:
                         [(returned value, guards)] with tail calls into other workspace functions followed
  resolve(E, v)          [(value, guards)]: v with every `payload-of(call private_helper(..))` replaced by the payload of
                         each feasible success alternative of that helper, together with the branch decisions (in the terms
                         of v) under which the helper produces that alternative
Guards have the format of effects.guards_of: (Cond, [(substituted value, outcome)..], substituted subject | None).
"""
from .lib.guards import conditions_ctx
from .lib.value import walk

LEAF = ('const', 'param', 'fnitem', 'constitem', 'unknown', 'closure_env', 'upvar')


def norm(sl, v, depth=0):
    if not isinstance(v, tuple) or not v or v[0] in LEAF or depth > 40:
        return v
    out = tuple(norm(sl, x, depth + 1) if isinstance(x, tuple) else x for x in v)
    if out[0] == 'unwrap' and len(out) == 2 and isinstance(out[1], tuple):
        r = sl.mk_unwrap(out[1], 1)
        # mk_unwrap may have applied a closure: what that exposed is normalised too
        return r if r == out or depth > 30 else norm(sl, r, depth + 8)
    if out[0] == 'field' and len(out) == 3 and isinstance(out[1], tuple):
        return sl._field(out[1], out[2])
    if out[0] == 'variant' and len(out) == 3 and isinstance(out[1], tuple):
        return sl._variant(out[1], out[2])
    return out


def subst_conds(E, cds, m):
    out = []
    for cd in cds:
        views = [(E.subst(v, m), oc) for v, oc in cd.views()] if cd.kind == 'bool' else [(E.subst(cd.value, m), cd.outcome)]
        out.append((cd, views, E.subst(cd.subject, m) if cd.subject is not None else None))
    return out


def returns(E, g, mapping=None, _stack=()):
    """[(value, guards)] for every success site of g (parameters bound by `mapping`)"""
    mapping = mapping or {}
    sl = E.slicer
    res = []
    for site in E.sites(g):
        guards = subst_conds(E, conditions_ctx(E.prog, g, site.bb, sl), mapping)
        if site.kind == 'ok':
            res.append((E.subst(sl._rvalue(g, site.stmt, set(), 0, None), mapping), guards))
        elif site.kind == 'tail':
            callees = [h for h in E.prog.callee_fns(site.call) if h.kind != 'Closure']
            if callees and len(_stack) < 6 and not any(h.path in _stack or h.path == g.path for h in callees):
                for h in callees:
                    m = E.call_mapping(g, site.call, h, mapping)
                    for v, gs in returns(E, h, m, _stack + (g.path,)):
                        res.append((v, guards + gs))
            else:
                res.append((E.subst(sl._call_value(g, site.call, set(), 0), mapping), guards))
        else:
            res.append((('tuple', ()), guards))
    return res


def _peel(sl, v, n):
    """payload after n success projections of v; None when v is literally a failure at one of them"""
    for _ in range(n):
        v = sl._ok_core(v)
        if v[0] == 'agg' and v[1] in ('std::result::Result', 'std::option::Option'):
            if v[2] in ('Err', 'None'):
                return None
            if v[2] in ('Ok', 'Some') and len(v[3]) == 1:
                v = v[3][0][1]
                continue
        v = sl.mk_unwrap(v, 1)
    return v


def _helper_payload(E, v, keep):
    """first sub-value unwrap^n(call g(..)) of v with g a workspace function (n >= 1): (subterm, n, call value)"""
    for x in walk(v):
        if x[0] != 'unwrap':
            continue
        n, y = 0, x
        while y[0] == 'unwrap':
            n, y = n + 1, E.slicer._ok_core(y[1])
        if y[0] == 'call' and y[1] in E.prog.fns and y[1] not in keep and E.prog.fns[y[1]].kind != 'Closure':
            return x, n, y
    return None


def _replace(v, old, new):
    if v == old:
        return new
    if not isinstance(v, tuple) or not v or v[0] in LEAF:
        return v
    return tuple(_replace(x, old, new) if isinstance(x, tuple) else x for x in v)


def resolve(E, v, keep=(), depth=0):
    sl = E.slicer
    v = norm(sl, v)
    hp = _helper_payload(E, v, keep) if depth < 5 else None
    if hp is None:
        return [(v, [])]
    sub, n, cv = hp
    g = E.prog.fns[cv[1]]
    m = {(g.path, i): a for i, a in enumerate(cv[2]) if i < g.argc}
    out = []
    alts = returns(E, g, m)
    for rv, guards in alts:
        pv = _peel(sl, norm(sl, rv), n)
        if pv is None:
            continue    # this alternative of the helper is a failure: it has no payload
        for v2, g2 in resolve(E, _replace(v, sub, pv), keep, depth + 1):
            out.append((v2, guards + g2))
    if not alts:
        return [(v, [])]
    return out


# ---- positions in a slice ---------------------------------------------------------------------------------------------
# `[_, a, b] = args`, `args.split_first()?.1.try_into()?` + array map, `&args[1..]`, `args.get(1)?` all denote "the element
# at position k of args": element(sl, v) brings such a value to ('index', base, '[k]') (conversions applied element-wise
# by array::map are kept around the element, so string/path conversions can be peeled by the caller as before)
_SAME_POS = ('::each_ref', '::each_mut', '::as_slice', '::as_mut_slice', '::as_ref', '::as_mut', '::deref', '::deref_mut',
             '::borrow', '::borrow_mut', '::iter', '::into_iter', '::to_vec', '::to_owned', '::clone', '::into_boxed_slice',
             '::try_into', '::try_from', '::into', '::from')
_RANGE = {'RangeFrom': 'start', 'Range': 'start', 'RangeInclusive': 'start'}


def _const_int(v):
    v = _strip(v)
    if v[0] == 'const' and isinstance(v[1], int) and not isinstance(v[1], bool):
        return v[1]
    if v[0] == 'const' and isinstance(v[1], str) and v[1].isdigit():
        return int(v[1])
    return None


def _strip(v):
    while isinstance(v, tuple) and v and v[0] in ('unwrap', 'updated') and len(v) > 1 and isinstance(v[1], tuple):
        v = v[1]
    return v


def _range_start(v):
    """start of a range value used as a slice index (`a..`, `a..b`); 0 for `..b` / `..`"""
    v = _strip(v)
    if v[0] == 'agg':
        nm = (v[1] or '').rsplit('::', 1)[-1]
        if nm in _RANGE:
            for fname, fv in v[3]:
                if fname == _RANGE[nm]:
                    return _const_int(fv)
            return None
        if nm in ('RangeTo', 'RangeToInclusive', 'RangeFull'):
            return 0
    if v[0] == 'call' and v[1].endswith('RangeInclusive::<Idx>::new') and v[2]:
        return _const_int(v[2][0])
    return None


def slice_base(sl, v, off=0, depth=0):
    """(base slice value, offset): position i of v is position i + offset of base"""
    if depth > 24:
        return v, off
    s = _strip(v)
    # the success payload of a length-checked conversion / Option adapters around it
    while s[0] == 'call' and s[2] and s[1] in ('std::result::Result::<T, E>::ok', 'std::option::Option::<T>::ok_or',
                                              'std::option::Option::<T>::ok_or_else', 'std::result::Result::<T, E>::map_err'):
        s = _strip(s[2][0])
    if s[0] == 'index' and s[2].startswith('[') and '..' in s[2]:
        a = s[2][1:-1].split('..')[0]
        if a.isdigit():
            return slice_base(sl, s[1], off + int(a), depth + 1)
        return v, off
    if s[0] == 'field' and s[2] in ('0', '1'):
        t = _strip(s[1])
        if t[0] == 'call' and t[2]:
            if t[1].endswith(('::split_first', '::split_first_mut')) and s[2] == '1':
                return slice_base(sl, t[2][0], off + 1, depth + 1)
            if t[1].endswith(('::split_last', '::split_last_mut')) and s[2] == '1':
                return slice_base(sl, t[2][0], off, depth + 1)
            if t[1].endswith(('::split_at', '::split_at_mut', '::split_at_checked', '::split_at_mut_checked')) and len(t[2]) == 2:
                k = _const_int(t[2][1])
                if s[2] == '0':
                    return slice_base(sl, t[2][0], off, depth + 1)
                if k is not None:
                    return slice_base(sl, t[2][0], off + k, depth + 1)
        return v, off
    if s[0] == 'call' and s[2]:
        nm = s[1]
        if nm.endswith(('::index', '::index_mut', '::get', '::get_mut')) and len(s[2]) == 2:
            k = _range_start(s[2][1])
            if k is not None:
                return slice_base(sl, s[2][0], off + k, depth + 1)
            return v, off
        if len(s[2]) == 1 and nm.endswith(_SAME_POS) and ('[T' in nm or 'slice' in nm or 'array' in nm or 'Vec' in nm or 'vec' in nm
                                                         or nm.startswith(('std::convert::', 'std::ops::Deref', 'std::borrow::', 'std::clone::',
                                                                           'std::iter::IntoIterator'))):
            return slice_base(sl, s[2][0], off, depth + 1)
    return v, off


def element(sl, v, depth=0):
    """normal form of "element k of a slice": ('index', base, '[k]') with base as far down as slice_base can follow;
    element-wise functions of array::map are applied to the element. Anything else is returned unchanged."""
    if depth > 12 or not isinstance(v, tuple) or not v:
        return v
    s = _strip(v)
    k = base = None
    if s[0] == 'index' and s[2].startswith('[') and '..' not in s[2] and s[2][1:-1].isdigit():
        k, base = int(s[2][1:-1]), s[1]
    elif s[0] == 'call' and s[2] and s[1].endswith(('::first', '::first_mut')) and 'slice' in s[1] and len(s[2]) == 1:
        k, base = 0, s[2][0]
    elif s[0] == 'call' and len(s[2]) == 2 and s[1].endswith(('::index', '::index_mut', '::get', '::get_mut', '::get_unchecked')) \
            and _const_int(s[2][1]) is not None:
        k, base = _const_int(s[2][1]), s[2][0]
    elif s[0] == 'field' and s[2] == '0' and _strip(s[1])[0] == 'call' and _strip(s[1])[1].endswith(('::split_first', '::split_first_mut')) \
            and _strip(s[1])[2]:
        k, base = 0, _strip(s[1])[2][0]
    if k is None:
        return v
    b = _strip(base)
    while b[0] == 'call' and b[2] and b[1] in ('std::result::Result::<T, E>::ok',):
        b = _strip(b[2][0])
    if b[0] == 'call' and len(b[2]) == 2 and b[1].endswith('>::map') and ('array' in b[1] or '[T; N]' in b[1]):
        inner = element(sl, ('index', b[2][0], '[%d]' % k), depth + 1)
        f = b[2][1]
        if f[0] == 'fnitem' and f[1] not in sl.prog.fns:
            return ('call', f[1], (inner,), None)
        r = sl.apply_closure(f, (inner,))
        return r if r is not None else ('call', 'std::array::<impl [T; N]>::map', (inner, f), None)
    root, off = slice_base(sl, base)
    return ('index', root, '[%d]' % (k + off))


# ---- file-type tests ---------------------------------------------------------------------------------------------------
# std defines Path::is_file(p) = fs::metadata(p).map(|m| m.is_file()).unwrap_or(false) (likewise is_dir; exists = metadata(p).is_ok()):
# a stat that follows symlinks whose failure counts as "no". file_test brings the spellings of that predicate to one form.
_FOLLOW = {'std::fs::metadata': True, 'std::path::Path::metadata': True,
           'std::fs::symlink_metadata': False, 'std::path::Path::symlink_metadata': False,
           'std::fs::DirEntry::metadata': False, 'std::fs::DirEntry::file_type': False}
_PATH_PRED = {'std::path::Path::is_file': 'is_file', 'std::path::Path::is_dir': 'is_dir', 'std::path::Path::exists': 'exists'}
_META_PRED = {'std::fs::Metadata::is_file': 'is_file', 'std::fs::Metadata::is_dir': 'is_dir',
              'std::fs::FileType::is_file': 'is_file', 'std::fs::FileType::is_dir': 'is_dir'}
_TRUE_IF_OK = ('std::result::Result::<T, E>::is_ok_and', 'std::option::Option::<T>::is_some_and')
_TRANSPARENT = ('std::result::Result::<T, E>::ok', 'std::result::Result::<T, E>::map_err', 'std::result::Result::<T, E>::inspect_err',
                'std::result::Result::<T, E>::as_ref', 'std::option::Option::<T>::as_ref', 'std::convert::AsRef::as_ref',
                'std::borrow::Borrow::borrow', 'std::ops::Deref::deref')


def _stat_of(v):
    """v = (payload of) a stat call on path P, possibly through transparent adapters: (P, follows symlinks?) | None"""
    v = _strip(v)
    while v[0] == 'call' and v[2] and v[1] in _TRANSPARENT:
        v = _strip(v[2][0])
    if v[0] == 'call' and v[2] and v[1] == 'std::fs::Metadata::file_type':
        return _stat_of(v[2][0])
    if v[0] == 'call' and v[2] and v[1] in _FOLLOW:
        return v[2][0], _FOLLOW[v[1]]
    return None


def _is_false(v):
    v = _strip(v)
    return v[0] == 'const' and v[1] in (False, 'false', 0)


def file_test(sl, v, depth=0):
    """(kind 'is_file'|'is_dir'|'exists', path value, follows symlinks?) when the boolean v is that test (a failed stat
    counting as false), else None"""
    if depth > 6 or not isinstance(v, tuple) or not v:
        return None
    s = _strip(v)
    if s[0] != 'call' or not s[2]:
        return None
    nm = s[1]
    if nm in _PATH_PRED and len(s[2]) == 1:
        return _PATH_PRED[nm], s[2][0], True
    if nm in _META_PRED and len(s[2]) == 1:
        # m.is_file() on the payload of a successful stat (`match fs::metadata(p) { Ok(m) => m.is_file(), Err(_) => false }`)
        st = _stat_of(s[2][0])
        return (_META_PRED[nm], st[0], st[1]) if st else None
    if nm in _TRUE_IF_OK and len(s[2]) == 2:
        st = _stat_of(s[2][0])
        if st is None:
            return None
        probe = ('unwrap', _strip_adapters(s[2][0]))
        body = sl.apply_closure(s[2][1], (probe,))
        if body is None and s[2][1][0] == 'fnitem':
            body = ('call', s[2][1][1], (probe,), None)
        r = file_test(sl, body, depth + 1) if body is not None else None
        return r if r and _same(r[1], st[0]) else None
    if nm in ('std::result::Result::<T, E>::unwrap_or', 'std::option::Option::<T>::unwrap_or') and len(s[2]) == 2 and _is_false(s[2][1]):
        m = _strip(s[2][0])
        while m[0] == 'call' and m[2] and m[1] in _TRANSPARENT:
            m = _strip(m[2][0])
        if m[0] == 'call' and len(m[2]) == 2 and m[1] in ('std::result::Result::<T, E>::map', 'std::option::Option::<T>::map'):
            return file_test(sl, ('call', _TRUE_IF_OK[0], (m[2][0], m[2][1]), None), depth + 1)
        return None
    if nm in ('std::result::Result::<T, E>::unwrap_or_default', 'std::option::Option::<T>::unwrap_or_default') and len(s[2]) == 1:
        return file_test(sl, ('call', 'std::result::Result::<T, E>::unwrap_or', (s[2][0], ('const', False)), None), depth + 1)
    if nm in ('std::result::Result::<T, E>::is_ok', 'std::option::Option::<T>::is_some') and len(s[2]) == 1:
        st = _stat_of(s[2][0])
        # only a plain stat: metadata(p).is_ok() = p.exists()
        t = _strip_adapters(s[2][0])
        if st and t[0] == 'call' and t[1] in _FOLLOW and t[1] != 'std::fs::DirEntry::file_type':
            return 'exists', st[0], st[1]
    return None


def _strip_adapters(v):
    v = _strip(v)
    while v[0] == 'call' and v[2] and v[1] in _TRANSPARENT:
        v = _strip(v[2][0])
    return v


def _same(a, b):
    return _strip_adapters(a) == _strip_adapters(b)


# ---- "the I/O error is NotFound" ----------------------------------------------------------------------------------------
def not_found_test(views, cd, pred=None):
    """[(error value E, holds?)] if the condition says `E.kind() == ErrorKind::NotFound` (holds True) or its negation
    (holds False): `==` / `!=` in either operand order, `matches!` / `match` on E.kind() (variant condition or the
    select view of an inlined private predicate), or a call of the workspace's not-found predicate `pred`."""
    out = []
    kind_of = lambda x: _strip(x)[2][0] if _strip(x)[0] == 'call' and _strip(x)[1] == 'std::io::Error::kind' and _strip(x)[2] else None
    is_nf = lambda x: _strip(x)[0] == 'agg' and _strip(x)[2] == 'NotFound' and (_strip(x)[1] or '').endswith('ErrorKind')
    if cd.kind == 'variant':
        if (cd.enum or '').endswith('io::ErrorKind') and cd.subject is not None:
            e = kind_of(cd.subject)
            if e is not None:
                if cd.outcome == frozenset({'NotFound'}):
                    out.append((e, True))
                elif 'NotFound' not in cd.outcome:
                    out.append((e, False))
        return out
    if cd.kind != 'bool':
        return out
    for val, oc in views:
        if not isinstance(oc, bool):
            continue
        val = _strip(val)
        if val[0] == 'call' and val[1] in ('std::cmp::PartialEq::eq', 'std::cmp::PartialEq::ne') and len(val[2]) == 2:
            a, b = val[2]
            e = kind_of(a) if is_nf(b) else kind_of(b) if is_nf(a) else None
            if e is not None:
                out.append((e, oc if val[1].endswith('::eq') else not oc))
        elif val[0] == 'call' and pred and val[1] == pred and val[2]:
            out.append((val[2][0], oc))
        elif val[0] == 'select' and (val[2] or '').endswith('ErrorKind'):
            e = kind_of(val[1])
            arms = [(set(names), _strip(x)) for names, x in val[3]]
            yes = [names for names, x in arms if x[0] == 'const' and x[1] is oc]
            rest = [names for names, x in arms if not (x[0] == 'const' and x[1] is oc)]
            if e is not None and all(x[0] == 'const' and isinstance(x[1], bool) for _, x in arms):
                taken = set().union(*yes) if yes else set()
                if taken == {'NotFound'}:
                    out.append((e, True))
                elif 'NotFound' not in taken and any('NotFound' in n for n in rest):
                    out.append((e, False))
    return out


# ---- "every entry of the listing is visited" ------------------------------------------------------------------------------
# The platform env reader has to look at *every* entry: the loop / iterator pipeline between the directory listing and the
# insert effect may not stop early (break / early success return / take_while / map_while / a short-circuiting consumer
# whose failure is tolerated) and may not drop elements by position or by an unrecognised per-element test.
def _reach_skipping_edge(fn, start, edge):
    seen, work = set(), [start]
    while work:
        b = work.pop()
        if b in seen:
            continue
        seen.add(b)
        for s in fn.succs(b):
            if (b, s) != edge:
                work.append(s)
    return seen


_PASS_ALL = None


# ---- iterating an Option --------------------------------------------------------------------------------------------------
# An Option used as an iterator (`for x in opt`, `opt.into_iter().flatten()`, `opt.iter().flat_map(..)`) yields its payload
# once when it is Some and nothing when it is None.
def option_alternatives(v, depth=0):
    """[payload of every Some alternative] when v is, in every alternative, a literal Option (`None` / `Some(x)`); else None"""
    v = _strip(v)
    if depth > 6:
        return None
    if v[0] == 'phi':
        out = []
        for x in v[1]:
            r = option_alternatives(x, depth + 1)
            if r is None:
                return None
            out.extend(r)
        return out
    if v[0] == 'agg' and v[1] == 'std::option::Option':
        if v[2] == 'None':
            return []
        if v[2] == 'Some' and len(v[3]) == 1:
            return [v[3][0][1]]
    return None


def listing_payload(x):
    """x is the directory listing itself (`fs::read_dir(p)?`, error-side adapters only): the one kind of Option payload whose
    `None` alternative is policed (absent_listing_problems: None only where the listing failed).  For any other Option the
    condition that selects None / Some is not visible in a phi value, so it is not read as "its payload when there is one"."""
    for _ in range(8):
        x = _strip(x)
        if x[0] == 'call' and x[2] and x[1] in ('std::ops::Try::branch', 'std::result::Result::<T, E>::map_err', 'std::result::Result::<T, E>::inspect_err'):
            x = x[2][0]
            continue
        break
    return x[0] == 'call' and x[1] == 'std::fs::read_dir'


def option_iter_norm(v, depth=0):
    """v with every `unwrap(next(<iterator over a literal Option>))` replaced by that Option's payload; None when v contains
    the element of an iteration over a literal `None` (there is no such element: the value is never computed)"""
    if not isinstance(v, tuple) or not v or v[0] in LEAF or depth > 60:
        return v
    parts = []
    for x in v:
        if isinstance(x, tuple):
            x = option_iter_norm(x, depth + 1)
            if x is None:
                return None
        parts.append(x)
    out = tuple(parts)
    if out[0] == 'unwrap' and len(out) == 2 and isinstance(out[1], tuple) and out[1] and out[1][0] == 'call' and out[1][1] == 'std::iter::Iterator::next' \
            and len(out[1][2]) == 1:
        src = _iter_source(out[1][2][0])
        if src[0] == 'agg' and src[1] == 'std::option::Option':
            if src[2] == 'None':
                return None
            if src[2] == 'Some' and len(src[3]) == 1 and listing_payload(src[3][0][1]):
                return src[3][0][1]
        if src[0] == 'phi':
            # None | Some(x): whenever there is an element, it is x
            somes = option_alternatives(src)
            if somes is not None and all(listing_payload(x) for x in somes):
                uniq = []
                for x in somes:
                    if x not in uniq:
                        uniq.append(x)
                if not uniq:
                    return None
                return uniq[0] if len(uniq) == 1 else ('phi', tuple(uniq))
    return out


def pipeline_problems(v, depth=0):
    """adapters between an iterated expression and its source that make the consumer see fewer elements than the source
    yields: [description]; adapters that keep every element (map / inspect / enumerate / rev / collect / by_ref ..) pass"""
    from .lib import iters
    global _PASS_ALL
    if _PASS_ALL is None:
        _PASS_ALL = set(iters.SAME) | set(iters.COLLECTING) | {iters.IT + 'map', iters.IT + 'inspect', iters.IT + 'enumerate',
                                                                 'std::iter::IntoIterator::into_iter'}
    out = []
    while depth < 24 and isinstance(v, tuple) and v:
        depth += 1
        if v[0] in ('unwrap', 'updated'):
            v = v[1]
            continue
        if v[0] == 'phi':
            for x in v[1]:
                out.extend(pipeline_problems(x, depth))
            return out
        if v[0] != 'call' or not v[2]:
            break
        name = v[1]
        if name == iters.IT + 'chain' and len(v[2]) == 2:
            out.extend(pipeline_problems(v[2][1], depth))
            v = v[2][0]
        elif name in _PASS_ALL or (iters._is_source(name) and name.endswith(iters.SAME_ELEMS)):
            v = v[2][0]
        elif name == iters.IT + 'flatten' and len(v[2]) == 1 and option_alternatives(_iter_source(v[2][0])) is not None \
                and all(listing_payload(x) for x in option_alternatives(_iter_source(v[2][0]))):
            # flattening an Option<iterator> (`maybe_listing.into_iter().flatten()`): every element of the listing that is
            # there; an absent listing has no entries to look at (whether it may be absent is the listing-tolerance obligation)
            for x in option_alternatives(_iter_source(v[2][0])):
                out.extend(pipeline_problems(x, depth))
            return out
        elif name in iters.TRUNCATING:
            out.append('%s stops / skips by position: later entries are never looked at' % name.rsplit('::', 1)[-1])
            v = v[2][0]
        elif name.startswith(iters.IT) or name.startswith('std::iter::'):
            out.append('%s may drop entries' % name.rsplit('::', 1)[-1])
            v = v[2][0]
        else:
            break
    return out


def exhaustive_problems(E, e):
    """why the effect e (an Eff reached from the entry function) may not run for every element of the iteration(s) it sits
    in: [] when every loop around it (at every level of the call chain) is left on success only by exhaustion and every
    iterator consumer running it visits all elements; None when a level has a shape this analysis does not model"""
    from .lib import iters
    from .lib.effects import Link
    sl = E.slicer
    problems = []
    levels = [l.call for l in e.chain if isinstance(l, Link)] + [e.call]
    for call in levels:
        g = call.fn
        for L in E.loops(g):
            if call.bb not in L.body or call.bb == L.header:
                continue
            if getattr(L, 'exhaust', None) is None:
                return None
            early = _reach_skipping_edge(g, L.header, L.exhaust)
            for st in E.sites(g):
                if st.bb in early:
                    problems.append('%s: the loop can be left towards a success return (bb%d) without being exhausted'
                                    % (g.path.split('::')[-1], st.bb))
                    break
            pp = pipeline_problems(L.collection)
            if pp:
                # private helpers between the listing and the loop are transparent (`for e in list_dir(p)?.into_iter().flatten()`)
                pp = pipeline_problems(norm(sl, sl.inline_deep(L.collection)))
            problems.extend(pp)
    for l in e.chain:
        if not isinstance(l, Link):
            continue
        c = l.call
        d = c.decl or ''
        if not d.startswith('std::iter::'):
            continue
        if d in iters.CONSUME_EACH or d in (iters.IT + 'fold', iters.IT + 'try_fold'):
            if E._short_circuits(c.fn, c):
                problems.append('%s stops at the first failure and that failure can still end in success' % d.rsplit('::', 1)[-1])
            pp = pipeline_problems(sl.operand(c.fn, c.args[0]))
            if pp:
                pp = pipeline_problems(norm(sl, sl.inline_deep(sl.operand(c.fn, c.args[0]))))
            problems.extend(pp)
        else:
            return None     # the effect runs inside a lazy adapter's closure: who pulls it is not modelled
    return problems


# ---- the element Result of a fallible iterator ----------------------------------------------------------------------------
def element_fates(prog, fn, call):
    """fates (lib.discard) of the Result that `Iterator::next()` call `call` yields as Some payload: the local(s) it is moved
    into are followed; a nested pattern (`Some(Ok(x))`) that never reads the Err payload drops the error"""
    from .lib.discard import local_fates, Fate
    if not call.dest or len(call.dest) != 1:
        return [Fate('escapes', call, 'iterator element is not held in a local')]
    fates, nested_ok, nested_err = [], False, False
    for bi, kind, idx, how, pl in fn.uses_of(call.dest[0]):
        projs = list(pl[1:])
        if '@Some' not in projs:
            continue
        rest = projs[projs.index('@Some') + 2:]
        if not rest and kind == 'stmt' and how != 'discr':
            st = fn.blocks[bi]['s'][idx]
            if len(st[1]) == 1 and st[2]['r'] in ('use', 'ref', 'cast'):
                fates.extend(local_fates(prog, fn, st[1][0], {}, set(), 0) or [Fate('discarded', call, 'element is never read')])
            else:
                fates.append(Fate('escapes', call, 'element used in rvalue %s' % st[2]['r']))
        elif not rest and kind == 'arg':
            fates.append(Fate('escapes', call, 'element handed on as call argument'))
        elif '@Err' in rest:
            nested_err = True
        else:
            nested_ok = True
    if nested_ok or nested_err:
        fates.append(Fate('matched') if nested_err else Fate('discarded', call, 'pattern on the element never reads its Err payload'))
    return fates


def iterated_element(v):
    """a sub-value `next(x)` of v where x is itself the element of an iteration: the element (a Result / Option) is used
    as an iterator (flatten / into_iter), which silently skips its failure alternative"""
    IT_NEXT = 'std::iter::Iterator::next'
    for x in walk(v):
        if x[0] == 'call' and x[1] == IT_NEXT and x[2]:
            y = _strip(x[2][0])
            if y[0] == 'call' and y[1] == IT_NEXT:
                return x
    return None


# ---- the guards of the insert ----------------------------------------------------------------------------------------------
_SUCCESS = frozenset({'Ok', 'Some', 'Continue'})
_PEEL_RECV = ('std::ops::Try::branch', 'std::result::Result::<T, E>::map', 'std::result::Result::<T, E>::map_err',
              'std::result::Result::<T, E>::and_then', 'std::result::Result::<T, E>::inspect_err', 'std::result::Result::<T, E>::inspect',
              'std::result::Result::<T, E>::as_ref', 'std::option::Option::<T>::as_ref', 'std::option::Option::<T>::map',
              'std::option::Option::<T>::and_then', 'std::option::Option::<T>::ok_or', 'std::option::Option::<T>::ok_or_else',
              'std::result::Result::<std::option::Option<T>, E>::transpose', 'std::option::Option::<std::result::Result<T, E>>::transpose',
              'std::option::Option::<T>::as_deref', 'std::option::Option::<&T>::cloned', 'std::option::Option::<&T>::copied',
              # `iter.collect::<Result<Vec<_>, _>>()` is Ok exactly when every element is: a decision about the elements' source
              'std::iter::Iterator::collect', 'std::iter::FromIterator::from_iter', 'std::iter::IntoIterator::into_iter')
_INPUT_ROOTS = ('std::fs::read_dir', 'std::iter::Iterator::next', 'std::path::Path::file_name', 'std::fs::DirEntry::file_name',
                'std::fs::read_to_string', 'std::fs::DirEntry::path') + tuple(_FOLLOW)


def success_root(v):
    """the call whose success / presence a `is Ok / Some / Continue` decision on v is about: `?`, Ok-preserving combinators
    and payload projections peeled"""
    for _ in range(24):
        v = _strip(v)
        if v[0] == 'call' and v[2] and v[1] in _PEEL_RECV:
            v = v[2][0]
            continue
        if v[0] in ('field', 'variant') and isinstance(v[1], tuple):
            v = v[1]
            continue
        break
    return v


def _receiver_root(v):
    """like success_root, but without looking through payload projections: the call whose own Ok / Some / Continue-ness the
    decision is about (`r?`, `r.map(..)`, `r.and_then(..)` are Ok only if r is) — a decision on a *payload* of r (`(r as Err).0
    is Some`) is not one on r"""
    for _ in range(24):
        v = _strip(v)
        if v[0] == 'call' and v[2] and v[1] in _PEEL_RECV:
            v = v[2][0]
            continue
        break
    return v


def extra_guards(sl, prog, guards, path_ok):
    """guards (format of effects.guards_of) of the insert that are neither "an input read succeeded / is present" nor a
    file-type test that `is_file` of the entry implies: [(description)] — each one makes the reader skip regular files"""
    from .lib.value import vstr
    out = []
    for cd, views, subj in guards:
        if cd.kind == 'variant':
            root = success_root(subj if subj is not None else cd.value)
            is_input = lambda r_: r_[0] == 'call' and (r_[1] in _INPUT_ROOTS or (r_[1] in prog.fns and prog.fns[r_[1]].crate.startswith('libcnb')))
            ok = (cd.enum or '').rsplit('::', 1)[-1] in ('Result', 'Option', 'ControlFlow') and cd.outcome <= _SUCCESS and is_input(root)
            if not ok and root[0] in ('phi', 'agg') and cd.outcome == frozenset({'Some'}):
                # `if let Some(entries) = maybe_listing` with maybe_listing = None | Some(read_dir(..)?): "the input read that
                # the Some alternative holds is there" (where it may be None: absent_listing_problems / listing-tolerance)
                somes = option_alternatives(root)
                ok = bool(somes) and all(listing_payload(x) for x in somes)
            if not ok:
                out.append('%s is %s' % (vstr(subj if subj is not None else cd.value)[:90], '|'.join(sorted(cd.outcome))))
        elif cd.kind == 'bool':
            good = False
            for val, oc in views:
                ft = file_test(sl, val)
                if ft is not None and path_ok(ft[1]) and ((ft[0] == 'is_file' and oc is True) or (ft[0] == 'is_dir' and oc is False)
                                                           or (ft[0] == 'exists' and oc is True)):
                    good = True
            if not good:
                val, oc = views[0] if views else (cd.value, cd.outcome)
                out.append('%s == %s' % (vstr(val)[:90], oc))
        else:
            out.append('%s decision on %s' % (cd.kind, vstr(cd.value)[:90]))
    return out


# ---- a value read from one environment variable, unmodified ---------------------------------------------------------------
_STR_SAME = ('::to_owned', '::to_string', '::clone', '::into', '::from', '::into_string', '::as_ref', '::borrow', '::deref', '::as_str',
             '::into_boxed_str', '::to_os_string', '::into_os_string')
_ERR_ONLY = ('std::result::Result::<T, E>::map_err', 'std::result::Result::<T, E>::inspect_err', 'std::result::Result::<T, E>::ok',
             'std::ops::Try::branch', 'std::result::Result::<T, E>::or_else')


def env_var_exact(v, depth=0):
    """name N when v is the content of environment variable N as read by env::var / var_os, possibly moved between string
    types, with error-side adapters (`map_err`, `?`, `.ok()`) and Some(..) wrapping only; None as soon as anything computes
    on the content (case mapping, trimming, filtering, defaults ..)"""
    if depth > 16 or not isinstance(v, tuple) or not v:
        return None
    v = _strip(v)
    if v[0] == 'call' and v[1] in ('std::env::var', 'std::env::var_os') and len(v[2]) == 1:
        a = _strip(v[2][0])
        return a[1] if a[0] == 'const' and isinstance(a[1], str) else None
    if v[0] == 'call' and v[2] and (v[1] in _ERR_ONLY or (len(v[2]) == 1 and v[1].endswith(_STR_SAME))):
        return env_var_exact(v[2][0], depth + 1)
    if v[0] == 'agg' and v[2] in ('Some', 'Ok') and len(v[3]) == 1:
        return env_var_exact(v[3][0][1], depth + 1)
    if v[0] == 'phi':
        names = set()
        for x in v[1]:
            x0 = _strip(x)
            if x0[0] == 'agg' and x0[2] == 'None':
                continue
            names.add(env_var_exact(x, depth + 1))
        return names.pop() if len(names) == 1 else None
    return None


def entry_path_of(kv, vv):
    """the path of the directory entry an insert is about, from its (normalised) key / value: the file that is read"""
    if vv[0] == 'call' and vv[1] == 'std::fs::read_to_string' and vv[2]:
        return _strip(vv[2][0])
    if kv[0] == 'call' and kv[1] == 'std::path::Path::file_name' and kv[2]:
        return _strip(kv[2][0])
    return None


# ---- the Env that is returned ----------------------------------------------------------------------------------------------
_FRESH = ('libcnb::env::Env::new', '<libcnb::env::Env as std::default::Default>::default', 'std::default::Default::default')
_FOLDS = ('std::iter::Iterator::fold', 'std::iter::Iterator::try_fold')


def _fresh(sl, v):
    v = _strip(v)
    if v[0] == 'call' and v[1] in _FRESH and not v[2]:
        if v[1] == 'libcnb::env::Env::new':
            f = sl.prog.fns.get(v[1])
            b = _strip(sl.local(f, 0)) if f is not None else ('unknown',)
            return b[0] == 'call' and b[1] in _FRESH[1:] and not b[2]
        return True
    return False


def fresh_env_problems(E, pe, ins_effs):
    """[] when (a) the Env every insert effect writes to is a fresh empty Env (or the accumulator of a fold that starts
    from one and hands it on), and (b) every success alternative of `pe` returns such an Env — the one written to"""
    from .lib.effects import Link
    from .lib.value import vstr
    sl = E.slicer
    out = []
    recv_sites = set()
    for e in ins_effs:
        r = _strip(e.args[0]) if e.args else ('unknown',)
        if _fresh(sl, r):
            recv_sites.add(r[3] if len(r) > 3 else None)
            continue
        links = [l for l in e.chain if isinstance(l, Link)]
        fold = links[-1].call if links else None
        if r[0] == 'param' and fold is not None and fold.decl in _FOLDS and len(fold.args) == 3 and r[1] == e.call.fn.path:
            init = sl.operand(fold.fn, fold.args[1])
            acc = _strip(sl.mk_unwrap(sl.local(e.call.fn, 0), 1))
            if not _fresh(sl, init):
                out.append('fold starts from ' + vstr(init)[:80])
            elif acc != r:
                out.append('the fold closure does not hand its accumulator on: ' + vstr(acc)[:80])
            else:
                recv_sites.add(('fold', fold.fn.path, fold.bb))
            continue
        out.append('variables are inserted into ' + vstr(r)[:80])
    for rv, _gs in returns(E, pe):
        pv = _peel(sl, norm(sl, rv), 1) if pe.ret.startswith('std::result::Result<') else rv
        if pv is None:
            continue
        pv = _strip(pv)
        if _fresh(sl, pv):
            continue        # an empty Env (missing env directory) or the one written to: both start empty
        if pv[0] == 'call' and pv[1] in _FOLDS and len(pv[2]) == 3 and _fresh(sl, pv[2][1]):
            continue
        out.append('returns ' + vstr(pv)[:80])
    if not out and recv_sites:
        # the Env written to is one that is returned
        rets = set()
        for rv, _gs in returns(E, pe):
            for x in walk(rv):
                if x[0] == 'call' and x[1] in _FRESH and len(x) > 3:
                    rets.add(x[3])
                if x[0] == 'call' and x[1] in _FOLDS and len(x) > 3 and x[3]:
                    rets.add(('fold', x[3][0], x[3][1]))
        if not (recv_sites & rets):
            out.append('the Env that receives the variables is not the one returned')
    return out


# ---- alternatives of a value ---------------------------------------------------------------------------------------------
def alternatives(sl, v, depth=0):
    """the alternative values a (normalised) value can take: phi alternatives, and under `unwrap` the success payload of each
    alternative (literal failures have none)"""
    if depth < 10 and isinstance(v, tuple) and v:
        if v[0] == 'phi':
            return [y for x in v[1] for y in alternatives(sl, x, depth + 1)]
        if v[0] == 'unwrap':
            out = []
            for y in alternatives(sl, v[1], depth + 1):
                p = _peel(sl, y, 1)
                if p is not None:
                    out.extend(alternatives(sl, p, depth + 1))
            return out
    return [v]


def some_payload(v):
    """x when v is Some(x) (aggregate or the `Some` constructor applied as a function), else None"""
    v = _strip(v)
    if v[0] == 'agg' and v[2] == 'Some' and len(v[3]) == 1:
        return v[3][0][1]
    if v[0] == 'call' and v[1].endswith('::Some') and len(v[2]) == 1:
        return v[2][0]
    return None


# ---- which error kinds are tolerated ---------------------------------------------------------------------------------------
def edge_cond(fn, sb, tb, sl):
    """the decision taken by going from switch block sb to its target tb, as a guards.Cond (None if not expressible)"""
    from .lib.guards import Cond, _discr_info
    t = fn.blocks[sb]['t']
    if t['t'] != 'switch':
        return None
    labels = [v for v, b in t['targets'] if b == tb] + (['else'] if t['else'] == tb else [])
    if not labels:
        return None
    listed = [v for v, _ in t['targets']]
    di = _discr_info(fn, sb, t['o'])
    val = sl.operand(fn, t['o'])
    if di:
        place, vmap, enum = di
        names = set()
        for lab in labels:
            if lab == 'else':
                names |= {n for v, n in vmap.items() if v not in listed}
            else:
                names.add(vmap.get(lab, str(lab)))
        return Cond(fn, sb, tb, 'variant', frozenset(names), val, sl.place(fn, place), enum)
    if t.get('oty') == 'bool':
        if labels == ['else'] and listed == [0]:
            outcome = True
        elif labels == [0]:
            outcome = False
        elif labels == [1]:
            outcome = True
        elif labels == ['else'] and listed == [1]:
            outcome = False
        else:
            return None
        while val[0] == 'un' and val[1] == 'Not':
            val, outcome = val[2], not outcome
        if val[0] == 'select' and all(rv[0] == 'const' and isinstance(rv[1], bool) for _, rv in val[3]):
            names = frozenset(n for ns, rv in val[3] if rv[1] == outcome for n in ns)
            return Cond(fn, sb, tb, 'variant', names, val, val[1], val[2])
        cd = Cond(fn, sb, tb, 'bool', outcome, val)
        cd._slicer = sl
        return cd
    return None


def tolerated_without_not_found(fn, sl, start, success_bbs, pred=None, is_about=None, failed=None, cuts=None):
    """`failed`: the call value (with site, executed once) of the read known to have failed at `start` — edges saying that same
    read succeeded are not taken; `cuts`: list that receives the (switch bb, target bb) edges where the walk stopped because the
    error is known to be NotFound beyond them.
    Blocks of success_bbs reachable from `start` (the arm where a read has failed) without passing a decision that says
    "the error's kind is exactly NotFound": every such block is a success under some other error kind.  Decisions are the
    edges of switches: `kind() == / != NotFound`, `matches!(kind(), NotFound)`, `match kind() { NotFound => .. }`, the
    workspace's not-found predicate (C06_helpers.not_found_test says `holds`); `is_about(error value)` restricts the
    decisions to those on the error of this read."""
    seen, work, hit = set(), [start], []
    while work:
        b = work.pop()
        if b in seen:
            continue
        seen.add(b)
        if b in success_bbs:
            hit.append(b)
            continue
        t = fn.blocks[b]['t']
        if t['t'] == 'switch':
            for tb in set([x for _, x in t['targets']] + [t['else']]):
                if fn.blocks[tb]['t']['t'] == 'unreachable':
                    continue
                cd = edge_cond(fn, b, tb, sl)
                nf = not_found_test(cd.views() if cd is not None and cd.kind == 'bool' else [], cd, pred) if cd is not None else []
                if any(holds is True and (is_about is None or is_about(ev)) for ev, holds in nf):
                    if cuts is not None:
                        cuts.append((b, tb))
                    continue     # beyond this edge the error is known to be NotFound: tolerated by the property
                # `failed` (a call value with its site, executed once): the read that is known to have failed where we
                # started; an edge that says "that same read succeeded" (`other?` in a catch-all arm after the
                # `Err(e) if not_found(e)` arm) cannot be taken
                if failed is not None and cd is not None and cd.kind == 'variant' and cd.subject is not None and cd.outcome <= _SUCCESS \
                        and _receiver_root(cd.subject) == failed:
                    continue
                work.append(tb)
        else:
            work.extend(fn.succs(b))
    return hit


_SAME_STRING = ('::as_ref', '::borrow', '::deref', '::as_str', '::as_path', '::as_os_str', '::to_owned', '::clone', '::to_path_buf',
                '::into', '::from', '::to_string', '::into_boxed_str', '::into_string')


def same_string(v):
    """peel calls that hand the same text / path on under another type (references, AsRef, to_owned, From / Into); unwrap
    markers are kept (the caller decides about propagation)"""
    for _ in range(12):
        s = v
        while s[0] == 'updated':
            s = s[1]
        if s[0] == 'call' and len(s[2]) == 1 and s[1].endswith(_SAME_STRING) and not s[1].startswith('std::result::') \
                and not s[1].startswith('std::option::'):
            v = s[2][0]
            continue
        return s
    return v


# ---- "not modified in place on the way" -----------------------------------------------------------------------------------
# Symbolic values describe where a value comes from; an in-place change (`plan.entries.dedup_by(..)`, `key.make_ascii_uppercase()`)
# of the local that carries it does not show in them.  carried_locals follows a value backwards through moves / copies /
# aggregate operands / payload projections (and type-only conversions) to the calls that produced it; inplace_mutations
# lists the places where one of those locals, or a part of it, is borrowed mutably or assigned to.
def carried_locals(fn, starts, conv=_SAME_STRING):
    from .lib.mir import op_place
    seen, work = set(), list(starts)
    while work:
        l = work.pop()
        if l in seen or l == 0 and l not in starts:
            continue
        seen.add(l)
        if 1 <= l <= fn.argc:
            continue
        for d in fn.whole_defs(l):
            if d[0] == 'stmt':
                rv = d[3]
                if rv['r'] in ('use', 'cast'):
                    p = op_place(rv['o'])
                    if p:
                        work.append(p[0])
                elif rv['r'] == 'agg':
                    for o in rv['ops']:
                        p = op_place(o)
                        if p:
                            work.append(p[0])
            elif d[0] == 'call':
                c = d[3]
                if not c.indirect and len(c.args) == 1 and (c.decl or c.name or '').endswith(conv):
                    p = op_place(c.args[0])
                    if p:
                        work.append(p[0])
    return seen


def inplace_mutations(fn, locals_, allow=None):
    """`allow(fn, local)`: the mutable borrows of that local are accounted for otherwise (a Vec grown by push only, whose
    pushes are read as its contents)"""
    out = []
    for l in sorted(locals_):
        for bi, kind, idx, how, pl in fn.uses_of(l):
            if kind == 'stmt' and how == 'refmut' and not (allow is not None and allow(fn, l)):
                # a reborrow of a `&mut` parameter's referent that is only handed back is not a change of the carried value
                line = fn.blocks[bi]['s'][idx][3] if len(fn.blocks[bi]['s'][idx]) > 3 else '?'
                out.append('%s%s is borrowed mutably (%s:%s)' % (fn.local_name(l) or '_%d' % l, ''.join(str(x) for x in pl[1:]), fn.file, line))
        for d in fn.partial_defs(l):
            out.append('%s is partly overwritten' % (fn.local_name(l) or '_%d' % l))
    return out


# ---- what a phase entry point is handed ---------------------------------------------------------------------------------
_FORCE = ('std::result::Result::<T, E>::unwrap', 'std::result::Result::<T, E>::expect', 'std::option::Option::<T>::unwrap',
          'std::option::Option::<T>::expect')
_FORCE_ELSE = ('std::result::Result::<T, E>::unwrap_or_else', 'std::option::Option::<T>::unwrap_or_else')


def _ctor_variant(prog, v):
    """(enum path, variant name, payload values) when v constructs a variant of an enum (aggregate, or the variant's
    constructor applied as a function: `.map(Self::Detect)`), else None"""
    if v[0] == 'agg' and v[2] is not None:
        return v[1], v[2], tuple(x for _, x in v[3])
    if v[0] == 'call' and v[1] not in prog.fns and '::' in v[1]:
        enum, var = v[1].rsplit('::', 1)
        a = prog.adts.get(enum)
        if a and any(x.get('name') == var for x in a['variants']):
            return enum, var, tuple(v[2])
    return None


def handed_alts(sl, prog, v, depth=0):
    """the alternative values `v` can take where it is used, with "failure never gets here" resolved: `?`, unwrap / expect and
    unwrap_or_else(<closure that never returns>) denote the success payload of each alternative of their receiver (literal
    failures have none); a payload projection `(x as V).0` selects, among the alternatives of x, those that construct
    variant V (alternatives constructing another variant of the same enum never reach this use). Values that do not
    decompose are returned as they are."""
    from .lib.discard import diverges
    if depth > 12 or not isinstance(v, tuple) or not v:
        return [v]
    if v[0] == 'updated':
        return handed_alts(sl, prog, v[1], depth + 1)
    if v[0] == 'phi':
        return [y for x in v[1] for y in handed_alts(sl, prog, x, depth + 1)]
    if v[0] == 'unwrap':
        out = []
        for y in handed_alts(sl, prog, v[1], depth + 1):
            p = _peel(sl, y, 1)
            if p is not None:
                out.extend(handed_alts(sl, prog, p, depth + 1))
        return out
    if v[0] == 'call' and v[2]:
        forced = v[1] in _FORCE
        if v[1] in _FORCE_ELSE and len(v[2]) == 2 and v[2][1][0] in ('closure', 'fnitem'):
            g = prog.fns.get(v[2][1][1])
            forced = g is not None and diverges(g)
        if forced:
            return handed_alts(sl, prog, ('unwrap', v[2][0]), depth + 1)
    if v[0] == 'field' and isinstance(v[1], tuple) and v[1][0] == 'variant':
        var = v[1][2]
        out = []
        for y in handed_alts(sl, prog, v[1][1], depth + 1):
            cv = _ctor_variant(prog, _strip(y))
            if cv is None:
                return [v]
            enum, name, payload = cv
            if name == var:
                if not (v[2].isdigit() and int(v[2]) < len(payload)):
                    return [v]
                out.extend(handed_alts(sl, prog, payload[int(v[2])], depth + 1))
            else:
                a = prog.adts.get(enum)
                if not (a and any(x.get('name') == var for x in a['variants'])):
                    return [v]      # not the same enum: undecided
        return out
    return [v]


# ---- closures handed to Option / Result combinators ---------------------------------------------------------------------
def closure_binding(E, g):
    """for a closure g handed to an Option / Result combinator in the function that creates it: (combinator Call, {(g.path, 1):
    value its parameter receives}) in the creating function's terms — ('unwrap_err', recv) for or_else / unwrap_or_else /
    map_err .., ('unwrap', recv) for map / and_then .. (lib.effects' combinator table); None when g is not used that way"""
    if g.kind != 'Closure' or not g.parent or g.parent not in E.prog.fns:
        return None
    par = E.prog.fns[g.parent]
    sl = E.slicer
    for c in par.calls:
        if c.indirect or len(c.args) < 2:
            continue
        for a in c.args[1:]:
            v = sl.operand(par, a)
            if isinstance(v, tuple) and v and v[0] == 'closure' and v[1] == g.path:
                recv = sl.operand(par, c.args[0])
                b = E._comb_binding(c, recv)
                if b is None:
                    return None
                if (c.decl or '').startswith('std::result::Result::') and (c.decl or '').endswith('::map_or_else') and a is c.args[1]:
                    b = ('unwrap_err', recv)
                return c, {(g.path, 1): b}
    return None


# ---- where a mutable borrow ends up ----------------------------------------------------------------------------------------
def _ref_sinks(fn, r, depth=0):
    """the uses of reference local r, reborrows followed: [(Call, argument index)] or None when it is used in any other way
    (stored, returned, written through)"""
    if depth > 6:
        return None
    out = []
    for bi, kind, idx, how, pl in fn.uses_of(r):
        if kind == 'arg':
            c = fn.call_at(bi)
            if c is None:
                return None
            out.append((c, idx))
        elif kind == 'stmt' and how in ('refmut', 'ref') and list(pl[1:]) == ['*']:
            st = fn.blocks[bi]['s'][idx]
            if len(st[1]) != 1:
                return None
            sub = _ref_sinks(fn, st[1][0], depth + 1)
            if sub is None:
                return None
            out.extend(sub)
        elif kind == 'stmt' and how in ('m', 'c') and not list(pl[1:]):
            st = fn.blocks[bi]['s'][idx]
            if len(st[1]) != 1 or st[2]['r'] not in ('use', 'cast'):
                return None
            sub = _ref_sinks(fn, st[1][0], depth + 1)
            if sub is None:
                return None
            out.extend(sub)
        elif kind == 'drop':
            continue
        else:
            return None
    if fn.partial_defs(r):
        return None      # written through the reference
    return out


def mut_borrow_sinks(fn, local):
    """for every place where `local` (as a whole) is borrowed mutably: the call arguments the borrow is handed to.
    [(Call, argument index)], or None when some mutable borrow of it (or of a part of it) is used otherwise"""
    out = []
    for bi, kind, idx, how, pl in fn.uses_of(local):
        if kind == 'stmt' and how == 'refmut':
            if list(pl[1:]):
                return None
            st = fn.blocks[bi]['s'][idx]
            if len(st[1]) != 1:
                return None
            sub = _ref_sinks(fn, st[1][0])
            if sub is None:
                return None
            out.extend(sub)
    return out


# ---- fs::read_to_string, written out ------------------------------------------------------------------------------------------
# std defines fs::read_to_string(p) as: open the file at p for reading, read it to its end into a fresh String, hand the
# String back; every failure is returned.  A private helper that does literally that (`let mut s = String::new();
# File::open(p)?.read_to_string(&mut s)?; Ok(s)`) is the same input read and is read as `fs::read_to_string(p)`.
_NEW_STRING = ('std::string::String::new', '<std::string::String as std::default::Default>::default', 'std::string::String::with_capacity')


def read_to_string_equiv(prog, sl, g):
    """index of the parameter P when private function g(.., P, ..) is fs::read_to_string(P) written out; else None"""
    from .lib.discard import result_fates, verdict
    from .lib.effects import success_sites
    from .lib.mir import op_place
    if g.kind not in ('Fn', 'AssocFn') or g.vis == 'pub' or not g.ret.startswith('std::result::Result<std::string::String,'):
        return None
    sites = success_sites(g)
    if not sites:
        return None
    bufs = set()
    for st in sites:
        if st.kind != 'ok' or st.stmt.get('r') != 'agg' or st.stmt.get('variant') != 'Ok' or len(st.stmt.get('ops', ())) != 1:
            return None
        p = op_place(st.stmt['ops'][0])
        if not p or len(p) != 1:
            return None
        l = p[0]
        for _ in range(6):      # moves
            ds = g.whole_defs(l)
            if len(ds) == 1 and ds[0][0] == 'stmt' and ds[0][3]['r'] == 'use' and op_place(ds[0][3]['o']) and len(op_place(ds[0][3]['o'])) == 1:
                l = op_place(ds[0][3]['o'])[0]
            else:
                break
        bufs.add(l)
    if len(bufs) != 1:
        return None
    s = bufs.pop()
    br = buffer_read(prog, sl, g, s)
    if br is None:
        return None
    c, pth = br
    # every other use of the buffer is the move into the returned Ok (or its drop on a failure path)
    for bi, kind, idx, how, pl in g.uses_of(s):
        if kind == 'drop' or (kind == 'stmt' and how == 'refmut'):
            continue
        if kind == 'stmt' and how in ('m', 'c') and not list(pl[1:]) and g.blocks[bi]['s'][idx][2]['r'] == 'use':
            continue
        return None
    p = same_string(_strip(pth))
    if p[0] != 'param' or p[1] != g.path:
        return None
    # every success comes after the read
    if not all(g.dominates(c.bb, st.bb) for st in sites):
        return None
    return p[2]


def buffer_read(prog, sl, g, s):
    """(read Call, path value P) when local `s` of g is a String that starts empty and whose only mutable use is to be filled by
    `File::open(P)?.read_to_string(&mut s)` with the failures of both the open and the read handed on — i.e. from the read
    call on (where it succeeded) s holds fs::read_to_string(P)?; else None"""
    from .lib.discard import result_fates, verdict
    ds = g.whole_defs(s)
    if len(ds) != 1 or ds[0][0] != 'call' or ds[0][3].indirect or ds[0][3].name not in _NEW_STRING or g.partial_defs(s):
        return None
    sinks = mut_borrow_sinks(g, s)
    if not sinks or len(sinks) != 1:
        return None
    c, ai = sinks[0]
    if c.indirect or c.decl != 'std::io::Read::read_to_string' or ai != 1 or len(c.args) != 2:
        return None
    # the reader is the file at P, freshly opened for reading, the failure to open it propagated
    recv = sl.operand(g, c.args[0])
    opened = None
    for x in walk(recv):
        if x[0] == 'unwrap' and _strip_adapters(x)[0] == 'call' and _strip_adapters(x)[1] == 'std::fs::File::open':
            opened = _strip_adapters(x)
            break
    r0 = _strip_adapters(recv)
    for _ in range(6):
        if r0[0] == 'ref' and len(r0) > 1 and isinstance(r0[1], tuple):
            r0 = _strip_adapters(r0[1])
        elif r0[0] == 'call' and len(r0[2]) == 1 and r0[1].startswith('std::io::BufReader') and r0[1].endswith('::new'):
            r0 = _strip_adapters(r0[2][0])      # a buffered reader around the file reads the same bytes
        else:
            break
    if opened is None or r0 != opened or len(opened[2]) != 1:
        return None
    # the read's failure is returned; the buffer is filled once (not in a loop that could append a second file)
    if verdict(result_fates(prog, g, c)) != 'ok' or g.in_loop(c.bb):
        return None
    return c, opened[2][0]


def inline_buffer_reads(prog, sl, g):
    """{creation site of a String buffer in g: (read Call, P)} for the buffers of g that are fs::read_to_string(P) written out
    in place (buffer_read): a use of such a buffer that the read call dominates sees the text of the file at P"""
    out = {}
    for c in g.calls:
        if not c.indirect and c.name in _NEW_STRING and c.dest and len(c.dest) == 1:
            br = buffer_read(prog, sl, g, c.dest[0])
            if br is not None:
                out[(g.path, c.bb)] = br
    return out


# ---- collect first, insert afterwards -------------------------------------------------------------------------------------
# `let mut files = Vec::new(); for .. { files.push((name, content)) } .. for (k, v) in files { env.insert(k, v) }` inserts what
# was pushed: the elements of a Vec that starts empty and is only grown by push are the pushed values, each under the
# guards of its push.  In-place growth does not show in symbolic values (the Vec reads `Vec::new()`), so the element of an
# iteration over such a Vec is replaced by the argument of every push *effect* on that same Vec (same creation site).
_NEW_VEC = ('std::vec::Vec::<T>::new', 'std::vec::Vec::<T>::with_capacity', '<std::vec::Vec<T> as std::default::Default>::default')
PUSH = ('std::vec::Vec::<T, A>::push', 'std::vec::Vec::<T>::push')
_IT_NEXT = 'std::iter::Iterator::next'


def _iter_source(v):
    """the collection an iterator value ranges over (`into_iter` / `iter` / `drain` .. peeled)"""
    from .lib import iters
    for _ in range(8):
        v = _strip(v)
        if v[0] == 'call' and len(v[2]) == 1 and (v[1].endswith(iters.SAME_ELEMS) or v[1] in iters.SAME or v[1] == 'std::iter::IntoIterator::into_iter'):
            v = v[2][0]
            continue
        break
    return v


def _fresh_vec(v):
    v = _strip(v)
    return v[0] == 'call' and v[1] in _NEW_VEC and len(v) > 3 and v[3] is not None and (not v[2] or v[1].endswith('with_capacity'))


def collected_elements(v):
    """sub-values `unwrap(next(it))` of v whose iterator ranges over a Vec that was created empty: [(subterm, Vec value)]"""
    out = []
    for x in walk(v):
        if x[0] == 'unwrap' and isinstance(x[1], tuple) and x[1][0] == 'call' and x[1][1] == _IT_NEXT and x[1][2]:
            src = _iter_source(x[1][2][0])
            if _fresh_vec(src) and all(x != y for y, _ in out):
                out.append((x, src))
    return out


def expand_collected(E, cases, push_effs, order_ok=None):
    """cases: [(key, value, guards, pushes used)] of an effect.  Every case whose key / value is (part of) the element of an
    iteration over a grown Vec is replaced by one case per push effect on that Vec (value substituted, the push's guards
    added); cases without such an element are returned unchanged.  A grown Vec nothing is pushed to yields no case."""
    from .lib.effects import guards_of
    sl = E.slicer
    out = []
    work = [(c[0], c[1], c[2], ()) for c in cases]
    rounds = 0
    while work and rounds < 64:
        rounds += 1
        k, v, gs, used = work.pop(0)
        ce = collected_elements(('tuple', (k, v)))
        if not ce or len(used) >= 3:
            out.append((k, v, gs, used))
            continue
        sub, vec = ce[0]
        for p in push_effs:
            if len(p.args) < 2 or _strip(p.args[0]) != _strip(vec):      # (the value carries its creation site)
                continue
            if order_ok is not None and not order_ok(p):
                out.append((('unknown', 'pushed after the iteration'), ('unknown', 'pushed after the iteration'), gs, used + (p,)))
                continue
            own = guards_of(E, p)
            for pv, g2 in resolve(E, p.args[1]):
                nk, nv = norm(sl, _replace(k, sub, pv)), norm(sl, _replace(v, sub, pv))
                work.append((nk, nv, gs + own + g2, used + (p,)))
    return out


def grown_by_push_only(fn, local):
    """`local` is a Vec created empty in fn whose every mutable borrow is the receiver of Vec::push: its contents are exactly
    the pushed values (modelled as effects), no element is changed, removed or reordered in place"""
    ds = fn.whole_defs(local)
    if len(ds) != 1 or ds[0][0] != 'call' or ds[0][3].indirect or ds[0][3].name not in _NEW_VEC or fn.partial_defs(local):
        return False
    sinks = mut_borrow_sinks(fn, local)
    return sinks is not None and all(ai == 0 and not c.indirect and c.name in PUSH for c, ai in sinks)


def collection_locals(fn, loop):
    """locals that carry the collection a loop iterates over (the iterator, what it was made from by iter / into_iter / moves /
    borrows), back to the call or projection that produced it"""
    from .lib import iters
    from .lib.mir import op_place
    p0 = op_place(loop.next_call.args[0]) if loop.next_call.args else None
    seen, work = set(), [p0[0]] if p0 else []
    while work:
        l = work.pop()
        if l in seen or l == 0:
            continue
        seen.add(l)
        if 1 <= l <= fn.argc:
            continue
        for d in fn.whole_defs(l):
            if d[0] == 'stmt':
                rv = d[3]
                if rv['r'] in ('use', 'cast'):
                    p = op_place(rv['o'])
                    if p:
                        work.append(p[0])
                elif rv['r'] == 'ref':
                    work.append(rv['p'][0])
            elif d[0] == 'call':
                c = d[3]
                nm = c.decl or c.name or ''
                if not c.indirect and len(c.args) == 1 and (nm.endswith(iters.SAME_ELEMS) or nm in iters.SAME or nm == 'std::iter::IntoIterator::into_iter'):
                    p = op_place(c.args[0])
                    if p:
                        work.append(p[0])
    return seen


def collection_mutations(fn, locals_):
    """places where a local carrying an iterated collection is changed in place: a mutable borrow that is not just the
    receiver of Iterator::next (pulling the next element) or of Vec::push on a Vec grown from empty; partial overwrites"""
    out = []
    for l in sorted(locals_):
        ty = fn.locals[l]['ty']
        for bi, kind, idx, how, pl in fn.uses_of(l):
            if kind != 'stmt' or how != 'refmut':
                continue
            if ty.startswith('&') and list(pl[1:]) == ['*']:
                continue        # a reborrow of a reference that is itself followed
            st = fn.blocks[bi]['s'][idx]
            sinks = _ref_sinks(fn, st[1][0]) if len(st[1]) == 1 and not list(pl[1:]) else None
            ok = sinks is not None and all(ai == 0 and not c.indirect and (c.decl == _IT_NEXT or (c.name in PUSH and grown_by_push_only(fn, l)))
                                          for c, ai in sinks)
            if not ok:
                line = st[3] if len(st) > 3 else '?'
                out.append('%s%s is borrowed mutably (%s:%s)' % (fn.local_name(l) or '_%d' % l, ''.join(str(x) for x in pl[1:]), fn.file, line))
        for d in fn.partial_defs(l):
            if not ty.startswith('&'):
                out.append('%s is partly overwritten' % (fn.local_name(l) or '_%d' % l))
    return out


# ---- an array filled slot by slot from a table ----------------------------------------------------------------------------
# `let mut vals: [T; N] = Default::default(); for (slot, row) in vals.iter_mut().zip(TABLE) { *slot = f(row)?; }` leaves
# vals[k] = f(TABLE[k]) once the loop is exhausted (slice::IterMut and a literal N-row table are walked in step, position by
# position).  The in-place fill does not show in symbolic values (vals[k] reads `default()[k]`): filled_array gives the slots.
_FILLED = {}
_FILLED_SRC = {}


def filled_array(E, fn, local):
    """{k: value of slot k} for an array local that is filled completely by one loop over `local.iter_mut().zip(<literal
    table>)` (either order) before anything reads it; None when the local is not of that shape"""
    key = (id(E.prog), fn.path, local)
    if key not in _FILLED:
        try:
            _FILLED[key] = _filled_array(E, fn, local)
        except (KeyError, IndexError, TypeError, AttributeError):
            _FILLED[key] = None
    return _FILLED[key]


def _filled_array(E, fn, local):
    from .lib import iters
    from .lib.guards import edge_dominates
    from .lib.mir import op_place
    from .lib.value import canon
    sl = E.slicer
    ty = fn.locals[local]['ty']
    if not (ty.startswith('[') and ty.endswith(']') and '; ' in ty and ty.rsplit('; ', 1)[1][:-1].isdigit()):
        return None
    n = int(ty.rsplit('; ', 1)[1][:-1])
    if len(fn.whole_defs(local)) != 1 or fn.partial_defs(local) or not 0 < n <= 12:
        return None
    sinks = mut_borrow_sinks(fn, local)
    if not sinks or len(sinks) != 1:
        return None
    ic, ai = sinks[0]
    if ic.indirect or ai != 0 or len(ic.args) != 1 or not (ic.name or '').endswith('::iter_mut') or not ('slice' in ic.name or 'array' in ic.name):
        return None
    site = (fn.path, ic.bb)
    for lp in E.loops(fn):
        cv = _strip(lp.collection) if lp.collection is not None else ('unknown',)
        while cv[0] == 'call' and len(cv[2]) == 1 and cv[1] == 'std::iter::IntoIterator::into_iter':
            cv = _strip(cv[2][0])
        if not (cv[0] == 'call' and cv[1] == iters.IT + 'zip' and len(cv[2]) == 2) or getattr(lp, 'exhaust', None) is None:
            continue
        sides = [_strip(x) for x in cv[2]]
        si = [i for i, x in enumerate(sides) if x[0] == 'call' and len(x) > 3 and x[3] == site]
        if len(si) != 1:
            continue
        si = si[0]
        rows = iters.alts(sl, sides[1 - si])
        if len(rows) != n or any(f is not None or fl for _, f, fl in rows):
            return None         # not a literal table of exactly N rows: lengths / positions are not known
        # the slot reference: the only thing done with position `si` of the element is to take it into one local ...
        nd = lp.next_call.dest
        if not nd or len(nd) != 1:
            return None
        slot_pl = [nd[0], '@Some', '.0', '.%d' % si]
        refs = []
        for bi, kind, idx, how, pl in fn.uses_of(nd[0]):
            if list(pl[:4]) == slot_pl:
                st = fn.blocks[bi]['s'][idx] if kind == 'stmt' else None
                if st is None or list(pl) != slot_pl or st[2]['r'] != 'use' or len(st[1]) != 1:
                    return None
                refs.append(st[1][0])
            elif list(pl) in ([nd[0]], [nd[0], '@Some'], [nd[0], '@Some', '.0']) and how != 'discr':
                return None     # the element is handed on as a whole
        if len(refs) != 1:
            return None
        r = refs[0]
        # ... which is only written through, as a whole, with one value
        if any(kind != 'drop' for bi, kind, idx, how, pl in fn.uses_of(r)) or len(fn.whole_defs(r)) != 1:
            return None
        writes = [d for d in fn.partial_defs(r)]
        if not writes or any(d[0] != 'stmt' or list(d[4]) != [r, '*'] for d in writes):
            return None
        vals = {}
        for d in writes:
            v = sl._rvalue(fn, d[3], set(), 0, None)
            vals[canon(v)] = v
        if len(vals) != 1:
            return None
        x = list(vals.values())[0]
        _FILLED_SRC[(id(E.prog), fn.path, local)] = sorted({op_place(d[3]['o'])[0] for d in writes if d[3].get('r') in ('use', 'cast') and op_place(d[3]['o'])})
        # every iteration that goes on to the next element has written its slot
        wbbs = {d[1] for d in writes}
        some_t = [b for b in fn.succs(lp.exhaust[0]) if b in lp.body]
        seen, work = set(), list(some_t)
        while work:
            b = work.pop()
            if b in seen or b in wbbs or b not in lp.body:
                continue
            if b == lp.header:
                return None
            seen.add(b)
            work.extend(fn.succs(b))
        # nothing reads the array before the loop is exhausted
        for bi, kind, idx, how, pl in fn.uses_of(local):
            if kind == 'drop' or (kind == 'stmt' and how == 'refmut'):
                continue
            if not edge_dominates(fn, lp.exhaust[0], lp.exhaust[1], bi):
                return None
        out = {}
        lk = iters.loop_key(lp.collection)
        for k, (row, _f, _fl) in enumerate(rows):
            pair = [None, None]
            pair[si], pair[1 - si] = ('unknown', 'slot %d' % k), row
            out[k] = norm(sl, E.subst(x, {'__repl__': [(lk, ('tuple', tuple(pair)))]}))
        return out
    return None


def resolve_filled(E, v, depth=0):
    """v with every `A[k]` whose A is an array local filled from a table (filled_array) replaced by that slot's value"""
    if depth > 6 or not isinstance(v, tuple) or not v:
        return v
    for x in walk(v):
        if x[0] == 'index' and isinstance(x[1], tuple) and isinstance(x[2], str) and x[2][1:-1].isdigit():
            b = _strip(x[1])
            if b[0] == 'call' and len(b) > 3 and b[3] and b[3][0] in E.prog.fns:
                fn = E.prog.fns[b[3][0]]
                c = fn.call_at(b[3][1])
                if c is not None and c.dest and len(c.dest) == 1:
                    fa = filled_array(E, fn, c.dest[0])
                    k = int(x[2][1:-1])
                    if fa is not None and k in fa:
                        return resolve_filled(E, _replace(v, x, fa[k]), depth + 1)
    return v


def carried_locals_filled(E, fn, starts):
    """carried_locals, continued through arrays filled from a table: what is written into their slots carries the value too"""
    starts = list(starts)
    for _ in range(4):
        cl = carried_locals(fn, starts)
        more = []
        for l in cl:
            if fn.locals[l]['ty'].startswith('[') and filled_array(E, fn, l) is not None:
                more.extend(x for x in _FILLED_SRC.get((id(E.prog), fn.path, l), ()) if x not in cl and x not in more)
        if not more:
            return cl
        starts.extend(more)
    return carried_locals(fn, starts)


# ---- robustness round 4: where a private helper lives / how it is declared does not matter ---------------------------------
def flow_helpers(prog, sl, values, keep=(), depth=8):
    """the workspace functions whose return value is (part of) one of `values` — exactly the functions that
    Slicer.inline_deep makes transparent when the values are brought to their normal form, wherever they are declared
    (another module, an associated function of the type they build, a generic helper): {path: Fn}, transitively"""
    seen = {}
    todo = list(values)
    while todo and depth > 0:
        nxt = []
        for v in todo:
            for x in walk(v):
                if isinstance(x, tuple) and x and x[0] == 'call' and x[1] in prog.fns and x[1] not in keep and x[1] not in seen:
                    g = prog.fns[x[1]]
                    if g.kind == 'Closure':
                        continue
                    seen[x[1]] = g
                    nxt.append(sl.local(g, 0))
        todo = nxt
        depth -= 1
    return seen


def baseline_names(prog):
    """{current path: baseline path} for private functions that were moved *and* changed their declaration kind (a free
    function re-homed as an associated function of the type it builds, or the other way round).  lib/mir's
    read_under_baseline_names identifies a baseline function that is gone with the unique new function of identical
    signature, but compares the kind (Fn / AssocFn) too; here the kind is left out: same crate, same argument and return
    types, exactly one baseline function missing and exactly one new non-public function with that signature.  Only the
    *name a finding is reported under* is taken from this; the bodies analysed are always the current ones."""
    cached = getattr(prog, '_c06_baseline_names', None)
    if cached is not None:
        return cached
    out = {}
    try:
        import json
        from .lib.mir import BASELINE
        with open(BASELINE) as fh:
            base = json.load(fh)['fns']
    except (OSError, ValueError, KeyError, ImportError):
        base = {}
    if base:
        cur = {p: g for p, g in prog.fns.items() if g.kind in ('Fn', 'AssocFn') and not p.startswith('<')}
        sig = lambda crate, args, ret: (crate, tuple(args), ret)
        crates = {g.crate for g in cur.values()}
        missing = {p: sig(s[0], s[2], s[3]) for p, s in base.items() if p not in cur and s[0] in crates and s[1] in ('Fn', 'AssocFn')}
        fresh = {p: sig(g.crate, g.args, g.ret) for p, g in cur.items() if p not in base and g.vis != 'pub'}
        for p, s in sorted(missing.items()):
            cands = [q for q, t in fresh.items() if t == s]
            others = [m for m, t in missing.items() if t == s]
            if len(cands) == 1 and len(others) == 1:
                out[cands[0]] = p
    prog._c06_baseline_names = out
    return out


def reported_name(prog, fn):
    """the path a function (or a closure inside it) is reported under: its baseline name where it was only moved"""
    names = baseline_names(prog)
    p = fn.path
    if p in names:
        return names[p]
    for q, b in names.items():
        if p.startswith(q + '::{closure'):
            return b + p[len(q):]
    return p


_HAND_ON = ('std::ops::Try::branch', 'std::result::Result::<T, E>::map_err', 'std::result::Result::<T, E>::inspect_err',
            'std::result::Result::<T, E>::inspect', 'std::option::Option::<T>::inspect')


def carried_locals_through(E, fn, starts, helpers):
    """carried_locals_filled, continued through the hand-over to a private helper that builds (part of) the value: the
    arguments of a call to one of `helpers` (paths; flow_helpers of the value) carry its parts, as do the receiver of `?` /
    map_err / inspect_err in front of it and the referent of a shared borrow handed to it.  So "not modified in place between
    its source and the hand-over" covers the locals of the caller whether the struct literal is written in the caller or in a
    constructor-like helper the caller passes the parts to."""
    from .lib.mir import op_place
    starts = list(starts)
    cl = carried_locals_filled(E, fn, starts)
    for _ in range(8):
        more = []
        for l in cl:
            if 1 <= l <= fn.argc:
                continue
            for d in fn.whole_defs(l):
                ops = []
                if d[0] == 'call':
                    c = d[3]
                    if c.indirect:
                        continue
                    if c.name in helpers:
                        ops = list(c.args)
                    elif c.name in _HAND_ON or c.decl in _HAND_ON:
                        ops = list(c.args[:1])
                elif d[0] == 'stmt' and d[3]['r'] == 'ref' and not d[3].get('mut'):
                    if d[3]['p'][0] not in cl and d[3]['p'][0] not in more:
                        more.append(d[3]['p'][0])
                for o in ops:
                    p = op_place(o)
                    if p and p[0] not in cl and p[0] not in more:
                        more.append(p[0])
        if not more:
            return cl
        starts.extend(more)
        cl = carried_locals_filled(E, fn, starts)
    return cl


def find_fn(prog, path):
    """the function the rules know under `path` on the pinned tree: itself, or — when it is gone — the function that
    baseline_names identifies with it (moved and re-declared, e.g. a free function turned into an associated function of
    the type it returns).  Raises like Program.fn when there is neither."""
    g = prog.fns.get(path)
    if g is not None:
        return g
    for cur, base in baseline_names(prog).items():
        if base == path and cur in prog.fns:
            return prog.fns[cur]
    return prog.fn(path)


def name_by_role(prog, sl, values, builds, baseline_path):
    """Role-based naming where the signature changed together with the move: among the functions whose return value is part
    of `values` (flow_helpers), the one whose success payload is a literal of the type `builds` *is* the function the rules
    know as `baseline_path` (e.g. "the function that assembles the context's Target" = libcnb::runtime::context_target),
    provided that path is gone and exactly one function has that role.  Affects reported names / find_fn only."""
    names = baseline_names(prog)
    if baseline_path in prog.fns or baseline_path in names.values():
        return
    cands = []
    for path, g in flow_helpers(prog, sl, values).items():
        rv = _strip(sl.mk_unwrap(sl.local(g, 0), 1))
        if rv[0] != 'agg':
            rv = _strip(sl.local(g, 0))
        if rv[0] == 'agg' and (rv[1] or '').endswith(builds) and path not in names:
            cands.append(path)
    if len(cands) == 1:
        names[cands[0]] = baseline_path


# ---- an optional listing is absent only where the listing failed --------------------------------------------------------------
def absent_listing_problems(E, fns, is_listing):
    """The listing may be carried as an Option (`None` for the tolerated missing directory).  Iterating / matching that Option is
    read as "the listing, when there is one" (option_iter_norm, option_alternatives), so the `None` must not be a way to drop a
    listing that *was* read: every literal `None` written to a local of type Option<..ReadDir..> in `fns` has to sit on a path
    where the listing (is_listing(root call value)) has failed — which error kinds may end there is listing-tolerance's part.
    -> ([problem], undecided?)"""
    from .lib.value import vstr
    sl = E.slicer
    probs, undecided = [], False
    for g in fns:
        for l in range(len(g.locals)):
            ty = g.locals[l]['ty']
            if not (ty.startswith('std::option::Option<') and 'std::fs::ReadDir' in ty):
                continue
            for d in g.whole_defs(l):
                if not (d[0] == 'stmt' and d[3]['r'] == 'agg' and d[3].get('variant') == 'None'):
                    continue
                ok = any(cd.kind == 'variant' and cd.subject is not None and cd.outcome and cd.outcome <= frozenset({'Err', 'Break'})
                         and is_listing(success_root(cd.subject)) for cd in conditions_ctx(E.prog, g, d[1], sl))
                if not ok and g.kind == 'Closure':
                    cb = closure_binding(E, g)
                    pb = cb[1].get((g.path, 1)) if cb else None
                    if pb is not None and pb[0] == 'unwrap_err' and is_listing(success_root(pb[1])):
                        ok = True
                    elif pb is None:
                        undecided = True
                        continue
                if not ok:
                    probs.append('%s: the listing is replaced by None (%s:%s) on a path where it has not failed'
                                 % (g.path.split('::')[-1], g.file, (g.blocks[d[1]]['s'][d[2]] + ['?'] * 4)[3] if isinstance(g.blocks[d[1]]['s'][d[2]], list) else '?'))
    return probs, undecided


def buffer_fillers(g, s):
    """the calls a mutable borrow of local s is handed to ([(Call, argument index)]; None: used in a way that is not followed)"""
    return mut_borrow_sinks(g, s)


def io_read_to_string_path(v):
    """P when v is `std::io::read_to_string(File::open(P)?)` (also through a BufReader): the same read as fs::read_to_string(P)
    with the failure to open the file handed on; else None"""
    v = _strip(v)
    if not (v[0] == 'call' and v[1] == 'std::io::read_to_string' and len(v[2]) == 1):
        return None
    r = v[2][0]
    for _ in range(6):
        if r[0] == 'updated':
            r = r[1]
        elif r[0] == 'ref' and len(r) > 1 and isinstance(r[1], tuple):
            r = r[1]
        elif r[0] == 'call' and len(r[2]) == 1 and r[1].startswith('std::io::BufReader') and r[1].endswith('::new'):
            r = r[2][0]
        else:
            break
    if r[0] == 'unwrap':
        o = _strip_adapters(r)
        if o[0] == 'call' and o[1] == 'std::fs::File::open' and len(o[2]) == 1:
            return o[2][0]
    return None
