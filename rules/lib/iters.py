"""Iterator algebra: what are the elements of an iterator expression?

`for x in xs { f(x) }`, `xs.iter().for_each(|x| f(x))`, `xs.iter().map(g).try_for_each(h)` and a loop over
`once(a).chain(xs.iter().map(g)).collect::<Vec<_>>()` all run the same effects for the same elements.  `alts(sl, v)`
decomposes the symbolic value of an iterated expression into alternatives

    [(element value, collection the element ranges over | None for a single concrete element, filtered?)]

so that the effect expansion can treat closures handed to iterator adapters like loop bodies, and loops over literal
tables row by row.
"""
from .value import canon

IT = 'std::iter::Iterator::'
# adapters whose elements are the receiver's elements (possibly fewer -> filtered)
SAME = {IT + 'rev', IT + 'peekable', IT + 'by_ref', IT + 'fuse', IT + 'cloned', IT + 'copied', IT + 'inspect',
        'std::iter::DoubleEndedIterator::rev'}
FEWER = {IT + 'filter', IT + 'take', IT + 'skip', IT + 'take_while', IT + 'skip_while', IT + 'step_by'}
# adapters that drop elements by *position* (everything after / before some point), not by a per-element test: the
# `filtered` flag of alts() is the string 'trunc' for them (still truthy), and closures of earlier stages do not run for
# every element when a later stage stops pulling
TRUNCATING = {IT + 'take', IT + 'skip', IT + 'take_while', IT + 'skip_while', IT + 'step_by', IT + 'map_while', IT + 'scan'}
STOPS_EARLY = {IT + 'take', IT + 'take_while', IT + 'map_while', IT + 'scan'}


def _fl(*flags):
    if 'trunc' in flags:
        return 'trunc'
    return any(flags)
# calls producing an iterator over their first argument's elements
SOURCES_RX = ('::iter', '::iter_mut', '::into_iter', '::drain', '::values', '::into_values', '::into_keys', '::keys')
SAME_ELEMS = ('::iter', '::iter_mut', '::into_iter', '::drain')
COLLECTING = {IT + 'collect', 'std::iter::FromIterator::from_iter', 'std::vec::Vec::<T>::from_iter'}
# consumers that visit every element (short-circuit only on failure)
CONSUME_EACH = {IT + 'try_for_each': 1, IT + 'for_each': 1}
CONSUME_ALL = {IT + 'collect', IT + 'count', IT + 'last', IT + 'sum', IT + 'product', IT + 'fold', IT + 'try_fold',
               IT + 'unzip', IT + 'partition', IT + 'max', IT + 'min', IT + 'max_by', IT + 'max_by_key', IT + 'min_by',
               IT + 'min_by_key', IT + 'reduce', 'std::iter::Extend::extend', 'std::iter::FromIterator::from_iter'}
LAZY_WITH_CLOSURE = {IT + 'map', IT + 'filter', IT + 'filter_map', IT + 'flat_map', IT + 'inspect', IT + 'take_while',
                     IT + 'skip_while', IT + 'map_while', IT + 'scan'}


def elem_of(coll):
    return ('unwrap', ('call', IT + 'next', (coll,), None))


def loop_key(coll):
    return canon(elem_of(coll))


def _is_source(name):
    return any(name.endswith(s) for s in SOURCES_RX) and not name.startswith(IT)


def alts(sl, v, depth=0):
    """[(elem, forall, filtered)] for iterating the value v"""
    if depth > 8 or not isinstance(v, tuple) or not v:
        return [(elem_of(v), v, False)]
    k = v[0]
    if k == 'unwrap' or k == 'updated':
        inner = alts(sl, v[1], depth + 1)
        if not (len(inner) == 1 and inner[0][1] is not None and canon(inner[0][1]) == canon(v[1])):
            return inner
        return [(elem_of(v), v, False)]
    if k == 'array' and 0 < len(v[1]) <= 12:
        return [(x, None, False) for x in v[1]]
    if k == 'phi':
        out = []
        for x in v[1]:
            out.extend(alts(sl, x, depth + 1))
        return out
    if k == 'call' and v[2]:
        name, args = v[1], v[2]
        if name == 'std::iter::once' and len(args) == 1:
            return [(args[0], None, False)]
        if name == 'std::iter::empty':
            return []
        if name == IT + 'chain' and len(args) == 2:
            return alts(sl, args[0], depth + 1) + alts(sl, args[1], depth + 1)
        if name in SAME:
            return alts(sl, args[0], depth + 1)
        if name in FEWER:
            return [(e, f, _fl(fl, 'trunc' if name in TRUNCATING else True)) for e, f, fl in alts(sl, args[0], depth + 1)]
        if name == IT + 'enumerate':
            return [(('tuple', (('unknown', 'index'), e)), f, fl) for e, f, fl in alts(sl, args[0], depth + 1)]
        if name == IT + 'zip' and len(args) == 2:
            a, b = alts(sl, args[0], depth + 1), alts(sl, args[1], depth + 1)
            if len(a) == 1 and len(b) == 1:
                return [(('tuple', (a[0][0], b[0][0])), a[0][1], True)]
        if name == IT + 'map' and len(args) == 2:
            out = []
            for e, f, fl in alts(sl, args[0], depth + 1):
                r = sl.apply_closure(args[1], (e,))
                out.append((r if r is not None else ('call', 'closure-result', (args[1], e), None), f, fl))
            return out
        if name in (IT + 'filter_map', IT + 'map_while') and len(args) == 2:
            out = []
            for e, f, fl in alts(sl, args[0], depth + 1):
                r = sl.apply_closure(args[1], (e,))
                out.append((('unwrap', r) if r is not None else ('unknown', 'filter_map'), f,
                            _fl(fl, 'trunc' if name in TRUNCATING else True)))
            return out
        if name == IT + 'flat_map' and len(args) == 2:
            out = []
            for e, f, fl in alts(sl, args[0], depth + 1):
                r = sl.apply_closure(args[1], (e,))
                if r is None:
                    return [(elem_of(v), v, False)]
                for e2, f2, fl2 in alts(sl, r, depth + 1):
                    out.append((e2, f if f is not None else f2, _fl(fl, fl2, f is not None and f2 is not None)))
            return out
        if name == IT + 'flatten' and len(args) == 1:
            out = []
            for e, f, fl in alts(sl, args[0], depth + 1):
                for e2, f2, fl2 in alts(sl, e, depth + 1):
                    out.append((e2, f if f is not None else f2, _fl(fl, fl2)))
            return out
        if name in COLLECTING:
            return alts(sl, args[0], depth + 1)
        if _is_source(name) and len(args) == 1:
            if name.endswith(SAME_ELEMS):
                # `xs.iter()` visits what `for x in &xs` visits: name the elements after the collection itself
                return alts(sl, args[0], depth + 1)
            return [(elem_of(v), v, False)]
    return [(elem_of(v), v, False)]


def trivial(al, v):
    return len(al) == 1 and al[0][1] is not None and canon(al[0][1]) == canon(v) and not al[0][2]


def stages(v, depth=0, _stopped=False, with_stop=False):
    """closures of the lazy adapter stages of an iterator expression, innermost first:
    [(adapter name, closure value, receiver value)]; with_stop=True adds a 4th component: does a *later* stage stop
    pulling early (take / take_while / map_while / scan), so that this stage's closure does not see every element"""
    out = []
    stopped = _stopped
    while depth < 12 and isinstance(v, tuple) and v and v[0] == 'call' and v[2]:
        name, args = v[1], v[2]
        if name in LAZY_WITH_CLOSURE and len(args) == 2:
            # the closure of a stopping adapter itself runs until it says stop: it does not see every element either
            out.append((name, args[1], args[0], stopped or name in STOPS_EARLY))
            stopped = stopped or name in STOPS_EARLY
            v = args[0]
        elif name in SAME or name in FEWER or name in COLLECTING or name == IT + 'enumerate' or _is_source(name):
            stopped = stopped or name in STOPS_EARLY
            v = args[0]
        elif name == IT + 'chain' and len(args) == 2:
            out.extend(reversed(stages(args[1], depth + 1, stopped, True)))
            v = args[0]
        else:
            break
        depth += 1
    out.reverse()
    return out if with_stop else [x[:3] for x in out]
