"""A4/A6/A8 — effect vocabulary, success-site summaries (MUST / MAY effects), loops, inlining.

An *effect* is a call to a std/extern function listed in VOCAB (file-system mutation, read, stat,
process exit, printing, env read, spawn, nondeterminism source, user callback).  For a function f and
one of its *success sites* S (a definition of the return place that can carry a success value):

  MUST(S) = effects at call sites whose block dominates S (they happen on every path reaching S;
            combined with the Result-fate rule "not discarded" this means they succeeded),
            plus FORALL effects of loops that dominate S (effect call dominates every latch);
  MAY(S)  = effects at call sites lying on some entry->S path.

Calls into workspace functions are expanded recursively: MUST takes the callee's effects that dominate
*all* of its success sites, MAY takes everything reachable in the callee (closures and fn items handed
to a call are MAY).  Path arguments are symbolic values (value.py) substituted into the entry
function's terms.
"""
from .mir import op_place, op_const
from .value import walk
from . import iters

# name -> (kind, index of the path-like argument or None)
VOCAB = {
    'std::fs::remove_file': ('REMOVE_FILE', 0),
    'std::fs::remove_dir': ('REMOVE_DIR', 0),
    'std::fs::remove_dir_all': ('REMOVE_TREE', 0),
    'std::fs::set_permissions': ('CHMOD', 0),
    'std::fs::read_dir': ('LIST', 0),
    'std::fs::create_dir': ('MKDIR', 0),
    'std::fs::create_dir_all': ('MKDIR', 0),
    'std::fs::write': ('WRITE', 0),
    'std::fs::File::create': ('WRITE', 0),
    'std::fs::File::create_new': ('WRITE', 0),
    'std::fs::copy': ('WRITE', 1),
    'std::os::unix::fs::symlink': ('WRITE', 1),
    'std::fs::hard_link': ('WRITE', 1),
    'std::fs::rename': ('RENAME', 1),
    'std::fs::OpenOptions::open': ('OPEN', 1),
    'std::fs::read': ('READ', 0),
    'std::fs::read_to_string': ('READ', 0),
    'std::fs::File::open': ('READ', 0),
    'std::fs::read_link': ('READ', 0),
    'std::path::Path::exists': ('STAT_FOLLOW', 0),
    'std::path::Path::try_exists': ('STAT_FOLLOW', 0),
    'std::path::Path::is_dir': ('STAT_FOLLOW', 0),
    'std::path::Path::is_file': ('STAT_FOLLOW', 0),
    'std::path::Path::metadata': ('STAT_FOLLOW', 0),
    'std::fs::metadata': ('STAT_FOLLOW', 0),
    'std::fs::canonicalize': ('STAT_FOLLOW', 0),
    'std::path::Path::canonicalize': ('STAT_FOLLOW', 0),
    'std::path::Path::symlink_metadata': ('STAT_NOFOLLOW', 0),
    'std::fs::symlink_metadata': ('STAT_NOFOLLOW', 0),
    'std::path::Path::is_symlink': ('STAT_NOFOLLOW', 0),
    'std::fs::DirEntry::file_type': ('STAT_NOFOLLOW', 0),
    'std::fs::DirEntry::metadata': ('STAT_NOFOLLOW', 0),
    'std::process::exit': ('EXIT', 0),
    'std::process::abort': ('EXIT', None),
    'std::io::_print': ('PRINT_OUT', None),
    'std::io::_eprint': ('PRINT_ERR', None),
    'std::env::var': ('ENV_READ', 0),
    'std::env::var_os': ('ENV_READ', 0),
    'std::env::vars': ('ENV_READ', None),
    'std::env::vars_os': ('ENV_READ', None),
    'std::env::current_dir': ('CWD', None),
    'std::env::args': ('ARGS', None),
    'std::process::Command::spawn': ('SPAWN', 0),
    'std::process::Command::output': ('SPAWN', 0),
    'std::process::Command::status': ('SPAWN', 0),
    'std::time::SystemTime::now': ('NONDET', None),
    'std::time::Instant::now': ('NONDET', None),
    'std::process::id': ('NONDET', None),
    'std::env::temp_dir': ('NONDET', None),
    'std::thread::current': ('NONDET', None),
    'std::collections::hash_map::RandomState::new': ('NONDET', None),
    'std::mem::forget': ('FORGET', 0),
    'std::boxed::Box::<T>::leak': ('FORGET', 0),
    'std::mem::ManuallyDrop::<T>::new': ('FORGET', 0),
}
MUTATING = {'REMOVE_FILE', 'REMOVE_DIR', 'REMOVE_TREE', 'CHMOD', 'MKDIR', 'WRITE', 'RENAME', 'OPEN'}
REMOVING = {'REMOVE_FILE', 'REMOVE_DIR', 'REMOVE_TREE'}


GROUP = {'REMOVE_FILE': 'REMOVE', 'REMOVE_DIR': 'REMOVE', 'REMOVE_TREE': 'REMOVE'}


from .value import canon, subst as _vsubst  # noqa: E402


# `OpenOptions::new().write(true).create(true).truncate(true).open(p)` is how std defines `File::create(p)`,
# `..write(true).create_new(true).open(p)` is `File::create_new(p)` and `..read(true).open(p)` is `File::open(p)`.
# open_mode reads the builder chain (constant flags on `OpenOptions::new()` / `File::options()`, the last setting of a flag
# wins) and names the std constructor it equals — anything else (append, a write-open that keeps the old contents, a flag
# that is not a constant) stays an opaque OPEN.  (Moved here from C01_helpers after seed round 5: C05's repaired twin.)
OO_FLAGS = ('read', 'write', 'append', 'truncate', 'create', 'create_new')
OO_NEW = ('std::fs::OpenOptions::new', 'std::fs::File::options')
OPEN_AS = {'create': 'std::fs::File::create', 'create_new': 'std::fs::File::create_new', 'read': 'std::fs::File::open'}


def open_mode(builder):
    flags = {}
    v = builder
    for _ in range(16):
        while isinstance(v, tuple) and v and v[0] in ('unwrap', 'updated') and len(v) >= 2 and isinstance(v[1], tuple):
            v = v[1]
        if not (isinstance(v, tuple) and len(v) == 4 and v[0] == 'call'):
            return None
        if v[1] in OO_NEW and not v[2]:
            break
        name = v[1].rsplit('::', 1)
        if len(name) != 2 or name[0] != 'std::fs::OpenOptions' or name[1] not in OO_FLAGS or len(v[2]) != 2:
            return None
        val = v[2][1]
        if not (isinstance(val, tuple) and len(val) == 2 and val[0] == 'const' and isinstance(val[1], bool)):
            return None
        flags.setdefault(name[1], val[1])
        v = v[2][0]
    else:
        return None
    on = {k for k, b in flags.items() if b}
    if on == {'read'}:
        return 'read'
    if on == {'write', 'create', 'truncate'}:
        return 'create'
    if 'create_new' in on and 'write' in on and 'append' not in on and 'read' not in on:
        return 'create_new'
    return None


def effect_name(e):
    """name of the std operation an effect stands for: the call's own name, or — for an `OpenOptions::open` whose builder
    chain equals a std constructor — that constructor"""
    return getattr(e, 'as_name', None) or (e.call.name if e.call is not None else None)


def eff_key(e):
    return (GROUP.get(e.kind, e.kind), canon(e.path) if e.path is not None else None, e.forall is not None,
            e.call.name if (e.call is not None and e.kind not in GROUP) else None)


def vocab_lookup(call, vocab=VOCAB):
    if call.indirect:
        return None
    for n in (call.res, call.decl):
        if n and n in vocab:
            return vocab[n]
    # generic instantiations print as path::<T> in res_full only; decl/res are generic-free
    return None


class Link:
    """one step of a call chain: the Call plus the parameter bindings of the function that contains it; behaves like
    the Call for every other purpose"""
    __slots__ = ('call', 'mapping')

    def __init__(self, call, mapping):
        self.call = call
        self.mapping = mapping

    def __getattr__(self, name):
        return getattr(self.call, name)


class Eff:
    __slots__ = ('kind', 'path', 'call', 'chain', 'must', 'forall', 'args', 'level', 'level_bb', 'mapping', 'implied', 'as_name')

    def __init__(self, kind, path, call, chain, must, forall=None, args=None):
        self.kind = kind
        self.path = path        # symbolic value of the path-like argument (entry terms) or None
        self.call = call        # the std call (Call)
        self.chain = chain      # tuple of Call from the entry function down to `call`
        self.must = must
        self.forall = forall    # collection value if the effect is inside a FORALL loop
        self.args = args        # all argument values
        self.level = None       # set by outcomes(): index of the site chain level the effect belongs to
        self.level_bb = None    # block of the call (in that level's function) it was expanded from
        self.implied = ()       # payloads that exist whenever the effect runs (closure run by Option/Result combinators)
        self.mapping = None     # parameter bindings of the function containing `call` (values in entry terms)
        self.as_name = None     # std constructor an `OpenOptions::open` equals (see open_mode), else None

    def where(self):
        return self.call.where() if self.call else (self.chain[-1].where() if self.chain else '-')

    def via(self):
        return ' -> '.join(c.fn.path.split('::')[-1] for c in self.chain + ((self.call,) if self.call else ()))

    def __repr__(self):
        from .value import vstr
        return '%s%s(%s)%s @%s' % (self.kind, '!' if self.must else '?', vstr(self.path) if self.path else '',
                                  ' forall ' + vstr(self.forall) if self.forall else '', self.via())


class Loop:
    def __init__(self, fn, header, next_call, body, latches, exit_bb, collection):
        self.fn = fn
        self.header = header          # block holding the Iterator::next call
        self.next_call = next_call
        self.body = body              # set of blocks of the loop (incl. header)
        self.latches = latches        # blocks with a back edge to the loop head
        self.exit_bb = exit_bb
        self.collection = collection  # symbolic value of the iterated expression


class Site:
    """a definition of the return place of fn that may carry a success value"""

    def __init__(self, fn, bb, kind, call=None, stmt=None):
        self.fn = fn
        self.bb = bb
        self.kind = kind      # 'ok' (Ok/Some/plain aggregate or value) | 'tail' (result of a call) | 'ret'
        self.call = call
        self.stmt = stmt

    def __repr__(self):
        return '<Site %s bb%d %s>' % (self.fn.path, self.bb, self.kind)


def success_sites(fn):
    sites = []
    is_result = fn.ret.startswith('std::result::Result<')
    for d in fn.whole_defs(0):
        if d[0] == 'stmt':
            rv = d[3]
            if is_result and rv['r'] == 'agg' and rv.get('adt') == 'std::result::Result' and rv.get('variant') == 'Err':
                continue
            sites.append(Site(fn, d[1], 'ok', stmt=rv))
        elif d[0] == 'call':
            c = d[3]
            if c.decl and c.decl.endswith('FromResidual::from_residual'):
                continue
            sites.append(Site(fn, d[1], 'tail', call=c))
    if not sites and not is_result:
        for b in fn.return_blocks():
            sites.append(Site(fn, b, 'ret'))
    return sites


def error_sites(fn):
    out = []
    for d in fn.whole_defs(0):
        if d[0] == 'stmt' and d[3]['r'] == 'agg' and d[3].get('variant') == 'Err':
            out.append(d[1])
        elif d[0] == 'call' and d[3].decl and d[3].decl.endswith('FromResidual::from_residual'):
            out.append(d[1])
    return out


def find_loops(fn, slicer):
    loops = []
    for c in fn.calls:
        if c.indirect or c.decl != 'std::iter::Iterator::next':
            continue
        h = c.bb
        # natural loop: blocks that can reach h and are reachable from h
        from_h = fn.reachable(h)
        preds = fn.preds()
        latches = [p for p in preds[h] if p in from_h]
        if not latches:
            continue
        body = {h}
        work = list(latches)
        while work:
            b = work.pop()
            if b in body:
                continue
            body.add(b)
            work.extend(p for p in preds[b] if p in from_h)
        coll = None
        rp = op_place(c.args[0]) if c.args else None
        if rp:
            v = slicer.place(fn, rp)
            coll = v
        exits = [s for b in body for s in fn.succs(b) if s not in body]
        lp = Loop(fn, h, c, body, latches, exits, coll)
        # the exhaustion edge: `next()` returned None
        lp.exhaust = None
        tb = c.target
        if tb is not None and fn.blocks[tb]['t']['t'] == 'switch':
            t = fn.blocks[tb]['t']
            # `for`: 0 => exit, 1 => body;  `while let Some(x) = it.next()`: 1 => body, otherwise => exit
            some_t = [b for v, b in t['targets'] if v == 1]
            outs = [b for v, b in t['targets'] if v != 1] + [t['else']]
            outs = [b for b in outs if b not in body and fn.blocks[b]['t']['t'] != 'unreachable']
            if some_t and some_t[0] in body and len(set(outs)) == 1:
                lp.exhaust = (tb, outs[0])
        loops.append(lp)
    return loops


class Effects:
    def __init__(self, prog, slicer, vocab=None, max_depth=10, extra_callbacks=None):
        self.prog = prog
        self.slicer = slicer
        self.vocab = dict(VOCAB)
        if vocab:
            self.vocab.update(vocab)
        self.max_depth = max_depth
        self._loops = {}
        self._sites = {}
        self._conds = {}

    # ---- local structure ----------------------------------------------------------------------
    def loops(self, fn):
        if fn.path not in self._loops:
            self._loops[fn.path] = find_loops(fn, self.slicer)
        return self._loops[fn.path]

    def sites(self, fn):
        if fn.path not in self._sites:
            ss = []
            for st in success_sites(fn):
                if st.kind == 'ok':
                    v = self.slicer._rvalue(fn, st.stmt, set(), 0, None)
                    # `Err(e)?` in tail position: the Continue payload of an Err aggregate never exists
                    if v[0] == 'unwrap' and v[1][0] == 'agg' and v[1][2] in ('Err', 'None'):
                        continue
                ss.append(st)
            self._sites[fn.path] = ss
        return self._sites[fn.path]

    def must_calls(self, fn, site_bbs):
        """[(Call, forall_collection|None)] of call sites dominating every block in site_bbs, in
        dominance order"""
        if not site_bbs:
            return []
        dom = fn.dominators()
        common = None
        for b in site_bbs:
            ds = dom.get(b, {b})
            common = set(ds) if common is None else (common & ds)
        res = []
        for c in fn.calls:
            if c.bb in common:
                # a call terminator in the site's own block only counts if it defines the site (tail)
                if c.bb in site_bbs and not (c.dest and c.dest[0] == 0):
                    continue
                res.append((c, None))
        # program order: the dominators of a block form a chain, so dominating calls are ordered by depth; the calls
        # of a loop body take the place of the loop header in that chain (before anything after the loop)
        key = {id(c): (len(dom.get(c.bb, ())), 0, 0) for c, _ in res}
        from .guards import edge_dominates
        for L in self.loops(fn):
            if L.header in common and not any(b in L.body for b in site_bbs):
                # FORALL only if the site is reached through the loop running to exhaustion: an early `return Ok(..)` /
                # `break` out of the body reaches its site with some elements unvisited
                if getattr(L, 'exhaust', None) is None or not all(edge_dominates(fn, L.exhaust[0], L.exhaust[1], b) for b in site_bbs):
                    continue
                for c in fn.calls:
                    if c.bb in L.body and c.bb != L.header and all(fn.dominates(c.bb, l) or c.bb == l for l in L.latches):
                        res.append((c, L.collection))
                        key[id(c)] = (len(dom.get(L.header, ())), 1, len(dom.get(c.bb, ())))
        res.sort(key=lambda x: key[id(x[0])])
        return res

    def may_calls(self, fn, site_bbs=None):
        """call sites on some entry -> site path (all reachable call sites if site_bbs is None)"""
        reach = fn.reachable(0)
        if site_bbs is None:
            return [c for c in fn.calls if c.bb in reach]
        preds = fn.preds()
        back = set()
        work = list(site_bbs)
        while work:
            b = work.pop()
            if b in back:
                continue
            back.add(b)
            work.extend(preds[b])
        return [c for c in fn.calls if c.bb in reach and c.bb in back]

    def _unrollable(self, fn, c):
        """collection of the innermost loop around call c when that collection decomposes into alternatives
        (literal table, once/chain/map pipeline); None for ordinary loops and straight-line code"""
        best = None
        for L in self.loops(fn):
            if c.bb in L.body and c.bb != L.header and L.collection is not None:
                if best is None or len(L.body) < len(best.body):
                    best = L
        if best is None:
            return None
        al = iters.alts(self.slicer, best.collection)
        return None if iters.trivial(al, best.collection) else best.collection

    def feasible(self, fn, bb, mapping):
        """constant pruning: a block guarded by `x is Variant V` is infeasible when the substituted x
        is a literal of another variant (e.g. the Replace arm when the caller passes Keep)"""
        from .guards import conditions
        key = (fn.path, bb)
        if key not in self._conds:
            self._conds[key] = [c for c in conditions(fn, bb, self.slicer) if c.kind == 'variant' and c.subject is not None]
        for c in self._conds[key]:
            subj = self.subst(c.subject, mapping) if mapping else c.subject
            while subj[0] == 'unwrap' and subj[1][0] == 'agg' and subj[1][2] in ('Ok', 'Some'):
                subj = dict(subj[1][3]).get('0', subj)
            if subj[0] == 'agg' and subj[2] is not None and subj[1] == c.enum and subj[2] not in c.outcome:
                return False
        return True

    # ---- substitution -------------------------------------------------------------------------
    def subst(self, v, mapping):
        return _vsubst(v, mapping, self.slicer) if mapping else v

    def call_mapping(self, caller, call, callee, mapping):
        m = dict(mapping)
        m.pop('__repl__', None)
        for i, a in enumerate(call.args):
            if i < callee.argc:
                m[(callee.path, i)] = self.subst(self.slicer.operand(caller, a), mapping)
        return m

    # ---- expansion ----------------------------------------------------------------------------
    def expand(self, fn, mode='must', site_bbs=None, mapping=None, chain=(), _stack=None):
        """list of Eff for fn in `mode`:
           must: effects on every path to all of site_bbs (default: all success sites of fn)
           may : effects on some path to site_bbs (default: anywhere in fn)"""
        mapping = mapping or {}
        _stack = _stack or ()
        if fn.path in _stack or len(_stack) > self.max_depth:
            return [Eff('RECURSION', None, None, chain, mode == 'must')] if fn.path in _stack else []
        _stack = _stack + (fn.path,)
        out = []
        if mode == 'must' and site_bbs is None:
            # effects common to every success site (a call dominating all sites is the special case;
            # alternatives such as "unlink the symlink | empty and rmdir" agree on REMOVE(path))
            per_site = []
            for st in self.sites(fn):
                effs = []
                for c, forall in self.must_calls(fn, [st.bb]):
                    self._expand_call(fn, c, forall, 'must', mapping, chain, _stack, effs)
                per_site.append(effs)
            if not per_site:
                return []
            common = None
            for effs in per_site:
                ks = {eff_key(e) for e in effs}
                common = ks if common is None else (common & ks)
            seen = set()
            for e in per_site[0]:
                k = eff_key(e)
                if k in common and (k not in seen or e.kind not in GROUP):
                    out.append(e)
                    seen.add(k)
            return out
        if mode == 'must':
            calls = self.must_calls(fn, site_bbs)
        else:
            calls = [(c, self._unrollable(fn, c)) for c in self.may_calls(fn, site_bbs) if self.feasible(fn, c.bb, mapping)]
        for c, forall in calls:
            self._expand_call(fn, c, forall, mode, mapping, chain, _stack, out)
        return out

    def _expand_call(self, fn, c, forall, mode, mapping, chain, stack, out):
        """effects of one call site; a call inside a loop over a decomposable collection (literal table,
        once/chain/map pipeline, collected Vec) is expanded once per alternative element"""
        if forall is not None:
            al = iters.alts(self.slicer, forall)
            if not iters.trivial(al, forall):
                key = iters.loop_key(forall)
                for elem, fa, filtered in al:
                    if filtered and mode == 'must':
                        continue
                    m = dict(mapping)
                    m['__repl__'] = list(mapping.get('__repl__', ())) + [(key, self.subst(elem, mapping))]
                    self._expand_call1(fn, c, fa, mode, m, chain, stack, out)
                return
        self._expand_call1(fn, c, forall, mode, mapping, chain, stack, out)

    WRITERS = ('std::io::Write::write_all', 'std::io::Write::write')

    def _written_to(self, fn, create_call):
        """value handed to the single write_all on the file handle produced by create_call (same function), or None"""
        site = (fn.path, create_call.bb)
        found = []
        for wc in fn.calls:
            if wc.indirect or wc.decl not in self.WRITERS or len(wc.args) < 2:
                continue
            recv = self.slicer.operand(fn, wc.args[0])
            if any(x[0] == 'call' and len(x) == 4 and x[3] == site for x in walk(recv)):
                found.append(self.slicer.operand(fn, wc.args[1]))
        return found[0] if len(found) == 1 else None

    def _closure_fn(self, v):
        if isinstance(v, tuple) and v and v[0] in ('closure', 'fnitem'):
            g = self.prog.fns.get(v[1])
            if g is not None:
                return g, (1 if v[0] == 'closure' else 0)
        return None, 0

    def _expand_closure(self, fn, c, clv, bind, forall, mode, mapping, chain, stack, out, implied=None):
        """run closure value clv (in fn's terms) with its parameters bound to `bind` (list of values in fn's terms)"""
        g, off = self._closure_fn(clv)
        if g is None:
            return
        m = dict(mapping)
        m.pop('__repl__', None)
        for i, b in enumerate(bind):
            if b is not None:
                m[(g.path, off + i)] = self.subst(b, mapping)
        sub = self.expand(g, mode, None, m, chain + (Link(c, mapping),), stack)
        fa = self.subst(forall, mapping) if forall is not None else None
        imp = self.subst(implied, mapping) if implied is not None else None
        for e in sub:
            if e.forall is None and fa is not None:
                e.forall = fa
            if imp is not None:
                e.implied = e.implied + (imp,)
        out.extend(sub)

    def _expand_iter(self, fn, c, forall, mode, mapping, chain, stack, out):
        """closures handed to iterator adapters behave like loop bodies.  Returns True when the call was handled."""
        d = c.decl
        if d in iters.LAZY_WITH_CLOSURE and len(c.args) == 2:
            if mode == 'may':
                recv = self.slicer.operand(fn, c.args[0])
                clv = self.slicer.operand(fn, c.args[1])
                for elem, fa, _ in iters.alts(self.slicer, recv):
                    self._expand_closure(fn, c, clv, [elem], fa if forall is None else forall, 'may', mapping, chain, stack, out)
            return True
        if d in iters.CONSUME_EACH or d in iters.CONSUME_ALL:
            ridx = 1 if d == 'std::iter::Extend::extend' else 0
            if ridx >= len(c.args):
                return False
            recv = self.slicer.operand(fn, c.args[ridx])
            if mode == 'must' and self._short_circuits(fn, c):
                # `xs.iter().try_for_each(f)` / `.map(f).collect::<Result<..>>()` stop at the first failure: the closures
                # have run for every element only if a failure of the whole cannot end in a success of fn
                return True
            if mode == 'must':
                for name, clv, rv, stopped in iters.stages(recv, with_stop=True):
                    if stopped:
                        continue   # a later take_while / map_while / take stops pulling: not every element is seen
                    for elem, fa, filtered in iters.alts(self.slicer, rv):
                        if not filtered:
                            self._expand_closure(fn, c, clv, [elem], fa if forall is None else forall, 'must', mapping, chain, stack, out)
            cl_idx = {iters.IT + 'try_for_each': (1, 0), iters.IT + 'for_each': (1, 0), iters.IT + 'fold': (2, 1),
                      iters.IT + 'try_fold': (2, 1)}.get(d)
            if cl_idx and cl_idx[0] < len(c.args):
                clv = self.slicer.operand(fn, c.args[cl_idx[0]])
                for elem, fa, filtered in iters.alts(self.slicer, recv):
                    if filtered and mode == 'must':
                        continue
                    bind = [None] * cl_idx[1] + [elem]
                    self._expand_closure(fn, c, clv, bind, fa if forall is None else forall, mode, mapping, chain, stack, out)
                return True
            return mode == 'must' or not self.prog.fn_item_args(c)
        return False

    SHORT_CIRCUIT = (iters.IT + 'try_for_each', iters.IT + 'try_fold', iters.IT + 'collect', iters.IT + 'sum', iters.IT + 'product',
                     'std::iter::FromIterator::from_iter')

    def _short_circuits(self, fn, c):
        """a consumer that stops at the first Err / None (by its result type) and whose failure may still end in a
        success of fn (the result is not `?`-ed / unwrapped / returned but handed to something tolerant)"""
        if c.decl not in self.SHORT_CIRCUIT:
            return False
        if c.decl not in (iters.IT + 'try_for_each', iters.IT + 'try_fold') and \
                not (c.dty or '').startswith(('std::result::Result<', 'std::option::Option<')):
            return False
        from .discard import ok_on_success
        return not ok_on_success(self.prog, fn, c)

    def _result_discarded(self, fn, c):
        from .discard import result_fates, verdict
        try:
            return verdict(result_fates(self.prog, fn, c)) == 'discarded'
        except Exception:
            return False

    # closures handed to Option / Result combinators: which payload their first parameter receives
    COMB_OK = ('::map', '::and_then', '::is_some_and', '::is_ok_and', '::inspect', '::filter', '::map_or', '::map_or_else', '::is_none_or')
    COMB_ERR = ('::map_err', '::or_else', '::unwrap_or_else', '::inspect_err', '::is_err_and')

    def _comb_binding(self, c, recv):
        n = c.decl or ''
        if n.startswith(('std::option::Option::', 'std::result::Result::')):
            if n.endswith(self.COMB_ERR) and n.startswith('std::result::Result::'):
                return ('unwrap_err', recv)
            if n.endswith(self.COMB_OK):
                return ('unwrap', self.slicer._ok_core(recv))
        return None

    def _expand_call1(self, fn, c, forall, mode, mapping, chain, stack, out):
        if c.indirect:
            callee_v = self.subst(self.slicer.operand(fn, c.fop), mapping)
            args = tuple(self.subst(self.slicer.operand(fn, a), mapping) for a in c.args)
            out.append(Eff('CALLBACK', callee_v, c, chain, mode == 'must', forall, args))
            return
        if c.decl in ('std::ops::Fn::call', 'std::ops::FnMut::call_mut', 'std::ops::FnOnce::call_once'):
            args = tuple(self.subst(self.slicer.operand(fn, a), mapping) for a in c.args)
            out.append(Eff('CALLBACK', args[0] if args else None, c, chain, mode == 'must', forall, args))
            return
        if c.decl and c.decl.startswith('std::iter::') and self._expand_iter(fn, c, forall, mode, mapping, chain, stack, out):
            return
        ve = vocab_lookup(c, self.vocab)
        if ve and ve[0] == 'OPEN' and c.is_('std::fs::OpenOptions::open') and len(c.args) == 2:
            om = open_mode(self.slicer.operand(fn, c.args[0]))
            if om is not None:
                pth = self.subst(self.slicer.operand(fn, c.args[1]), mapping)
                args = (pth,)
                if om in ('create', 'create_new'):
                    data = self._written_to(fn, c)
                    if data is not None:
                        args = args + (self.subst(data, mapping),)
                fa = self.subst(forall, mapping) if forall is not None else None
                ef = Eff('READ' if om == 'read' else 'WRITE', pth, c, chain, mode == 'must', fa, args)
                ef.mapping = mapping
                ef.as_name = OPEN_AS[om]
                out.append(ef)
                return
        if ve:
            kind, pidx = ve
            args = tuple(self.subst(self.slicer.operand(fn, a), mapping) for a in c.args)
            path = args[pidx] if pidx is not None and pidx < len(args) else None
            if c.is_('std::fs::File::create', 'std::fs::File::create_new') and len(args) == 1:
                # `File::create(p)?.write_all(data)` is `fs::write(p, data)`: attach the data written to that handle
                data = self._written_to(fn, c)
                if data is not None:
                    args = args + (self.subst(data, mapping),)
            fa = self.subst(forall, mapping) if forall is not None else None
            ef = Eff(kind, path, c, chain, mode == 'must', fa, args)
            ef.mapping = mapping
            out.append(ef)
            return
        callees = self.prog.callee_fns(c)
        for g in callees:
            m = self.call_mapping(fn, c, g, mapping)
            sites = None
            if mode == 'must' and (g.ret or '').startswith(('std::result::Result<', 'std::option::Option<')) and self._result_discarded(fn, c):
                # `let _ = helper();` / `helper().ok();`: the caller goes on whether the helper succeeded or not, so only
                # what the helper does on *every* way out (not just on its success paths: a `?` inside it skips the
                # rest) is certain for the caller
                sites = list(g.return_blocks())
            sub = self.expand(g, mode, sites, m, chain + (Link(c, mapping),), stack)
            if forall is not None:
                for e in sub:
                    if e.forall is None:
                        e.forall = self.subst(forall, mapping)
            out.extend(sub)
        # unresolved trait method on a workspace trait (user callback such as Layer::create)
        if not callees and c.decl and c.decl.split('::')[0] in self.prog.crate_names() and c.decl in self.prog.traits_methods():
            args = tuple(self.subst(self.slicer.operand(fn, a), mapping) for a in c.args)
            out.append(Eff('CALLBACK', ('fnitem', c.decl), c, chain, mode == 'must', forall, args))
        # closures / fn items handed to the call may run: MAY effects only
        if mode == 'must' and (c.decl or '').startswith(('std::result::Result::', 'std::option::Option::')) \
                and (c.decl or '').endswith(('::and_then', '::map')) and len(c.args) == 2:
            # `r.and_then(|x| write(x))?` / as the returned value: when the function succeeds, r was Ok/Some and the closure
            # ran to success — provided the combinator's own result is not dropped
            from .discard import result_fates, verdict
            returned = bool(c.dest) and c.dest[0] == 0
            if returned or verdict(result_fates(self.prog, fn, c)) == 'ok':
                recv = self.slicer.operand(fn, c.args[0])
                clv = self.slicer.operand(fn, c.args[1])
                b = ('unwrap', self.slicer._ok_core(recv))
                g, off = self._closure_fn(clv)
                if g is not None:
                    self._expand_closure(fn, c, clv, [b] if g.argc > off else [], forall, 'must', mapping, chain, stack, out, implied=b)
        if mode == 'may':
            gs = self.prog.fn_item_args(c)
            if gs:
                recv = self.slicer.operand(fn, c.args[0]) if c.args else None
                b = self._comb_binding(c, recv) if recv is not None else None
                for ai, a in enumerate(c.args):
                    clv = self.slicer.operand(fn, a)
                    g, off = self._closure_fn(clv)
                    if g is not None and g in gs:
                        gs = [x for x in gs if x is not g]
                        ba = b
                        if ai == 1 and (c.decl or '').startswith('std::result::Result::') and (c.decl or '').endswith('::map_or_else'):
                            ba = ('unwrap_err', recv)    # Result::map_or_else(default, f): `default` receives the error
                        self._expand_closure(fn, c, clv, [ba] if (ba is not None and g.argc > off) else [], forall, 'may', mapping, chain, stack, out, implied=ba)
                for g in gs:
                    out.extend(self.expand(g, 'may', None, mapping, chain + (Link(c, mapping),), stack))

    # ---- returned values -------------------------------------------------------------------------
    def returned(self, fn, site, mapping=None, _stack=()):
        """symbolic value returned at a success site, with tail calls into workspace functions
        replaced by the callee's own returned values (list of (value, [sites chain]))"""
        mapping = mapping or {}
        if site.kind == 'ok':
            v = self.slicer._rvalue(fn, site.stmt, set(), 0, None)
            return [(self.subst(v, mapping), (site,))]
        if site.kind == 'tail':
            c = site.call
            res = []
            callees = self.prog.callee_fns(c)
            if callees and len(_stack) < self.max_depth:
                for g in callees:
                    if g.path in _stack:
                        res.append((('recursion', g.path), (site,)))
                        continue
                    m = self.call_mapping(fn, c, g, mapping)
                    for s in self.sites(g):
                        for v, ch in self.returned(g, s, m, _stack + (fn.path,)):
                            res.append((v, (site,) + ch))
                return res
            v = self.slicer._call_value(fn, c, set(), 0)
            return [(self.subst(v, mapping), (site,))]
        return [(('tuple', ()), (site,))]


class Outcome:
    """one leaf success outcome of an entry function: the chain of success sites from the entry down
    through tail calls, with the effects that must / may have happened and the branch decisions taken"""

    def __init__(self, value, must, may, conds, sites):
        self.value = value
        self.must = must
        self.may = may
        self.conds = conds      # list of (Cond, substituted subject/value, level)
        self.sites = sites

    def decisions(self):
        return [(c, subj, lv) for c, subj, lv in self.conds if c.kind == 'variant']

    def region(self, cond, level, effs=None):
        """effects that can only happen after the branch decision `cond` (taken at `level`)"""
        effs = self.may if effs is None else effs
        out = []
        for e in effs:
            if e.level is None:
                continue
            if e.level > level or (e.level == level and cond.fn.dominates(cond.target, e.level_bb)):
                out.append(e)
        return out

    def before(self, cond, level, effs=None):
        effs = self.must if effs is None else effs
        return [e for e in effs if e.level is not None and
                (e.level < level or (e.level == level and not cond.fn.dominates(cond.target, e.level_bb)))]


def outcomes(E, fn, mapping=None, chain=(), stack=(), through=None):
    """`through(g)`: also descend into workspace function g when its *unwrapped* result is what a success site returns
    (`match helper(..)? { Some(x) => Ok(x), .. }`), not only into tail calls"""
    from .guards import conditions
    mapping = mapping or {}
    res = []
    level = len(stack)
    for site in E.sites(fn):
        must = []
        for c, forall in E.must_calls(fn, [site.bb]):
            if site.kind == 'tail' and c is site.call:
                continue
            n0 = len(must)
            E._expand_call(fn, c, forall, 'must', mapping, chain, stack + (fn.path,), must)
            for e in must[n0:]:
                e.level, e.level_bb = level, c.bb
        may = []
        for c in E.may_calls(fn, [site.bb]):
            if site.kind == 'tail' and c is site.call:
                continue
            n0 = len(may)
            E._expand_call(fn, c, E._unrollable(fn, c), 'may', mapping, chain, stack + (fn.path,), may)
            for e in may[n0:]:
                e.level, e.level_bb = level, c.bb
        conds = []
        for cd in conditions(fn, site.bb, E.slicer):
            subj = cd.subject if cd.subject is not None else cd.value
            conds.append((cd, E.subst(subj, mapping), level))
        if site.kind == 'tail':
            callees = E.prog.callee_fns(site.call)
            if callees:
                for g in callees:
                    if g.path in stack or g.path == fn.path or len(stack) > E.max_depth:
                        res.append(Outcome(('recursion', g.path), must, may, conds, (site,)))
                        continue
                    m = E.call_mapping(fn, site.call, g, mapping)
                    for sub in outcomes(E, g, m, chain + (Link(site.call, mapping),), stack + (fn.path,), through):
                        res.append(Outcome(sub.value, must + sub.must, may + sub.may, conds + sub.conds, (site,) + sub.sites))
                continue
            v = E.subst(E.slicer._call_value(fn, site.call, set(), 0), mapping)
            res.append(Outcome(v, must, may, conds, (site,)))
        elif site.kind == 'ok':
            raw = E.slicer._rvalue(fn, site.stmt, set(), 0, None)
            v = E.subst(raw, mapping)
            sub_done = False
            if through is not None and raw[0] == 'agg' and raw[2] in ('Ok', 'Some') and len(raw[3]) == 1:
                # Ok(<payload of payload .. of a call to a private helper>): continue inside that helper
                inner, depth = raw[3][0][1], 0
                while inner[0] == 'unwrap':
                    inner, depth = inner[1], depth + 1
                g = E.prog.fns.get(inner[1]) if inner[0] == 'call' and len(inner) == 4 and inner[3] else None
                c = fn.call_at(inner[3][1]) if g is not None and inner[3][0] == fn.path else None
                if g is not None and c is not None and depth >= 1 and through(g) and g.path not in stack and g.path != fn.path \
                        and fn.dominates(c.bb, site.bb) and len(stack) <= E.max_depth:
                    m = E.call_mapping(fn, c, g, mapping)
                    own_must = [e for e in must if not (e.level == level and e.level_bb == c.bb)]
                    own_may = [e for e in may if not (e.level == level and e.level_bb == c.bb)]
                    for sub in outcomes(E, g, m, chain + (Link(c, mapping),), stack + (fn.path,), through):
                        sv = sub.value
                        ok = True
                        for _ in range(depth):
                            if sv[0] == 'agg' and sv[2] in ('Ok', 'Some') and len(sv[3]) == 1:
                                sv = sv[3][0][1]
                            elif sv[0] == 'agg' and sv[2] in ('None', 'Err'):
                                ok = False      # this outcome of the helper does not lead to this site
                                break
                            else:
                                sv = ('unwrap', sv)
                        if ok:
                            res.append(Outcome(('agg', raw[1], raw[2], ((raw[3][0][0], sv),)), own_must + sub.must, own_may + sub.may,
                                               conds + sub.conds, (site,) + sub.sites))
                            sub_done = True
            if not sub_done:
                res.append(Outcome(v, must, may, conds, (site,)))
        else:
            res.append(Outcome(('tuple', ()), must, may, conds, (site,)))
    return res


def guards_of(E, e, prog=None):
    """branch decisions under which effect e runs, in the terms of the entry function: at every level of the call chain,
    the conditions dominating the call inside its function (and, for a closure, those around the place where the closure
    is created), with the function's parameters replaced by what the chain passed in.
    [(Cond, [(substituted value, outcome)...], substituted subject)]"""
    from .guards import conditions_ctx
    out = []
    levels = [(l.call, l.mapping) for l in e.chain if isinstance(l, Link)] + [(e.call, e.mapping)]
    for call, m in levels:
        m = m or {}
        for cd in conditions_ctx(E.prog, call.fn, call.bb, E.slicer):
            views = [(E.subst(v, m), oc) for v, oc in cd.views()] if cd.kind == 'bool' else [(E.subst(cd.value, m), cd.outcome)]
            subj = E.subst(cd.subject, m) if cd.subject is not None else None
            out.append((cd, views, subj))
    return out
