"""Symbolic value provenance (backward slicing over MIR def-use chains).

A value is a nested tuple:
  ('param', fnpath, i, name)         i is 0-based argument index
  ('const', pyvalue)                 str / int / bool / bytes
  ('fnitem', path)                   function item / constructor used as a value
  ('constitem', path, pp)            named const item that did not evaluate to a scalar/str
  ('field', base, name)              base.name  (references and derefs are transparent)
  ('variant', base, Variant)         base as Variant (downcast)
  ('call', name, (args...), site)    result of a non-transparent call; site = (fnpath, bb)
  ('agg', adt, variant, ((field, v)...))
  ('tuple', (v...)) / ('array', (v...))
  ('closure', defpath, (upvar values...))
  ('fmt', (pieces...))               pieces are str literals or values (format!/format_args!)
  ('unwrap', v)                      the success payload of v (`?`, unwrap, expect)
  ('phi', (v...))                    several reaching definitions
  ('bin', op, a, b) / ('un', op, a) / ('discr', v) / ('cast', v, ty)
  ('upvar', closurepath, idx)
  ('unknown', why)
"""
from .mir import op_place, op_const, const_value

# calls whose result denotes the same entity as their first argument (by resolved or declared name)
TRANSPARENT = {
    'std::convert::AsRef::as_ref', 'std::ops::Deref::deref', 'std::ops::DerefMut::deref_mut',
    'std::borrow::Borrow::borrow', 'std::clone::Clone::clone', 'std::borrow::ToOwned::to_owned',
    'std::convert::Into::into', 'std::string::String::as_str', 'std::path::PathBuf::as_path',
    'std::path::Path::to_path_buf', 'std::hint::must_use', 'std::path::Path::new',
    'std::ffi::OsStr::new', 'std::path::Path::as_os_str', 'std::path::PathBuf::into_os_string',
    'std::string::ToString::to_string', 'std::convert::identity', 'std::ffi::OsString::as_os_str',
    'std::convert::AsMut::as_mut', 'std::iter::IntoIterator::into_iter',
    'std::string::String::as_bytes', 'std::str::<impl str>::as_bytes',
    'std::ffi::OsStr::to_os_string', 'std::path::Path::to_owned',
    'std::option::Option::<T>::as_ref', 'std::result::Result::<T, E>::as_ref',
    'std::option::Option::<T>::as_deref', 'std::option::Option::<&T>::cloned',
    'std::option::Option::<&T>::copied', 'std::borrow::Cow::<\'_, B>::into_owned',
    'std::boxed::Box::<T>::new', 'std::str::<impl str>::to_owned',
    'std::boxed::box_assume_init_into_vec_unsafe', 'std::slice::<impl [T]>::into_vec',
}
TRANSPARENT_RX = (
    r"^<.* as std::convert::AsRef<.*>>::as_ref$", r"^<.* as std::ops::Deref>::deref$",
    r"^<.* as std::clone::Clone>::clone$", r"^<.* as std::borrow::Borrow<.*>>::borrow$",
    r"^<.* as std::convert::From<.*>>::from$", r"^<.* as std::convert::Into<.*>>::into$",
    r"^<.* as std::borrow::ToOwned>::to_owned$", r"^<.* as std::string::ToString>::to_string$",
    r"^<.* as std::iter::IntoIterator>::into_iter$", r"^<.* as std::string::SpecToString>::spec_to_string$",
)
# `From::from` is only transparent between string/path-like types; error conversions are wrapped
FROM_NAMES = {'std::convert::From::from'}
STRINGY = ('std::path::PathBuf', 'std::string::String', 'std::ffi::OsString', '&str', '&std::path::Path',
           'std::borrow::Cow', 'std::boxed::Box<std::path::Path>', 'std::boxed::Box<str>')

# calls returning the success payload of their first argument
UNWRAPPING = {
    'std::option::Option::<T>::unwrap', 'std::result::Result::<T, E>::unwrap',
    'std::option::Option::<T>::expect', 'std::result::Result::<T, E>::expect',
    'std::result::Result::<T, E>::unwrap_unchecked', 'std::option::Option::<T>::unwrap_unchecked',
}
# adapters that leave the success payload untouched
OK_PRESERVING = {
    'std::result::Result::<T, E>::map_err', 'std::result::Result::<T, E>::inspect_err',
    'std::result::Result::<T, E>::or_else', 'std::option::Option::<T>::ok_or',
    'std::option::Option::<T>::ok_or_else', 'std::result::Result::<T, E>::inspect',
}

import re
_TRX = [re.compile(r) for r in TRANSPARENT_RX]


def is_transparent(call):
    for n in call.names():
        if n in TRANSPARENT:
            return True
        for r in _TRX:
            if r.match(n):
                if 'From<' in n or n in FROM_NAMES:
                    return _stringy(call.dty)
                return True
        if n in FROM_NAMES:
            return _stringy(call.dty)
    return False


def _stringy(ty):
    return bool(ty) and any(ty.startswith(s) for s in STRINGY)


def decode_fmt_template(b):
    """decode core::fmt::Arguments template bytes -> list of str | ('arg', index)"""
    out = []
    i = 0
    nxt = 0
    while i < len(b):
        n = b[i]
        i += 1
        if n == 0:
            break
        if n < 0x80:
            out.append(b[i:i + n].decode('utf-8', 'replace'))
            i += n
        elif n == 0x80:
            ln = b[i] | (b[i + 1] << 8)
            i += 2
            out.append(b[i:i + ln].decode('utf-8', 'replace'))
            i += ln
        elif n == 0xC0:
            out.append(('arg', nxt))
            nxt += 1
        else:
            idx = nxt
            if n & 1:
                i += 4
            if n & 2:
                i += 2
            if n & 4:
                i += 2
            if n & 8:
                idx = b[i] | (b[i + 1] << 8)
                i += 2
            out.append(('arg', idx))
            nxt = idx + 1
    return out


class Slicer:
    def __init__(self, prog, max_depth=60):
        self.prog = prog
        self.max_depth = max_depth
        self._cache = {}
        self.symbolic_upvars = False   # True: captured variables stay ('upvar', closure, i) (see apply_closure)
        self._sym = None

    # -- public -------------------------------------------------------------------------------
    def operand(self, fn, op, _seen=None, _d=0):
        k = op_const(op)
        if k is not None:
            return self._const(k)
        return self.place(fn, op_place(op), _seen, _d)

    def place(self, fn, pl, _seen=None, _d=0):
        base = self.local(fn, pl[0], _seen, _d)
        return self._project(base, pl[1:])

    def local(self, fn, local, _seen=None, _d=0):
        key = (fn.path, local)
        if key in self._cache:
            return self._cache[key]
        if _seen is None:
            _seen = set()
        if key in _seen or _d > self.max_depth:
            return ('unknown', 'cycle')
        _seen = _seen | {key}
        v = self._local(fn, local, _seen, _d + 1)
        if not _contains_cycle(v):
            self._cache[key] = v
        return v

    def const_init(self, path):
        """value of a const item / promoted, from its initialiser MIR"""
        f = self.prog.fns.get(path)
        if f is None or f.argc != 0:
            return None
        key = ('constinit', path)
        if key in self._cache:
            return self._cache[key]
        self._cache[key] = ('constitem', path, None)   # recursion guard
        v = self.local(f, 0)
        self._cache[key] = v
        return v


    # -- interprocedural values ------------------------------------------------------------------
    def inline_call(self, v, _stack=()):
        """v = ('call', name, args, site) where name is a workspace function with a body: the value it returns,
        expressed in the caller's terms (private helpers that only compute a value are transparent)"""
        if not (isinstance(v, tuple) and v and v[0] == 'call'):
            return None
        g = self.prog.fns.get(v[1])
        if g is None or g.path in _stack or len(_stack) > 6 or g.kind == 'Closure':
            return None
        rv = self.local(g, 0)
        m = {(g.path, i): a for i, a in enumerate(v[2]) if i < g.argc}
        return subst(rv, m, self)

    def inline_deep(self, v, depth=4, keep=()):
        """v with every call to a private workspace function (not in `keep`) replaced by what it returns"""
        if not isinstance(v, tuple) or not v or depth < 0:
            return v
        if v[0] == 'call' and v[1] in self.prog.fns and v[1] not in keep:
            iv = self.inline_call(v)
            if iv is not None and iv != v:
                return self.inline_deep(iv, depth - 1, keep)
        if v[0] in ('const', 'param', 'fnitem', 'constitem', 'unknown', 'closure_env', 'upvar'):
            return v
        out = tuple(self.inline_deep(x, depth, keep) if isinstance(x, tuple) else x for x in v)
        if out == v:
            return v
        # re-normalise what the substitution exposed
        if out[0] == 'unwrap':
            return self.mk_unwrap(out[1], 1)
        if out[0] == 'field':
            return self._field(out[1], out[2])
        if out[0] == 'variant':
            return self._variant(out[1], out[2])
        return out

    def apply_closure(self, clv, args):
        """value returned by calling closure / fn item clv with the given argument values, or None"""
        if not (isinstance(clv, tuple) and clv):
            return None
        if clv[0] == 'closure':
            g = self.prog.fns.get(clv[1])
            if g is None:
                return None
            # the body is sliced with symbolic captures, which are then bound to the captured values of *this*
            # closure value (they may themselves have been substituted, e.g. a closure built inside another closure)
            if self._sym is None:
                self._sym = Slicer(self.prog, self.max_depth)
                self._sym.symbolic_upvars = True
            rv = self._sym.local(g, 0)
            m = {(g.path, 1 + i): a for i, a in enumerate(args)}
            for i, uv in enumerate(clv[2]):
                m[('upvar', g.path, i)] = uv
            return subst(rv, m, self)
        if clv[0] == 'fnitem':
            g = self.prog.fns.get(clv[1])
            if g is None:
                return ('call', clv[1], tuple(args), None)
            rv = self.local(g, 0)
            m = {(g.path, i): a for i, a in enumerate(args)}
            return subst(rv, m, self)
        return None

    # -- internals ----------------------------------------------------------------------------
    def _const(self, k):
        if 'fn' in k:
            return ('fnitem', k.get('res') or k['fn'])
        v = const_value(k)
        if v is not None:
            return ('const', v)
        if 'item' in k and 'promoted' not in k:
            c = self.prog.consts.get(k['item'])
            if c and c.get('value'):
                cv = const_value({'v': c['value']})
                if cv is not None:
                    return ('const', cv)
            init = self.const_init(k['item'])
            if init is not None:
                return init
            return ('constitem', k['item'], k.get('pp'))
        if 'item' in k and 'promoted' in k:
            init = self.const_init('%s::promoted[%d]' % (k['item'], k['promoted']))
            if init is not None:
                return init
        if k.get('ty') == '()':
            return ('tuple', ())
        return ('constitem', k.get('item'), k.get('pp'))

    def _project(self, base, projs):
        v = base
        for p in projs:
            if p == '*':
                continue
            if p.startswith('.'):
                v = self._field(v, p[1:])
            elif p.startswith('@'):
                v = self._variant(v, p[1:])
            elif p.startswith('['):
                v = ('index', v, p)
            else:
                v = ('field', v, p)
        return v

    def _field(self, v, name):
        k = v[0]
        if k == 'agg':
            for fname, fv in v[3]:
                if fname == name:
                    return fv
        if k == 'tuple' and name.isdigit() and int(name) < len(v[1]):
            return v[1][int(name)]
        if k == 'closure' and name.isdigit() and int(name) < len(v[2]):
            return v[2][int(name)]
        if k == 'variant' and name == '0':
            b = v[1]
            # (Try::branch(x) as Continue).0  ==> unwrap(x)
            if v[2] == 'Continue' and b[0] == 'call' and b[1] in ('std::ops::Try::branch',):
                return self.mk_unwrap(b[2][0])
            if v[2] in ('Some', 'Ok'):
                return self.mk_unwrap(b)
            if v[2] == 'Err':
                return ('unwrap_err', b)
            if v[2] == 'Break' and b[0] == 'call' and b[1] == 'std::ops::Try::branch':
                return ('residual', b[2][0])
        if k == 'phi':
            return ('phi', tuple(self._field(x, name) for x in v[1]))
        if k == 'updated':
            for proj, uv in v[2]:
                if proj == '.' + name:
                    return uv
            return self._field(v[1], name)
        if k == 'closure_env' and name.isdigit():
            if self.symbolic_upvars:
                return ('upvar', v[1], int(name))
            return self._upvar(v[1], int(name))
        return ('field', v, name)

    def _upvar(self, closure_path, idx):
        """value captured by a closure, expressed in the terms of the function that creates it"""
        key = ('upvar', closure_path, idx)
        if key in self._cache:
            return self._cache[key]
        cl = self.prog.fns.get(closure_path)
        res = ('upvar', closure_path, idx)
        parent = self.prog.fns.get(cl.parent) if cl else None
        if parent is not None:
            for b in parent.blocks:
                for st in b['s']:
                    if st[0] == '=' and st[2]['r'] == 'agg' and st[2].get('kind') == 'closure' and st[2]['def'] == closure_path:
                        ops = st[2]['ops']
                        if idx < len(ops):
                            res = self.operand(parent, ops[idx])
        self._cache[key] = res
        return res

    def _variant(self, v, name):
        if v[0] == 'agg' and v[2] == name:
            return v
        if v[0] == 'phi':
            return ('phi', tuple(self._variant(x, name) for x in v[1]))
        return ('variant', v, name)

    MAP_LIKE = ('std::result::Result::<T, E>::map', 'std::option::Option::<T>::map')
    AND_THEN = ('std::result::Result::<T, E>::and_then', 'std::option::Option::<T>::and_then')

    def mk_unwrap(self, v, d=0):
        """the success payload of v, in a normal form that does not depend on whether the code says
        `f(x?)`, `x.map(f)?` or `x.and_then(|y| Ok(f(y)))?`"""
        v = self._ok_core(v)
        if d < 6 and v[0] == 'call' and len(v[2]) == 2 and v[2][1][0] in ('closure', 'fnitem'):
            if v[1] in self.AND_THEN:
                r = self.apply_closure(v[2][1], (self.mk_unwrap(v[2][0], d + 1),))
                if r is not None:
                    return self.mk_unwrap(r, d + 1)
            elif v[1] in self.MAP_LIKE:
                r = self.apply_closure(v[2][1], (self.mk_unwrap(v[2][0], d + 1),))
                if r is not None:
                    return r
        if d > 0 and v[0] == 'agg' and v[2] in ('Ok', 'Some') and v[1] in ('std::result::Result', 'std::option::Option') and len(v[3]) == 1:
            return v[3][0][1]
        if d > 0 and v[0] == 'phi':
            # the success payload of "early-return errors | Ok(x)" is x
            good = [x for x in v[1] if not _err_like(x)]
            if good and len(good) < len(v[1]):
                return _phi([self.mk_unwrap(x, d + 1) for x in good])
        return ('unwrap', v)

    def _ok_core(self, v):
        """strip adapters that do not change the success payload"""
        while v[0] == 'call' and v[1] in OK_PRESERVING and v[2]:
            v = v[2][0]
        return v

    def _local(self, fn, local, seen, d):
        defs = fn.whole_defs(local)
        is_param = 1 <= local <= fn.argc
        if is_param:
            if fn.kind == 'Closure' and local == 1:
                pv = ('closure_env', fn.path)
            else:
                pv = ('param', fn.path, local - 1, fn.local_name(local))
            if not defs:
                return pv
            vals = [pv] + [self._def_value(fn, dd, seen, d) for dd in defs]
            return _phi(vals)
        if not defs:
            pd = fn.partial_defs(local)
            if pd:
                # built field by field (e.g. `_3.0 = ..; _3.1 = ..`)
                comps = []
                for dd in pd:
                    kind, bi, si, rv, pl = dd
                    if kind == 'stmt':
                        comps.append((pl[-1].lstrip('.'), self._rvalue(fn, rv, seen, d, (bi, si))))
                return ('agg', None, None, tuple(comps))
            return ('unknown', 'no-def _%d in %s' % (local, fn.path))
        vals = [self._def_value(fn, dd, seen, d) for dd in defs]
        v = self._select(fn, defs, vals) if len(defs) > 1 else None
        if v is None:
            v = _phi(vals)
        return self._with_updates(fn, local, v, seen, d)

    def _select_str(self, fn, defs, vals):
        """`match s { "a" => X, "b" => Y, _ => Z }` on a string: ('select', s, 'str', ((('a',), X), (('b',), Y), (('*',), Z)))"""
        from .guards import conditions
        rows = []
        subj = subj_v = None
        for dd, x in zip(defs, vals):
            eqs = []
            for c in conditions(fn, dd[1], self):
                v = c.value
                if c.kind == 'bool' and v[0] == 'call' and v[1].endswith('::eq') and len(v[2]) == 2:
                    a, b = v[2]
                    while a[0] in ('unwrap', 'updated'):
                        a = a[1]
                    if b[0] == 'const' and isinstance(b[1], str):
                        eqs.append((canon(a), a, b[1], c.outcome))
            if not eqs:
                return None
            for cs, a, _, _ in eqs:
                if subj is None:
                    subj, subj_v = cs, a
                elif cs != subj:
                    return None
            true = [k for _, _, k, oc in eqs if oc is True]
            if len(true) > 1:
                return None
            rows.append(((true[0],) if true else ('*',), x))
        keys = [r[0] for r in rows]
        if len(set(keys)) != len(keys):
            return None
        return ('select', subj_v, 'str', tuple(rows))

    def _select(self, fn, defs, vals):
        """a `match` that maps the variants of one enum value to literal results is kept as a table:
        ('select', subject, enum, ((variant names, value)...)) — the correlation a plain phi would lose"""
        def tabular(x):
            if x[0] == 'const':
                return True
            if x[0] == 'agg' and x[1] is not None:
                return all(tabular(fv) for _, fv in x[3])
            # the payload of the matched variant itself (`Self::Directory(path) => path`)
            y = x
            while y[0] == 'field':
                y = y[1]
            # ... or a field of some other place (`Scope::Build => &mut result.layer_paths_build`)
            return y is not x
        if not all(tabular(x) for x in vals):
            return None
        from .guards import conditions
        srows = self._select_str(fn, defs, vals)
        if srows is not None:
            return srows
        rows = []
        subj = enum = None
        for dd, x in zip(defs, vals):
            cds = [c for c in conditions(fn, dd[1], self) if c.kind == 'variant' and c.enum and not c.enum.startswith('std::ops::ControlFlow')]
            if not cds:
                return None
            c = cds[-1]
            cs = canon(c.subject)
            if subj is None:
                subj, enum, subj_v = cs, c.enum, c.subject
            elif cs != subj or c.enum != enum:
                return None
            rows.append((tuple(sorted(c.outcome)), x))
        seen_v = set()
        for names, _ in rows:
            if seen_v & set(names):
                return None
            seen_v |= set(names)
        return ('select', subj_v, enum, tuple(rows))

    # `&mut self` methods of std string types that append their argument
    APPENDERS = {'std::ffi::OsString::push', 'std::string::String::push_str', 'std::string::String::push',
                 'std::path::PathBuf::push'}

    READERS = {'std::io::Read::read_to_string': 'std::fs::read_to_string', 'std::io::Read::read_to_end': 'std::fs::read'}

    def _read_into(self, fn, local):
        """`File::open(p)?.read_to_string(&mut buf)`: the buffer holds what `fs::read_to_string(p)?` returns"""
        key = ('readinto', fn.path)
        idx = self._cache.get(key)
        if idx is None:
            idx = {}
            refs = {}
            for b in fn.blocks:
                for st in b['s']:
                    if st[0] == '=' and len(st[1]) == 1 and st[2]['r'] == 'ref' and st[2].get('mut') and len(st[2]['p']) == 1:
                        refs[st[1][0]] = st[2]['p'][0]
            for c in fn.calls:
                if not c.indirect and c.decl in self.READERS and len(c.args) == 2:
                    pl = op_place(c.args[1])
                    if pl and len(pl) == 1 and pl[0] in refs:
                        idx.setdefault(refs[pl[0]], []).append(c)
            self._cache[key] = idx
        cs = idx.get(local, [])
        if len(cs) != 1:
            return None
        c = cs[0]
        recv = self.operand(fn, c.args[0])
        for x in walk(recv):
            if x[0] == 'call' and x[1] == 'std::fs::File::open' and x[2]:
                # the read can fail: the buffer is meaningful only after `?` on the read — model as the unwrapped whole-file read
                return ('unwrap', ('call', self.READERS[c.decl], (x[2][0],), (fn.path, c.bb)))
        return None

    def _appends(self, fn, local):
        """values appended to `local` through `&mut local` (in reverse post-order of the call sites)"""
        key = ('appends', fn.path)
        idx = self._cache.get(key)
        if idx is None:
            idx = {}
            refs = {}
            for bi, b in enumerate(fn.blocks):
                for st in b['s']:
                    if st[0] == '=' and len(st[1]) == 1 and st[2]['r'] == 'ref' and st[2].get('mut') and len(st[2]['p']) == 1:
                        refs[st[1][0]] = st[2]['p'][0]
            rpo = fn._rpo()
            pos = {b: i for i, b in enumerate(rpo)}
            for c in sorted((c for c in fn.calls if not c.indirect and c.name in self.APPENDERS and len(c.args) == 2),
                            key=lambda c: pos.get(c.bb, 10 ** 6)):
                pl = op_place(c.args[0])
                if pl and len(pl) == 1 and pl[0] in refs:
                    idx.setdefault(refs[pl[0]], []).append(c)
            self._cache[key] = idx
        return idx.get(local, [])

    def _with_updates(self, fn, local, v, seen, d):
        """record field assignments made after the whole definition: ('updated', base, ((proj, value)...));
        a string built by pushing onto it is ('concat', (base, pushed...))"""
        rd = self._read_into(fn, local)
        if rd is not None:
            return rd
        app = self._appends(fn, local)
        if app:
            fresh = v[0] == 'call' and v[1].endswith(('::new', '::with_capacity', '::default'))
            return ('concat', v, tuple(self.operand(fn, c.args[1], seen, d) for c in app), fresh)
        ups = []
        for dd in fn.partial_defs(local):
            kind, bi, si, rv, pl = dd
            if kind == 'stmt':
                proj = ''.join(x for x in pl[1:] if x != '*')
                ups.append((proj, self._rvalue(fn, rv, seen, d, (bi, si))))
        if ups:
            whole = [uv for proj, uv in ups if proj == '']
            if whole:
                # `*place = value` through a reference / box: the pointee is that value (`vec![a, b]` writes its
                # array into a fresh box this way)
                return whole[-1]
            return ('updated', v, tuple(ups))
        return v

    def _def_value(self, fn, dd, seen, d):
        kind = dd[0]
        if kind == 'stmt':
            _, bi, si, rv, pl = dd
            return self._rvalue(fn, rv, seen, d, (bi, si))
        if kind == 'call':
            return self._call_value(fn, dd[3], seen, d)
        return ('unknown', kind)

    def _rvalue(self, fn, rv, seen, d, at):
        r = rv['r']
        if r == 'use':
            return self.operand(fn, rv['o'], seen, d)
        if r in ('ref', 'cfd', 'rawptr'):
            return self.place(fn, rv['p'], seen, d)
        if r == 'cast':
            inner = self.operand(fn, rv['o'], seen, d)
            if 'Unsize' in rv['kind'] or 'Pointer' in rv['kind'] or 'Transmute' in rv['kind']:
                return inner
            return ('cast', inner, rv['ty'])
        if r == 'discr':
            return ('discr', self.place(fn, rv['p'], seen, d))
        if r == 'bin':
            return ('bin', rv['op'], self.operand(fn, rv['a'], seen, d), self.operand(fn, rv['b'], seen, d))
        if r == 'un':
            return ('un', rv['op'], self.operand(fn, rv['o'], seen, d))
        if r == 'agg':
            ops = tuple(self.operand(fn, o, seen, d) for o in rv['ops'])
            k = rv['kind']
            if k == 'adt':
                return ('agg', rv['adt'], rv['variant'], tuple(zip(rv['fields'], ops)))
            if k == 'tuple':
                return ('tuple', ops)
            if k == 'array':
                return ('array', ops)
            if k == 'closure':
                return ('closure', rv['def'], ops)
            return ('agg', k, None, tuple((str(i), o) for i, o in enumerate(ops)))
        if r == 'repeat':
            return ('repeat', self.operand(fn, rv['o'], seen, d), rv['n'])
        return ('unknown', rv.get('pp', r))

    def _vec_macro_array(self, fn, call, seen, d):
        """`vec![a, b, c]` lowers to Box::new_uninit() + a write of the array through a raw pointer derived from the box +
        box_assume_init_into_vec_unsafe(box): recover the array literal"""
        pl = op_place(call.args[0])
        box_locals = set()
        while pl is not None and len(pl) == 1 and pl[0] not in box_locals:
            box_locals.add(pl[0])
            defs = fn.whole_defs(pl[0])
            if len(defs) == 1 and defs[0][0] == 'stmt' and defs[0][3]['r'] == 'use':
                pl = op_place(defs[0][3]['o'])
            else:
                break
        ptrs = set()
        for b in fn.blocks:
            for st in b['s']:
                if st[0] == '=' and len(st[1]) == 1 and st[2]['r'] == 'cast':
                    src = op_place(st[2]['o'])
                    if src and src[0] in box_locals and len(src) > 1:
                        ptrs.add(st[1][0])
        found = []
        for bi, b in enumerate(fn.blocks):
            for si, st in enumerate(b['s']):
                if st[0] == '=' and st[1][0] in ptrs and len(st[1]) > 1 and st[1][1] == '*' and st[2]['r'] == 'agg' and st[2].get('kind') == 'array':
                    found.append(self._rvalue(fn, st[2], seen, d, (bi, si)))
        return found[0] if len(found) == 1 else None

    def _call_value(self, fn, call, seen, d):
        if call.indirect:
            callee = self.operand(fn, call.fop, seen, d)
            args = tuple(self.operand(fn, a, seen, d) for a in call.args)
            return ('icall', callee, args, (fn.path, call.bb))
        if call.name and call.name.startswith('std::boxed::box_assume_init_into_vec_unsafe') and call.args:
            arr = self._vec_macro_array(fn, call, seen, d)
            if arr is not None:
                return arr
        if is_transparent(call) and call.args:
            return self.operand(fn, call.args[0], seen, d)
        names = call.names()
        if names & UNWRAPPING:
            return self.mk_unwrap(self.operand(fn, call.args[0], seen, d))
        # format!(..) -> fmt::format(Arguments::new(template, &args))
        if call.is_('std::fmt::format', 'alloc::fmt::format'):
            return self.operand(fn, call.args[0], seen, d)
        if call.decl and call.decl.startswith('std::fmt::Arguments::') and call.decl.endswith('::new'):
            tv = self.operand(fn, call.args[0], seen, d)
            av = self.operand(fn, call.args[1], seen, d) if len(call.args) > 1 else ('array', ())
            if tv[0] == 'const' and isinstance(tv[1], (bytes, bytearray)):
                pieces = []
                argv = av[1] if av[0] == 'array' else None
                for p in decode_fmt_template(tv[1]):
                    if isinstance(p, str):
                        pieces.append(p)
                    else:
                        if argv is not None and p[1] < len(argv):
                            pieces.append(argv[p[1]])
                        else:
                            pieces.append(('unknown', 'fmt-arg'))
                return ('fmt', tuple(pieces))
            return ('fmt', (('unknown', 'template'),))
        if call.decl and call.decl.startswith('std::fmt::Arguments::') and call.decl.endswith('::from_str'):
            tv = self.operand(fn, call.args[0], seen, d)
            if tv[0] == 'const':
                return ('fmt', (tv[1],))
        if call.decl and call.decl.startswith('core::fmt::rt::Argument::') and '::new_' in call.decl:
            return self.operand(fn, call.args[0], seen, d)
        args = tuple(self.operand(fn, a, seen, d) for a in call.args)
        return ('call', value_call_name(call), args, (fn.path, call.bb))


def value_call_name(call):
    """std trait methods are named by their declaration (`std::ops::Try::branch`), everything else by
    the resolved instance"""
    if call.decl and call.decl.startswith(('std::', 'core::', 'alloc::')) and not call.decl.startswith('<'):
        if call.res and call.res.startswith('<') and not any(
                call.res.startswith('<' + c) for c in ('libcnb', 'libherokubuildpack', 'cargo_libcnb')):
            return call.decl
    return call.name



def _err_like(x):
    """a value that can only be a failure: Err(..) / None literal, or the residual conversion of `?`"""
    if x[0] == 'agg' and x[2] in ('Err', 'None') and x[1] in ('std::result::Result', 'std::option::Option'):
        return True
    return x[0] == 'call' and x[1].endswith('FromResidual::from_residual')


def canon(v):
    """value with call-site identities removed (for comparing values computed at different sites)"""
    if not isinstance(v, tuple) or not v:
        return v
    if v[0] == 'call' and len(v) == 4:
        return ('call', v[1], tuple(canon(x) for x in v[2]))
    if v[0] == 'icall' and len(v) == 4:
        return ('icall', canon(v[1]), tuple(canon(x) for x in v[2]))
    return tuple(canon(x) if isinstance(x, tuple) else x for x in v)


def subst(v, mapping, slicer):
    """replace ('param', fn, i, _) leaves by mapping[(fn, i)]; mapping['__repl__'] = [(canonical subtree, value)]
    additionally replaces whole subtrees (loop elements bound to one row of an unrolled table)"""
    repl = mapping.get('__repl__') if mapping else None
    return _subst(v, mapping, slicer, repl)


def _subst(v, mapping, slicer, repl):
    if not isinstance(v, tuple) or not v:
        return v
    if v[0] == 'param':
        r = mapping.get((v[1], v[2]))
        return r if r is not None else v
    if v[0] == 'upvar':
        r = mapping.get(('upvar', v[1], v[2]))
        return r if r is not None else v
    if v[0] in ('const', 'fnitem', 'constitem', 'unknown', 'closure_env'):
        return v
    if repl and v[0] == 'unwrap':
        cv = canon(v)
        for key, new in repl:
            if cv == key:
                return new
    out = []
    changed = False
    for x in v:
        if isinstance(x, tuple):
            y = _subst(x, mapping, slicer, repl)
            changed = changed or (y is not x)
            out.append(y)
        else:
            out.append(x)
    if not changed:
        return v
    nv = tuple(out)
    # re-normalise projections of substituted aggregates
    if nv[0] == 'field' and nv[1][0] in ('agg', 'tuple', 'closure', 'phi', 'updated'):
        return slicer._field(nv[1], nv[2])
    if nv[0] == 'variant' and nv[1][0] in ('agg', 'phi'):
        return slicer._variant(nv[1], nv[2])
    if nv[0] == 'select' and nv[1][0] == 'agg' and nv[1][2] is not None and nv[2] != 'str':
        # the matched value became a literal variant: the table reduces to its row
        for names, val in nv[3]:
            if nv[1][2] in names:
                return val
    return nv


def _phi(vals):
    flat = []
    for v in vals:
        if v[0] == 'phi':
            for x in v[1]:
                if x not in flat:
                    flat.append(x)
        elif v not in flat:
            flat.append(v)
    if len(flat) == 1:
        return flat[0]
    return ('phi', tuple(flat))


def _contains_cycle(v):
    if not isinstance(v, tuple):
        return False
    if v and v[0] == 'unknown' and len(v) > 1 and v[1] == 'cycle':
        return True
    return any(_contains_cycle(x) for x in v if isinstance(x, tuple))


def concat_parts(v):
    """all parts of a ('concat', base, pushed, fresh) value, the base first unless it is a fresh empty string"""
    return ([] if v[3] else [v[1]]) + list(v[2])


def walk(v):
    """pre-order iterator over all sub-values"""
    if isinstance(v, tuple):
        if v and isinstance(v[0], str):
            yield v
        for x in v:
            if isinstance(x, tuple):
                yield from walk(x)


def leaves(v, kinds):
    return [x for x in walk(v) if x[0] in kinds]


def contains(v, pred):
    return any(pred(x) for x in walk(v))


def vstr(v, depth=0):
    """compact human-readable rendering"""
    if not isinstance(v, tuple) or not v:
        return repr(v)
    k = v[0]
    if depth > 12:
        return '…'
    s = lambda x: vstr(x, depth + 1)
    if k == 'param':
        return '%s' % (v[3] or 'arg%d' % v[2])
    if k == 'const':
        return repr(v[1])
    if k == 'fnitem':
        return 'fn ' + v[1]
    if k == 'constitem':
        return 'const ' + str(v[1] or v[2])
    if k == 'field':
        return '%s.%s' % (s(v[1]), v[2])
    if k == 'variant':
        return '(%s as %s)' % (s(v[1]), v[2])
    if k == 'call':
        return '%s(%s)' % (_short(v[1]), ', '.join(s(a) for a in v[2]))
    if k == 'icall':
        return '(%s)(%s)' % (s(v[1]), ', '.join(s(a) for a in v[2]))
    if k == 'agg':
        return '%s%s{%s}' % (_short(v[1] or '?'), ('::' + v[2]) if v[2] else '', ', '.join('%s: %s' % (n, s(x)) for n, x in v[3]))
    if k in ('tuple', 'array'):
        return ('(%s)' if k == 'tuple' else '[%s]') % ', '.join(s(x) for x in v[1])
    if k == 'select':
        return 'select(%s){%s}' % (s(v[1]), ', '.join('%s=>%s' % ('|'.join(n), s(x)) for n, x in v[3]))
    if k == 'concat':
        return 'concat(%s)' % ' ++ '.join(s(x) for x in concat_parts(v))
    if k == 'closure':
        return 'closure<%s>[%s]' % (_short(v[1]), ', '.join(s(x) for x in v[2]))
    if k == 'fmt':
        return 'fmt(%s)' % ' + '.join(repr(p) if isinstance(p, str) else '{' + s(p) + '}' for p in v[1])
    if k in ('unwrap', 'unwrap_err', 'residual', 'discr'):
        return '%s(%s)' % (k, s(v[1]))
    if k == 'phi':
        return 'phi(%s)' % ' | '.join(s(x) for x in v[1])
    if k == 'bin':
        return '%s(%s, %s)' % (v[1], s(v[2]), s(v[3]))
    if k == 'un':
        return '%s(%s)' % (v[1], s(v[2]))
    if k == 'cast':
        return '(%s as %s)' % (s(v[1]), v[2])
    if k == 'closure_env':
        return 'env'
    if k == 'updated':
        return '%s with {%s}' % (s(v[1]), ', '.join('%s := %s' % (p, s(x)) for p, x in v[2]))
    if k == 'index':
        return '%s%s' % (s(v[1]), v[2])
    if k == 'unknown':
        return '?<%s>' % (v[1] if len(v) > 1 else '')
    return str(v)


def _short(name):
    if not name:
        return '?'
    # keep last two path segments
    m = re.sub(r'<[^<>]*>', '', name)
    parts = [p for p in m.split('::') if p]
    return '::'.join(parts[-2:]) if len(parts) >= 2 else name
