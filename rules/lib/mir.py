"""Loader and core program model for the facts exported by the cnbfacts driver.

Everything here is a read-only view over the type-checked MIR of /repo's workspace crates:
functions, CFGs, dominators, call sites with compiler-resolved callees, def-use chains.
No repository code is executed.
"""
import glob
import json
import os
import re
from functools import lru_cache


class FactsError(Exception):
    pass


def op_place(op):
    """place of a Copy/Move operand or None for constants"""
    if op is None:
        return None
    if 'c' in op:
        return op['c']
    if 'm' in op:
        return op['m']
    return None


def op_const(op):
    return op.get('k') if op else None


def const_value(k):
    """python value of an exported constant: str / int / bool / bytes or None"""
    if k is None:
        return None
    v = k.get('v')
    if v is None:
        return None
    if 'str' in v:
        return v['str']
    if 'int' in v:
        return v['int']
    if 'bool' in v:
        return v['bool']
    if 'char' in v:
        return v['char']
    if 'bytes' in v:
        return v['bytes'].encode('latin-1')
    return None


class Call:
    __slots__ = ('fn', 'bb', 'decl', 'res', 'full', 'ga', 'args', 'dest', 'target', 'unwind',
                 'line', 'exp', 'macros', 'dty', 'indirect', 'fty', 'fop', 'defkind')

    def __init__(self, fn, bb, t):
        self.fn = fn
        self.bb = bb
        f = t['f']
        k = f.get('k')
        self.fop = f
        self.indirect = not (k and 'fn' in k)
        if not self.indirect:
            self.decl = k['fn']
            self.res = k.get('res')
            self.full = k.get('res_full') or k.get('fn_full')
            self.ga = k.get('ga', [])
            self.defkind = k.get('defkind')
        else:
            self.decl = None
            self.res = None
            self.full = None
            self.ga = []
            self.defkind = None
        self.fty = t.get('fty')
        self.args = t.get('args', [])
        self.dest = t.get('dest')
        self.target = t.get('to')
        self.unwind = t.get('unw')
        self.line = t.get('ln')
        self.exp = t.get('exp', False)
        self.macros = t.get('macros', [])
        self.dty = t.get('dty')

    @property
    def name(self):
        """best callee identity: resolved instance path if known, else declared path"""
        return self.res or self.decl

    def names(self):
        return {n for n in (self.res, self.decl) if n}

    def is_(self, *names):
        return bool(self.names() & set(names))

    def matches(self, rx):
        return any(re.search(rx, n) for n in self.names())

    def where(self):
        return '%s:%s' % (self.fn.file, self.line)

    def __repr__(self):
        return '<Call %s in %s bb%d :%s>' % (self.name or 'indirect', self.fn.path, self.bb, self.line)


class Fn:
    def __init__(self, prog, j, crate):
        self.prog = prog
        self.j = j
        self.crate = crate
        self.path = j['path']
        self.kind = j['kind']
        self.file = j['file']
        self.line = j['line']
        self.vis = j['vis']
        self.parent = j['parent']
        self.derived = j['derived']
        self.from_expansion = j['from_expansion']
        self.impl = j['impl']
        self.impl_trait = j['impl_trait']
        self.self_head = j['self_head']
        self.argc = j['argc']
        self.args = j['args']
        self.ret = j['ret']
        self.locals = j['locals']
        self.blocks = j['blocks']
        self.upvars = j.get('upvars', [])
        self._calls = None
        self._preds = {}
        self._dom = {}
        self._defs = None
        self._reach = {}

    # ---- CFG --------------------------------------------------------------------------------
    def succs(self, bb, unwind=False):
        t = self.blocks[bb]['t']
        k = t['t']
        out = []
        if k == 'goto':
            out = [t['to']]
        elif k == 'switch':
            kc = t['o'].get('k')
            cv = const_value(kc) if kc is not None else None
            if cv is not None and isinstance(cv, (bool, int)):
                # `cfg!(..)` / literal conditions: only the matching edge is feasible
                iv = int(cv)
                hit = [b for v, b in t['targets'] if v == iv]
                out = hit[:1] if hit else [t['else']]
            else:
                out = [b for _, b in t['targets']] + [t['else']]
        elif k in ('drop', 'assert'):
            out = [t['to']]
            if unwind and isinstance(t.get('unw'), int):
                out.append(t['unw'])
        elif k == 'call':
            if t.get('to') is not None:
                out = [t['to']]
            if unwind and isinstance(t.get('unw'), int):
                out.append(t['unw'])
        return out

    def preds(self, unwind=False):
        if unwind not in self._preds:
            p = {i: [] for i in range(len(self.blocks))}
            for i in range(len(self.blocks)):
                for s in self.succs(i, unwind):
                    p[s].append(i)
            self._preds[unwind] = p
        return self._preds[unwind]

    def reachable(self, start=0, unwind=False, stop=()):
        """blocks reachable from start (inclusive); traversal does not continue through `stop` blocks"""
        seen = set()
        work = [start]
        stop = set(stop)
        while work:
            b = work.pop()
            if b in seen:
                continue
            seen.add(b)
            if b in stop:
                continue
            work.extend(self.succs(b, unwind))
        return seen

    def dominators(self, unwind=False):
        """dict bb -> set of dominators (iterative, reachable blocks only)"""
        if unwind in self._dom:
            return self._dom[unwind]
        reach = self.reachable(0, unwind)
        preds = self.preds(unwind)
        order = self._rpo(unwind)
        dom = {b: None for b in reach}
        dom[0] = {0}
        changed = True
        while changed:
            changed = False
            for b in order:
                if b == 0:
                    continue
                ps = [dom[p] for p in preds[b] if p in reach and dom[p] is not None]
                if not ps:
                    continue
                new = set.intersection(*ps) | {b}
                if dom[b] != new:
                    dom[b] = new
                    changed = True
        for b in reach:
            if dom[b] is None:
                dom[b] = {b}
        self._dom[unwind] = dom
        return dom

    def _rpo(self, unwind=False):
        seen = set()
        order = []

        def dfs(b):
            stack = [(b, iter(self.succs(b, unwind)))]
            seen.add(b)
            while stack:
                node, it = stack[-1]
                adv = False
                for s in it:
                    if s not in seen:
                        seen.add(s)
                        stack.append((s, iter(self.succs(s, unwind))))
                        adv = True
                        break
                if not adv:
                    order.append(node)
                    stack.pop()
        dfs(0)
        order.reverse()
        return order

    def dominates(self, a, b, unwind=False):
        d = self.dominators(unwind)
        return b in d and a in d[b]

    def return_blocks(self):
        return [i for i, b in enumerate(self.blocks) if b['t']['t'] == 'ret']

    def in_loop(self, bb):
        """is block bb on a cycle of the normal-edge CFG"""
        for s in self.succs(bb):
            if bb in self.reachable(s):
                return True
        return False

    # ---- calls ------------------------------------------------------------------------------
    @property
    def calls(self):
        if self._calls is None:
            self._calls = []
            for i, b in enumerate(self.blocks):
                t = b['t']
                if t['t'] in ('call', 'tailcall'):
                    self._calls.append(Call(self, i, t))
        return self._calls

    def call_at(self, bb):
        t = self.blocks[bb]['t']
        if t['t'] in ('call', 'tailcall'):
            for c in self.calls:
                if c.bb == bb:
                    return c
        return None

    def calls_to(self, *names, rx=None):
        out = []
        for c in self.calls:
            if c.indirect:
                continue
            if names and c.is_(*names):
                out.append(c)
            elif rx and c.matches(rx):
                out.append(c)
        return out

    # ---- def-use ----------------------------------------------------------------------------
    def defs(self):
        """local -> list of ('stmt', bb, idx, rvalue) | ('call', bb, Call) | ('setdiscr', bb, idx, variant)
        for writes to the *whole* local; partial writes are under key (local, 'partial')."""
        if self._defs is None:
            d = {}
            for bi, b in enumerate(self.blocks):
                for si, s in enumerate(b['s']):
                    if s[0] == '=':
                        pl = s[1]
                        key = pl[0] if len(pl) == 1 else (pl[0], 'partial')
                        d.setdefault(key, []).append(('stmt', bi, si, s[2], pl))
                    elif s[0] == 'setdiscr':
                        pl = s[1]
                        d.setdefault((pl[0], 'partial'), []).append(('setdiscr', bi, si, s[2], pl))
                t = b['t']
                if t['t'] == 'call':
                    pl = t['dest']
                    key = pl[0] if len(pl) == 1 else (pl[0], 'partial')
                    d.setdefault(key, []).append(('call', bi, None, self.call_at(bi), pl))
            self._defs = d
        return self._defs

    def whole_defs(self, local):
        return self.defs().get(local, [])

    def partial_defs(self, local):
        return self.defs().get((local, 'partial'), [])

    def local_name(self, local):
        return self.locals[local].get('name')

    def local_ty(self, local):
        return self.locals[local]['ty']

    def uses_of(self, local):
        """all (bb, kind, detail) where `local` occurs in an operand/place read position"""
        out = []
        for bi, b in enumerate(self.blocks):
            for si, s in enumerate(b['s']):
                if s[0] == '=':
                    for pl, how in _rvalue_places(s[2]):
                        if pl[0] == local:
                            out.append((bi, 'stmt', si, how, pl))
            t = b['t']
            if t['t'] in ('call', 'tailcall'):
                for ai, a in enumerate(t.get('args', [])):
                    pl = op_place(a)
                    if pl and pl[0] == local:
                        out.append((bi, 'arg', ai, 'm' if 'm' in a else 'c', pl))
                pl = op_place(t['f'])
                if pl and pl[0] == local:
                    out.append((bi, 'callee', None, 'c', pl))
            elif t['t'] == 'switch':
                pl = op_place(t['o'])
                if pl and pl[0] == local:
                    out.append((bi, 'switch', None, 'c', pl))
            elif t['t'] == 'drop':
                if t['p'][0] == local:
                    out.append((bi, 'drop', None, 'drop', t['p']))
            elif t['t'] == 'assert':
                pl = op_place(t['o'])
                if pl and pl[0] == local:
                    out.append((bi, 'assert', None, 'c', pl))
        return out

    def __repr__(self):
        return '<Fn %s>' % self.path


def _rvalue_places(rv):
    """yield (place, how) for every place read by an rvalue; how in c/m/ref/refmut/discr/cfd"""
    r = rv['r']
    if r in ('use', 'cast', 'un', 'repeat'):
        o = rv['o']
        p = op_place(o)
        if p:
            yield p, ('m' if 'm' in o else 'c')
    elif r == 'ref':
        yield rv['p'], ('refmut' if rv['mut'] else 'ref')
    elif r in ('cfd', 'rawptr'):
        yield rv['p'], r
    elif r == 'discr':
        yield rv['p'], 'discr'
    elif r == 'bin':
        for o in (rv['a'], rv['b']):
            p = op_place(o)
            if p:
                yield p, ('m' if 'm' in o else 'c')
    elif r == 'agg':
        for o in rv['ops']:
            p = op_place(o)
            if p:
                yield p, ('m' if 'm' in o else 'c')


BASELINE = os.path.join(os.path.dirname(os.path.dirname(os.path.abspath(__file__))), 'tables', 'baseline_fns.json')


def fn_sig(fj, crate):
    return [crate, fj['kind'], fj['args'], fj['ret']]


def adt_sig(a, crate):
    st = a['kind'] != 'enum'
    return [crate, a['kind'], [[None if st else v['name'], [[f['name'], f['ty']] for f in v['fields']]] for v in a['variants']]]


def _match(missing, fresh):
    """baseline item -> the unique new item of identical signature (ties broken by same parent path or same name)"""
    out, used = {}, set()
    par = lambda q: q.rsplit('::', 1)[0]
    last = lambda q: q.rsplit('::', 1)[-1]
    for p, s in sorted(missing.items()):
        cands = [q for q, t in fresh.items() if t == s]
        if len(cands) > 1:
            same = [q for q in cands if par(q) == par(p)]
            nm = [q for q in cands if last(q) == last(p)]
            cands = same if len(same) == 1 else (nm if len(nm) == 1 else cands)
        others = [m for m, t in missing.items() if t == s]
        if len(cands) == 1 and cands[0] not in used and (len(others) == 1 or par(cands[0]) == par(p) or last(cands[0]) == last(p)):
            out[cands[0]] = p
            used.add(cands[0])
    return out


def _substitute(texts, aliases):
    if not aliases:
        return texts
    rx = re.compile(r'(?<![\w:])(' + '|'.join(re.escape(n) for n in sorted(aliases, key=len, reverse=True)) + r')(?!\w)')
    return [rx.sub(lambda m: aliases[m.group(1)], t) for t in texts]


def read_under_baseline_names(texts):
    """Private helpers and private types may be renamed or moved without any change of behaviour.  The rules name
    items by today's paths (tables/baseline_fns.json: path -> signature on the pinned tree).  A baseline item that
    is gone is identified with an item that is new when exactly one new item of the same crate has the identical
    signature (types: kind, variant and field names and field types; functions: argument and return types); the
    facts are then read under the baseline name.  The bodies that are analysed are always the current ones, so this
    only adds tolerance to renames; it cannot hide a changed behaviour.  Types first (function signatures mention them)."""
    try:
        with open(BASELINE) as fh:
            base = json.load(fh)
    except OSError:
        return texts, {}
    aliases = {}
    for what in ('adts', 'fns'):
        docs = [json.loads(t) for t in texts]
        crates = {d['crate'] for d in docs}
        cur = {}
        for d in docs:
            if what == 'adts':
                for a in d['adts']:
                    if not a.get('in_body') and a['path'].split('::')[0] == d['crate']:
                        cur.setdefault(a['path'], adt_sig(a, d['crate']))
            else:
                for fj in d['fns']:
                    if fj['kind'] in ('Fn', 'AssocFn') and not fj['path'].startswith('<'):
                        cur.setdefault(fj['path'], fn_sig(fj, d['crate']))
        missing = {p: s for p, s in base[what].items() if p not in cur and s[0] in crates}
        fresh = {p: s for p, s in cur.items() if p not in base[what]}
        m = _match(missing, fresh) if missing and fresh else {}
        if m:
            aliases.update(m)
            texts = _substitute(texts, m)
    return texts, aliases


class Program:
    """all facts of one build configuration"""

    def __init__(self, facts_dir):
        self.dir = facts_dir
        self.crates = {}
        self.fns = {}
        self.adts = {}
        self.impls = []
        self.consts = {}
        self.macros = []
        self.traits = {}
        files = sorted(glob.glob(os.path.join(facts_dir, '*.json')))
        if not files:
            raise FactsError('no fact files in %s' % facts_dir)
        docs = []
        for fp in files:
            with open(fp) as fh:
                docs.append((fp, fh.read()))
        texts, self.aliases = read_under_baseline_names([t for _, t in docs])
        docs = [(fp, t) for (fp, _), t in zip(docs, texts)]
        for fp, text in docs:
            d = json.loads(text)
            key = (d['crate'], tuple(d['crate_types']), d.get('test_harness', False))
            if key in self.crates:
                continue  # same crate compiled twice (host/target); identical source
            self.crates[key] = {'file': fp, 'features': d['features'], 'panic': d['panic'],
                                'target': d['target'], 'nfns': len(d['fns'])}
            for fj in d['fns']:
                f = Fn(self, fj, d['crate'])
                if f.path not in self.fns:
                    self.fns[f.path] = f
            for a in d['adts']:
                self.adts.setdefault(a['path'], a)
            for i in d['impls']:
                i['crate'] = d['crate']
                self.impls.append(i)
            for c in d['consts']:
                self.consts.setdefault(c['path'], c)
            for m in d['macros']:
                m['crate'] = d['crate']
                self.macros.append(m)
            for t in d.get('traits', []):
                self.traits.setdefault(t['path'], t)
        self._callers = None

    def crate_names(self):
        return sorted({k[0] for k in self.crates})

    def crate_features(self, name):
        for k, v in self.crates.items():
            if k[0] == name:
                return v['features']
        return None

    def fn(self, path):
        f = self.fns.get(path)
        if f is None:
            f = self._relocated(path)
        if f is None:
            raise FactsError('anchor function not found: %s' % path)
        return f

    def _relocated(self, path):
        """a private helper that was moved to another module keeps its crate and item name: accept a
        unique free function / inherent method with the same crate, final segment (and owner type)"""
        if path.startswith('<') or '{closure' in path:
            return None
        parts = path.split('::')
        crate, last = parts[0], parts[-1]
        owner = parts[-2] if len(parts) > 2 and parts[-2][:1].isupper() else None
        cands = []
        for p, f in self.fns.items():
            if f.crate != crate or p.startswith('<') or '{closure' in p or f.kind == 'Promoted':
                continue
            ps = p.split('::')
            if ps[-1] != last:
                continue
            o = ps[-2] if len(ps) > 2 and ps[-2][:1].isupper() else None
            if (owner or '').split('<')[0] == (o or '').split('<')[0]:
                cands.append(f)
        return cands[0] if len(cands) == 1 else None

    def find(self, rx, crate=None):
        r = re.compile(rx)
        return [f for p, f in self.fns.items() if r.search(p) and (crate is None or f.crate == crate)]

    def find_one(self, rx, crate=None):
        fs = self.find(rx, crate)
        if len(fs) != 1:
            raise FactsError('expected exactly one function matching %r, found %d: %s'
                             % (rx, len(fs), [f.path for f in fs][:6]))
        return fs[0]

    def closures_of(self, fn):
        """closures (transitively) defined inside fn"""
        pref = fn.path + '::{closure#'
        return [f for p, f in self.fns.items() if p.startswith(pref)]

    def adt(self, path):
        a = self.adts.get(path)
        if a is None:
            raise FactsError('anchor type not found: %s' % path)
        return a

    def impls_of(self, trait=None, self_head=None):
        return [i for i in self.impls
                if (trait is None or i['trait'] == trait) and (self_head is None or i['self_head'] == self_head)]

    def macro(self, name):
        ms = [m for m in self.macros if m['name'] == name]
        if not ms:
            raise FactsError('macro not found: %s' % name)
        return ms

    # ---- call graph -------------------------------------------------------------------------
    def callee_fns(self, call):
        """workspace functions a direct call may enter (resolved instance, declared fn, or
        all workspace impls of an unresolved trait method)"""
        if call.res:
            f = self.fns.get(call.res)
            return [f] if f is not None else []
        # unresolved: a trait method on a generic receiver dispatches to an implementation we cannot
        # see (user callback) — never to the trait's default body
        if call.decl and call.decl in self.fns and call.decl not in self.traits_methods():
            return [self.fns[call.decl]]
        return []

    def traits_methods(self):
        if not hasattr(self, '_tm'):
            tm = set()
            for t in self.traits.values():
                for it in t['items']:
                    tm.add(it['path'])
            self._tm = tm
        return self._tm

    def fn_item_args(self, call):
        """workspace fns / closures passed as arguments (fn items or closure aggregates)"""
        out = []
        f = call.fn
        for a in call.args:
            k = op_const(a)
            if k and 'fn' in k:
                n = k.get('res') or k['fn']
                if n in self.fns:
                    out.append(self.fns[n])
                elif k['fn'] in self.fns:
                    out.append(self.fns[k['fn']])
                continue
            pl = op_place(a)
            if pl:
                head = f.locals[pl[0]].get('head')
                if head and head in self.fns and pl[1:] in ([], ['*']):
                    out.append(self.fns[head])
        return out

    def may_call(self, fn, with_fn_args=True):
        """set of workspace Fn that fn may directly enter"""
        out = []
        for c in fn.calls:
            out.extend(self.callee_fns(c))
            if with_fn_args:
                out.extend(self.fn_item_args(c))
        # closures constructed in fn are considered invocable from fn (conservative)
        for bi, b in enumerate(fn.blocks):
            for s in b['s']:
                if s[0] == '=' and s[2]['r'] == 'agg' and s[2].get('kind') == 'closure':
                    d = s[2]['def']
                    if d in self.fns:
                        out.append(self.fns[d])
        seen = set()
        res = []
        for f in out:
            if f.path not in seen:
                seen.add(f.path)
                res.append(f)
        return res

    def reach(self, roots, stop=None):
        """transitive closure over may_call from a list of Fn; returns dict path->Fn"""
        seen = {}
        work = list(roots)
        while work:
            f = work.pop()
            if f.path in seen:
                continue
            seen[f.path] = f
            if stop and stop(f):
                continue
            work.extend(self.may_call(f))
        return seen

    def callers(self):
        if self._callers is None:
            cs = {}
            for f in self.fns.values():
                for c in f.calls:
                    for n in c.names():
                        cs.setdefault(n, []).append(c)
                    for a in c.args:
                        k = op_const(a)
                        if k and 'fn' in k:
                            for n in {k.get('res'), k['fn']} - {None}:
                                cs.setdefault(n, []).append(c)
            self._callers = cs
        return self._callers


def fmt_place(f, pl):
    s = '_%d' % pl[0]
    n = f.locals[pl[0]].get('name')
    if n:
        s += '{%s}' % n
    for p in pl[1:]:
        s += p if p.startswith(('.', '[', '@')) else ('(%s)' % p if p != '*' else '.*')
    return s


def fmt_op(f, o):
    if 'c' in o:
        return fmt_place(f, o['c'])
    if 'm' in o:
        return 'move ' + fmt_place(f, o['m'])
    k = o['k']
    if 'fn' in k:
        return 'fn:' + (k.get('res_full') or k['fn_full'])
    return 'const ' + k.get('pp', '?')


def fmt_rvalue(f, rv):
    r = rv['r']
    if r == 'use':
        return fmt_op(f, rv['o'])
    if r == 'ref':
        return ('&mut ' if rv['mut'] else '&') + fmt_place(f, rv['p'])
    if r == 'cfd':
        return 'deref_copy ' + fmt_place(f, rv['p'])
    if r == 'discr':
        return 'discriminant(%s)' % fmt_place(f, rv['p'])
    if r == 'cast':
        return '%s as %s (%s)' % (fmt_op(f, rv['o']), rv['ty'], rv['kind'])
    if r == 'bin':
        return '%s(%s, %s)' % (rv['op'], fmt_op(f, rv['a']), fmt_op(f, rv['b']))
    if r == 'un':
        return '%s(%s)' % (rv['op'], fmt_op(f, rv['o']))
    if r == 'agg':
        ops = [fmt_op(f, o) for o in rv['ops']]
        if rv['kind'] == 'adt':
            return '%s::%s{%s}' % (rv['adt'], rv['variant'], ', '.join('%s: %s' % (n, o) for n, o in zip(rv['fields'], ops)))
        if rv['kind'] == 'closure':
            return 'closure %s [%s]' % (rv['def'], ', '.join(ops))
        return '%s(%s)' % (rv['kind'], ', '.join(ops))
    return rv.get('pp', r)


def dump_fn(f, out=None):
    import sys
    out = out or sys.stdout
    out.write('fn %s  [%s:%d] kind=%s vis=%s argc=%d ret=%s\n' % (f.path, f.file, f.line, f.kind, f.vis, f.argc, f.ret))
    for i, l in enumerate(f.locals):
        if l.get('name') or i <= f.argc:
            out.write('  let _%d%s: %s\n' % (i, '{%s}' % l['name'] if l.get('name') else '', l['ty']))
    for bi, b in enumerate(f.blocks):
        out.write(' bb%d%s:\n' % (bi, ' (cleanup)' if b['cleanup'] else ''))
        for s in b['s']:
            if s[0] == '=':
                out.write('    %s = %s   // :%s\n' % (fmt_place(f, s[1]), fmt_rvalue(f, s[2]), s[3]))
            else:
                out.write('    %s %s %s\n' % (s[0], fmt_place(f, s[1]), s[2]))
        t = b['t']
        k = t['t']
        if k == 'call':
            fo = t['f']
            callee = fmt_op(f, fo)
            out.write('    %s = %s(%s) -> bb%s unw %s%s  // :%s\n' % (
                fmt_place(f, t['dest']), callee, ', '.join(fmt_op(f, a) for a in t['args']), t['to'], t['unw'],
                ' [exp:%s]' % ','.join(t.get('macros', [])) if t.get('exp') else '', t['ln']))
        elif k == 'switch':
            out.write('    switch %s -> %s else bb%d\n' % (fmt_op(f, t['o']), ', '.join('%d:bb%d' % (v, b2) for v, b2 in t['targets']), t['else']))
        elif k == 'drop':
            out.write('    drop %s -> bb%s unw %s\n' % (fmt_place(f, t['p']), t['to'], t['unw']))
        elif k == 'goto':
            out.write('    goto bb%d\n' % t['to'])
        elif k == 'assert':
            out.write('    assert %s == %s -> bb%d\n' % (fmt_op(f, t['o']), t['expected'], t['to']))
        else:
            out.write('    %s\n' % k)
