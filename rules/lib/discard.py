"""A9 — Result-discard analysis.

For a call whose destination has type Result<_, E> (or Option, on request) follow the value forward
through the function and classify what finally happens to it:

  propagated   — reaches `?` (Try::branch), is returned (moved into _0), or is matched with the
                 error payload read (explicit handling)
  panics       — unwrap/expect: the failure is not silent
  discarded    — reaches a discarding consumer (ok, unwrap_or*, is_ok, is_err, …) or is never read
                 (only dropped): `let _ = …`, statement expression
  escapes      — handed to a function/closure the analysis does not model (reported as unproven)
"""
from .mir import op_place

PROPAGATING = {
    'std::result::Result::<T, E>::map', 'std::result::Result::<T, E>::map_err',
    'std::result::Result::<T, E>::and_then', 'std::result::Result::<T, E>::or_else',
    'std::result::Result::<T, E>::inspect_err', 'std::result::Result::<T, E>::inspect',
    'std::result::Result::<std::option::Option<T>, E>::transpose',
    'std::option::Option::<std::result::Result<T, E>>::transpose',
    'std::option::Option::<T>::ok_or', 'std::option::Option::<T>::ok_or_else',
    'std::result::Result::<T, E>::as_ref', 'std::result::Result::<T, E>::as_mut',
    'std::result::Result::<&T, E>::cloned', 'std::result::Result::<&T, E>::copied',
    'std::convert::Into::into', 'std::convert::From::from', 'std::hint::must_use',
    'std::result::Result::<T, E>::map_or_else', 'std::iter::Iterator::collect',
    'std::option::Option::<T>::map', 'std::option::Option::<T>::and_then',
    'std::option::Option::<T>::filter', 'std::option::Option::<T>::or_else',
    'std::option::Option::<T>::map_or_else',
    'std::option::Option::<&T>::cloned', 'std::option::Option::<&T>::copied', 'std::option::Option::<T>::as_ref',
    'std::option::Option::<T>::as_deref', 'std::option::Option::<T>::zip', 'std::option::Option::<T>::inspect',
}
DISCARDING = {
    'std::result::Result::<T, E>::ok', 'std::result::Result::<T, E>::err',
    'std::result::Result::<T, E>::unwrap_or', 'std::result::Result::<T, E>::unwrap_or_default',
    'std::result::Result::<T, E>::unwrap_or_else', 'std::result::Result::<T, E>::is_ok',
    'std::result::Result::<T, E>::is_err', 'std::result::Result::<T, E>::iter',
    'std::mem::drop', 'std::result::Result::<T, E>::map_or', 'std::result::Result::<T, E>::is_ok_and',
    'std::result::Result::<T, E>::is_err_and', 'std::result::Result::<T, E>::into_iter',
    'std::result::Result::<T, E>::or', 'std::result::Result::<T, E>::unwrap_or_else',
    'std::mem::forget',
}
PANICKING = {
    'std::result::Result::<T, E>::unwrap', 'std::result::Result::<T, E>::expect',
    'std::result::Result::<T, E>::unwrap_err', 'std::result::Result::<T, E>::expect_err',
}
TRY = 'std::ops::Try::branch'


class Fate:
    def __init__(self, kind, via=None, detail=None):
        self.kind = kind          # propagated | panics | discarded | escapes | returned | matched
        self.via = via            # Call or None
        self.detail = detail

    def __repr__(self):
        return 'Fate(%s%s%s)' % (self.kind, ' via ' + (self.via.name or '?') if self.via else '',
                                 ' ' + self.detail if self.detail else '')


def result_fates(prog, fn, call, allow_fns=None, _depth=0):
    """list of Fate for the Result produced by `call` inside `fn`"""
    dest = call.dest
    if dest is None:
        return [Fate('escapes', detail='no destination')]
    if dest[0] == 0:
        return [Fate('returned')]
    if len(dest) > 1:
        return [Fate('stored', detail='written into a field of _%d' % dest[0])]
    return local_fates(prog, fn, dest[0], allow_fns or {}, set(), _depth)


def local_fates(prog, fn, local, allow_fns, seen, depth, owned=True):
    if (fn.path, local) in seen or depth > 12:
        return []
    seen.add((fn.path, local))
    fates = []
    uses = fn.uses_of(local)
    real = [u for u in uses if u[1] != 'drop']
    if not real:
        return [Fate('discarded', detail='value is never read (let _ = / statement expression)')]
    if owned and (fn.local_ty(local) or '').startswith('std::result::Result<'):
        gap = unread_success_path(fn, local, real)
        if gap is not None:
            fates.append(Fate('discarded', detail='read on some paths only: from its definition in bb%d the value reaches '
                                                  'the success return in bb%d without being read (dropped silently on '
                                                  'that path)' % gap))
    err_payload_read = False
    discr_read = False
    for (bi, kind, idx, how, pl) in real:
        projs = pl[1:]
        if kind == 'stmt':
            st = fn.blocks[bi]['s'][idx]
            target = st[1]
            rv = st[2]
            if how == 'discr':
                discr_read = True
                continue
            if any(p == '@Err' for p in projs):
                err_payload_read = True
                continue
            if any(p in ('@Ok', '@Some') for p in projs):
                continue
            if target[0] == 0:
                fates.append(Fate('returned'))
                continue
            if rv['r'] in ('use', 'ref', 'cast', 'cfd', 'agg'):
                if len(target) == 1:
                    fates.extend(local_fates(prog, fn, target[0], allow_fns, seen, depth + 1,
                                             owned=(rv['r'] == 'use' and how == 'm')))
                else:
                    fates.append(Fate('stored', detail='stored into _%d%s' % (target[0], ''.join(target[1:]))))
                continue
            fates.append(Fate('escapes', detail='used in rvalue %s' % rv['r']))
        elif kind == 'arg':
            c = fn.call_at(bi)
            fates.extend(_arg_fate(prog, fn, c, idx, allow_fns, seen, depth))
        elif kind == 'switch':
            discr_read = True
        elif kind == 'callee':
            fates.append(Fate('escapes', detail='called as function'))
    if discr_read:
        if err_payload_read:
            fates.append(Fate('matched', detail='explicit match reading the Err payload'))
        elif not fates:
            fates.append(Fate('discarded', detail='matched without reading the Err payload'))
    elif err_payload_read and not fates:
        fates.append(Fate('matched'))
    return fates


def unread_success_path(fn, local, real):
    """cut condition of the fate analysis (seed C12-4): the fates collected from the uses of an owned Result say what
    happens to it *where it is read*; they say nothing about a path on which it is not read at all.  Returns
    (def_bb, site_bb) if some path leads from a definition of `local` to a success site of `fn` without passing a block
    that reads it (there the value is dropped silently), else None.  Paths that end in an error return are not
    counted: a failure is reported on them anyway."""
    from .effects import success_sites
    site_bbs = {s.bb for s in success_sites(fn)}
    if not site_bbs:
        return None
    use_bbs = {u[0] for u in real}
    starts = []
    defs = fn.whole_defs(local)
    if not defs and 1 <= local <= fn.argc:
        starts.append((0, 0))
    for d in defs:
        if d[0] == 'call':
            to = fn.blocks[d[1]]['t'].get('to')
            if to is not None:
                starts.append((d[1], to))
        elif d[0] == 'stmt':
            bb, si = d[1], d[2]
            later = any(u[0] == bb and (u[1] != 'stmt' or u[2] > si) for u in real)
            if later:
                continue
            for sb in fn.succs(bb):
                starts.append((bb, sb))
    for (db, sb) in starts:
        if sb in use_bbs:
            continue
        reached = fn.reachable(sb, stop=use_bbs) - use_bbs
        hit = sorted(reached & site_bbs)
        if hit:
            return (db, hit[0])
    return None


def _arg_fate(prog, fn, c, idx, allow_fns, seen, depth):
    if c.indirect:
        return [Fate('escapes', c, 'argument of an indirect call')]
    names = c.names()
    if TRY in names or any(n.endswith('as std::ops::Try>::branch') for n in names):
        return [Fate('propagated', c)]
    if names & PANICKING:
        return [Fate('panics', c)]
    if names & {'std::result::Result::<T, E>::unwrap_or_else'} and idx == 0:
        cl = prog.fn_item_args(c)
        if cl and all(diverges(f) for f in cl):
            return [Fate('panics', c, 'error arm diverges (exit/panic) in ' + cl[0].path)]
        # `.unwrap_or_else(|e| { handler(e); fallback })`: the error is not dropped when the closure hands its
        # payload on (to a call or into a value); `|_| fallback` drops it
        if cl and all(_reads_param(f, 2 if f.kind == 'Closure' else 1) for f in cl):
            return [Fate('matched', c, 'error payload handled in ' + cl[0].path)]
    if names & DISCARDING:
        return [Fate('discarded', c, 'consumed by ' + c.name)]
    if names & PROPAGATING or any(n.endswith('::from_residual') for n in names):
        if idx != 0 and not (names & {'std::convert::From::from'}):
            return [Fate('escapes', c, 'non-receiver argument of ' + c.name)]
        if c.dest and c.dest[0] == 0:
            return [Fate('returned', c)]
        if c.dest and len(c.dest) == 1:
            return local_fates(prog, fn, c.dest[0], allow_fns, seen, depth + 1) or \
                [Fate('discarded', c, 'result of %s is never read' % c.name)]
        return [Fate('stored', c)]
    for n in names:
        if n in allow_fns:
            # an allowed wrapper: its own result carries the error on
            if c.dest and c.dest[0] == 0:
                return [Fate('returned', c)]
            if c.dest and len(c.dest) == 1:
                return local_fates(prog, fn, c.dest[0], allow_fns, seen, depth + 1) or \
                    [Fate('discarded', c, 'result of %s is never read' % c.name)]
    # a workspace function taking the Result by value: follow into the parameter
    for callee in prog.callee_fns(c):
        if idx < callee.argc:
            sub = local_fates(prog, callee, idx + 1, allow_fns, seen, depth + 1)
            if sub and all(f.kind in ('returned', 'propagated', 'matched') for f in sub) and \
                    any(f.kind == 'returned' for f in sub):
                # callee passes it through to its own result
                if c.dest and c.dest[0] == 0:
                    return [Fate('returned', c)]
                if c.dest and len(c.dest) == 1:
                    return local_fates(prog, fn, c.dest[0], allow_fns, seen, depth + 1)
            return sub or [Fate('discarded', c, 'callee %s never reads it' % callee.path)]
    return [Fate('escapes', c, 'argument %d of %s' % (idx, c.name))]


# combinators whose result is Ok/Some exactly when ... the receiver was (for and_then: only if)
OK_PRESERVING = {
    'std::result::Result::<T, E>::map', 'std::result::Result::<T, E>::map_err', 'std::result::Result::<T, E>::and_then',
    'std::result::Result::<T, E>::inspect_err', 'std::result::Result::<T, E>::inspect',
    'std::result::Result::<std::option::Option<T>, E>::transpose',
    'std::result::Result::<T, E>::as_ref', 'std::result::Result::<T, E>::as_mut',
    'std::result::Result::<&T, E>::cloned', 'std::result::Result::<&T, E>::copied', 'std::hint::must_use',
    'std::option::Option::<T>::map', 'std::option::Option::<T>::and_then', 'std::option::Option::<T>::ok_or',
    'std::option::Option::<T>::ok_or_else', 'std::option::Option::<T>::inspect', 'std::option::Option::<T>::as_ref',
    'std::option::Option::<&T>::cloned', 'std::option::Option::<&T>::copied',
}


def ok_on_success(prog, fn, call, site_bbs=None):
    """does `fn` reaching one of its success sites imply that the Result / Option produced by `call` was Ok / Some?
    True only for: `?`, unwrap / expect, being returned as fn's own result, Ok-preserving combinators followed by one of
    those, and a match / let-else whose non-Ok arms cannot reach a success site.  Handing the value to anything that may
    turn a failure into a success (`.or(..)`, `.ok()`, `unwrap_or*`, a tolerant helper such as
    `default_on_not_found(..)`) is False."""
    dest = call.dest
    if dest is None or len(dest) > 1:
        return False
    if dest[0] == 0:
        return True
    if site_bbs is None:
        from .effects import success_sites
        site_bbs = {s.bb for s in success_sites(fn)}
    return _ok_local(prog, fn, dest[0], set(site_bbs), set(), 0)


def _ok_local(prog, fn, local, site_bbs, seen, depth):
    if (fn.path, local) in seen or depth > 10:
        return False
    seen.add((fn.path, local))
    real = [u for u in fn.uses_of(local) if u[1] != 'drop']
    if not real:
        return False
    decided = False
    for (bi, kind, idx, how, pl) in real:
        if kind == 'arg':
            c = fn.call_at(bi)
            if c.indirect:
                return False
            names = c.names()
            if TRY in names or any(n.endswith('as std::ops::Try>::branch') for n in names) or names & PANICKING:
                decided = True
                continue
            if names & OK_PRESERVING and idx == 0:
                if c.dest and c.dest[0] == 0 and len(c.dest) == 1:
                    decided = True
                    continue
                if c.dest and len(c.dest) == 1 and _ok_local(prog, fn, c.dest[0], site_bbs, seen, depth + 1):
                    decided = True
                    continue
            return False
        if kind == 'stmt':
            st = fn.blocks[bi]['s'][idx]
            target, rv = st[1], st[2]
            projs = pl[1:]
            if how == 'discr':
                # match / let-else: every arm other than Ok / Some must be unable to reach a success site
                if not _non_ok_arms_fail(fn, bi, target, rv, site_bbs):
                    return False
                decided = True
                continue
            if projs:
                continue   # payload reads are governed by the discriminant read
            if rv['r'] in ('use', 'ref', 'cast'):
                if target[0] == 0 and len(target) == 1:
                    decided = True
                    continue
                if len(target) == 1 and _ok_local(prog, fn, target[0], site_bbs, seen, depth + 1):
                    decided = True
                    continue
            return False
        return False
    return decided


def _non_ok_arms_fail(fn, bi, target, rv, site_bbs):
    variants = dict(rv.get('variants') or ())
    if not variants or len(target) != 1:
        return False
    found = False
    for sb, blk in enumerate(fn.blocks):
        t = blk['t']
        if t['t'] != 'switch':
            continue
        p = op_place(t['o'])
        if not p or p[0] != target[0]:
            continue
        found = True
        listed = [v for v, _ in t['targets']]
        bad = [tb for v, tb in t['targets'] if variants.get(v) not in ('Ok', 'Some')]
        if any(n not in ('Ok', 'Some') for v, n in variants.items() if v not in listed):
            bad.append(t['else'])
        for tb in bad:
            if fn.reachable(tb) & site_bbs:
                return False
    return found


def _reads_param(fn, local):
    """is the parameter local used as a call argument or moved into another value (not merely dropped)"""
    for bi, kind, idx, how, pl in fn.uses_of(local):
        if kind in ('arg', 'stmt', 'callee', 'switch'):
            return True
    return False


def diverges(fn):
    """no return block is reachable: the function always exits the process or panics"""
    reach = fn.reachable(0)
    return not any(fn.blocks[b]['t']['t'] == 'ret' for b in reach)


def verdict(fates):
    """collapse: 'ok' | 'discarded' | 'panics' | 'unproven'"""
    kinds = {f.kind for f in fates}
    if 'discarded' in kinds:
        return 'discarded'
    if 'escapes' in kinds:
        return 'unproven'
    if not kinds:
        return 'discarded'
    if kinds <= {'panics'}:
        return 'panics'
    return 'ok'
