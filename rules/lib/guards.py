"""A7 — guards: which branch decisions dominate a block.

`conditions(fn, bb)` returns, for every SwitchInt edge that every entry->bb path must take, a Cond:
  Cond.value    symbolic value of the switch operand (Slicer value)
  Cond.kind     'bool' | 'variant' | 'int'
  Cond.outcome  True/False | frozenset of variant names | int or ('not', ints)
"""
from .mir import op_place, op_const


class Cond:
    def __init__(self, fn, sw_bb, target, kind, outcome, value, subject=None, enum=None):
        self.fn = fn
        self.sw_bb = sw_bb
        self.target = target
        self.kind = kind
        self.outcome = outcome
        self.value = value
        self.subject = subject   # for 'variant': value whose discriminant is tested
        self.enum = enum
        self._slicer = None

    def views(self):
        """[(value, outcome)]: the tested value as written, and — when it is the result of a private boolean helper
        (`if is_symlink(p)`) — the helper's returned expression in this function's terms"""
        out = [(self.value, self.outcome)]
        v, oc = self.value, self.outcome
        for _ in range(4):
            if self.kind != 'bool' or self._slicer is None:
                break
            if v[0] == 'call':
                iv = self._slicer.inline_call(v)
            elif v[0] == 'unwrap' and v[1][0] == 'call':
                iv = self._slicer.inline_call(v[1])
                iv = self._slicer.mk_unwrap(iv, 1) if iv is not None else None
            else:
                break
            if iv is None:
                break
            while iv[0] == 'un' and iv[1] == 'Not':
                iv, oc = iv[2], (not oc)
            out.append((iv, oc))
            v = iv
        return out

    def __repr__(self):
        from .value import vstr
        return 'Cond(bb%d->bb%d %s %s == %s)' % (self.sw_bb, self.target, self.kind,
                                                  vstr(self.subject if self.subject is not None else self.value),
                                                  sorted(self.outcome) if isinstance(self.outcome, frozenset) else self.outcome)


def _reach_without_edge(fn, src, tgt, unwind=False):
    seen = set()
    work = [0]
    while work:
        b = work.pop()
        if b in seen:
            continue
        seen.add(b)
        for s in fn.succs(b, unwind):
            if b == src and s == tgt:
                continue
            work.append(s)
    return seen


def edge_dominates(fn, src, tgt, bb, unwind=False):
    """every path entry -> bb uses the edge src->tgt"""
    if bb not in fn.reachable(0, unwind):
        return False
    return bb not in _reach_without_edge(fn, src, tgt, unwind)


def _discr_info(fn, sw_bb, operand):
    """if the switch operand is `discriminant(place)` return (place, {value: variant})"""
    pl = op_place(operand)
    if not pl or len(pl) != 1:
        return None
    for d in fn.whole_defs(pl[0]):
        if d[0] == 'stmt' and d[3]['r'] == 'discr' and 'variants' in d[3]:
            return d[3]['p'], {v: n for v, n in d[3]['variants']}, d[3].get('enum')
    return None


def conditions(fn, bb, slicer, unwind=False):
    out = []
    for sb, blk in enumerate(fn.blocks):
        t = blk['t']
        if t['t'] != 'switch':
            continue
        by_target = {}
        for v, tb in t['targets']:
            by_target.setdefault(tb, []).append(v)
        by_target.setdefault(t['else'], []).append('else')
        for tb, labels in by_target.items():
            if tb == bb and sb != bb:
                # an edge into bb itself dominates bb only if it is the single way in
                pass
            if not edge_dominates(fn, sb, tb, bb, unwind):
                continue
            listed = [v for v, _ in t['targets']]
            di = _discr_info(fn, sb, t['o'])
            val = slicer.operand(fn, t['o'])
            if di:
                place, vmap, enum = di
                names = set()
                for lab in labels:
                    if lab == 'else':
                        names |= {n for v, n in vmap.items() if v not in listed}
                    else:
                        names.add(vmap.get(lab, str(lab)))
                out.append(Cond(fn, sb, tb, 'variant', frozenset(names), val, slicer.place(fn, place), enum))
            elif t.get('oty') == 'bool':
                if labels == ['else'] and listed == [0]:
                    outcome = True
                elif labels == [0]:
                    outcome = False
                elif labels == [1]:
                    outcome = True
                elif labels == ['else'] and listed == [1]:
                    outcome = False
                else:
                    continue
                # peel boolean negation
                while val[0] == 'un' and val[1] == 'Not':
                    val = val[2]
                    outcome = not outcome
                if val[0] == 'select' and all(rv[0] == 'const' and isinstance(rv[1], bool) for _, rv in val[3]):
                    # `matches!(x, A | B)` / a match producing a bool: the same decision as `match x { A | B => .. }`
                    names = frozenset(n for ns, rv in val[3] if rv[1] == outcome for n in ns)
                    out.append(Cond(fn, sb, tb, 'variant', names, val, val[1], val[2]))
                    continue
                cd = Cond(fn, sb, tb, 'bool', outcome, val)
                cd._slicer = slicer
                out.append(cd)
            else:
                if labels == ['else']:
                    out.append(Cond(fn, sb, tb, 'int', ('not', tuple(listed)), val))
                elif 'else' not in labels and len(labels) == 1:
                    out.append(Cond(fn, sb, tb, 'int', labels[0], val))
    return out


def guarded_by_call(fn, bb, slicer, names, outcome=None):
    """conditions on bb whose tested value is (a negation-peeled) call to one of `names`"""
    res = []
    for c in conditions(fn, bb, slicer):
        v = c.value
        if c.kind == 'bool' and v[0] == 'call' and (v[1] in names):
            if outcome is None or c.outcome == outcome:
                res.append(c)
    return res


def variant_conds(fn, bb, slicer):
    return [c for c in conditions(fn, bb, slicer) if c.kind == 'variant']


def always_through(fn, start, via, ends, skip_edges=()):
    """every path (normal edges) from block `start` to any block in `ends` passes through block `via`,
    except paths using one of the `skip_edges` (pairs (src, tgt)); a guard that leaves early under a conjunction /
    disjunction (`if a && b { continue }`) is invisible to dominance-based conditions but not to this test"""
    if start == via:
        return True
    skip = set(skip_edges)
    ends = set(ends)
    seen = set()
    work = [start]
    while work:
        b = work.pop()
        if b in seen or b == via:
            continue
        seen.add(b)
        if b in ends and b != start:
            return False
        for t in fn.succs(b):
            if (b, t) in skip:
                continue
            work.append(t)
    return True


def creation_site(prog, closure_fn):
    """(parent Fn, block) where the closure value is built, or (None, None)"""
    parent = prog.fns.get(closure_fn.parent) if closure_fn.kind == 'Closure' else None
    if parent is None:
        return None, None
    for bi, b in enumerate(parent.blocks):
        for st in b['s']:
            if st[0] == '=' and st[2]['r'] == 'agg' and st[2].get('kind') == 'closure' and st[2]['def'] == closure_fn.path:
                return parent, bi
    return None, None


def conditions_ctx(prog, fn, bb, slicer):
    """conditions of bb in fn, plus — for a closure — those under which the closure value is created in its
    parent(s): code moved into `x.and_then(|..| ..)` / `iter.try_for_each(|..| ..)` keeps the guards around it"""
    out = list(conditions(fn, bb, slicer))
    f = fn
    for _ in range(4):
        parent, cb = creation_site(prog, f)
        if parent is None:
            break
        out.extend(conditions(parent, cb, slicer))
        f = parent
    return out


def return_conditions(fn, slicer):
    """decisions that hold whenever fn returns normally (common to all its return blocks): a function that `exit`s or
    panics unless a check passes guarantees that check to everything after a call to it"""
    from .value import canon
    common = None
    keep = {}
    for rb in fn.return_blocks():
        cur = {}
        for c in conditions(fn, rb, slicer):
            k = (c.kind, canon(c.subject if c.subject is not None else c.value), c.outcome if not isinstance(c.outcome, frozenset) else tuple(sorted(c.outcome)))
            cur[k] = c
        common = set(cur) if common is None else (common & set(cur))
        keep.update(cur)
    return [keep[k] for k in (common or ())]


def conditions_gated(prog, fn, bb, slicer):
    """conditions of bb plus those established by gate functions: workspace functions called on every path to bb
    (their call block dominates bb) that only return when a check passed"""
    out = list(conditions(fn, bb, slicer))
    for c in fn.calls:
        if c.indirect or c.bb == bb or not fn.dominates(c.bb, bb):
            continue
        g = prog.fns.get(c.res or c.name or '')
        if g is None or g.kind == 'Closure' or g.path == fn.path:
            continue
        out.extend(return_conditions(g, slicer))
    return out
