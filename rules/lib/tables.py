"""A8 helpers — per-arm definition tables and field-access scans."""
from .guards import conditions
from .mir import op_place, _rvalue_places


def arm_defs(fn, local, slicer):
    """for a local with several reaching definitions (a `match` producing a value): list of
    (bb, value, [Cond...]) — one row per definition with the branch decisions dominating it"""
    rows = []
    for d in fn.whole_defs(local):
        kind, bi = d[0], d[1]
        if kind == 'stmt':
            v = slicer._rvalue(fn, d[3], set(), 0, None)
        elif kind == 'call':
            v = slicer._call_value(fn, d[3], set(), 0)
        else:
            continue
        rows.append((bi, v, conditions(fn, bi, slicer)))
    return rows


def phi_local_of(fn, operand, through_proj=False):
    """local behind a Copy/Move operand, following plain moves/copies/refs back to a local with
    more than one whole definition (the `match` result); returns that local or None"""
    pl = op_place(operand)
    seen = set()
    while pl is not None and pl[0] not in seen:
        seen.add(pl[0])
        defs = fn.whole_defs(pl[0])
        if len(defs) > 1:
            return pl[0]
        if len(defs) == 1 and defs[0][0] == 'stmt' and defs[0][3]['r'] in ('use', 'ref', 'cfd'):
            rv = defs[0][3]
            nxt = op_place(rv['o']) if rv['r'] == 'use' else rv['p']
            if nxt is None:
                return None
            if not through_proj and [x for x in nxt[1:] if x != '*']:
                return None     # a projection of another value, not the value itself
            pl = nxt
            continue
        if len(defs) == 1 and defs[0][0] == 'call':
            from .value import is_transparent
            c = defs[0][3]
            if is_transparent(c) and c.args:
                pl = op_place(c.args[0])
                continue
        return None
    return None


def field_accesses(prog, field, owner_head=None):
    """all places mentioning `.field` (optionally on locals whose head type is owner_head):
    list of (fn, bb, how) with how in read/write/ref/refmut/arg"""
    proj = '.' + field
    out = []
    for f in prog.fns.values():
        for bi, b in enumerate(f.blocks):
            for s in b['s']:
                if s[0] != '=':
                    continue
                if proj in s[1][1:] and _owner_ok(f, s[1], proj, owner_head):
                    out.append((f, bi, 'write'))
                for pl, how in _rvalue_places(s[2]):
                    if proj in pl[1:] and _owner_ok(f, pl, proj, owner_head):
                        out.append((f, bi, {'ref': 'ref', 'refmut': 'refmut'}.get(how, 'read')))
                if s[2]['r'] == 'agg' and s[2].get('kind') == 'adt' and field in s[2].get('fields', []) and \
                        (owner_head is None or s[2]['adt'] == owner_head):
                    out.append((f, bi, 'init'))
            t = b['t']
            if t['t'] == 'call':
                for a in t['args']:
                    pl = op_place(a)
                    if pl and proj in pl[1:] and _owner_ok(f, pl, proj, owner_head):
                        out.append((f, bi, 'arg'))
                if proj in t['dest'][1:] and _owner_ok(f, t['dest'], proj, owner_head):
                    out.append((f, bi, 'write'))
    return out


def _owner_ok(f, pl, proj, owner_head):
    if owner_head is None:
        return True
    # the projection directly after the local (modulo derefs) must be on a local of the owner type
    rest = [p for p in pl[1:] if p != '*']
    if rest and rest[0] == proj:
        return f.locals[pl[0]].get('head') == owner_head
    return True


def lifted_args(prog, slicer, call, crate=None, depth=3, stop_at=()):
    """argument values of a call site, lifted out of private helpers: while the values still mention parameters
    of the function containing the call, they are re-expressed at each workspace call site of that function
    (`persist(result, ..)` extracted from two callers gives two rows, one per caller).
    Returns [(top Fn, top call site, [values])]."""
    from .value import walk, subst
    callers = prog.callers()

    def go(f, site, vals, d):
        has_param = any(x[0] == 'param' and x[1] == f.path for v in vals for x in walk(v))
        css = [cs for cs in callers.get(f.path, []) if not cs.indirect and cs.name == f.path and cs.fn.path != f.path
               and (crate is None or cs.fn.crate == crate)]
        if not has_param or not css or d >= depth or f.vis == 'pub' or f.path in stop_at:
            return [(f, site, vals)]
        out = []
        for cs in css:
            g = cs.fn
            m = {(f.path, i): slicer.operand(g, a) for i, a in enumerate(cs.args)}
            out.extend(go(g, cs, [subst(v, m, slicer) for v in vals], d + 1))
        return out
    f = call.fn
    return go(f, call, [slicer.operand(f, a) for a in call.args], 0)
