"""argv model of `impl From<XCommand> for std::process::Command`.

For each conversion function: the program constant and the ordered list of argv contributions
    Item(kind='args'|'arg', elems=[Elem...], conds=[...], in_loop=collection field or None)
where an Elem is ('const', str) | ('field', name, how) | ('other', rendering).  `how` is 'direct'
(the field itself / its lossy string), 'fmt' (format! with the field inside; template pieces kept) or
'elem' (element of a loop over the field) or 'splat' (the whole collection passed to args()).
"""
from .guards import conditions
from .paths import strip
from .value import vstr, walk

CMD = 'std::process::Command::'


def _field_of_param0(v, fn):
    """name of the field of the converted struct a value derives from (or None)"""
    for x in walk(v):
        if x[0] == 'field' and x[1][0] == 'param' and x[1][1] == fn.path and x[1][2] == 0:
            return x[2]
    return None


def classify(fn, v):
    v0 = strip(v)
    if v0[0] == 'const' and isinstance(v0[1], str):
        return ('const', v0[1])
    if v0[0] == 'phi' and all(strip(x)[0] == 'const' for x in v0[1]):
        return ('const-choice', tuple(strip(x)[1] for x in v0[1]))
    fld = _field_of_param0(v0, fn)
    if fld is None:
        return ('other', vstr(v0)[:80])
    fm = next((x for x in walk(v0) if x[0] == 'fmt'), None)
    if fm is not None:
        pieces = tuple(p if isinstance(p, str) else '{%s}' % (_piece_name(p, fn)) for p in fm[1])
        return ('field', fld, 'fmt', pieces)
    is_elem = any(x[0] == 'call' and x[1] == 'std::iter::Iterator::next' for x in walk(v0))
    return ('field', fld, 'elem' if is_elem else 'direct', None)


def _piece_name(p, fn):
    p = strip(p)
    proj = []
    while p[0] == 'field':
        proj.append(p[2])
        p = strip(p[1])
    f = _field_of_param0(p, fn) if p[0] != 'param' else None
    if p[0] == 'param':
        return '.'.join(reversed(proj))
    return (f or '?') + ''.join('.' + x for x in reversed(proj[:1]))


class Item:
    def __init__(self, kind, elems, conds, loop, call):
        self.kind = kind
        self.elems = elems
        self.conds = conds     # list of (field name, outcome) guards on fields of the struct
        self.loop = loop       # field iterated (each element contributes once) or None
        self.call = call

    def __repr__(self):
        return 'Item(%s %s if %s loop=%s)' % (self.kind, self.elems, self.conds, self.loop)


def command_model(prog, sl, fn):
    """-> (program const, [Item...]) for a `From<X> for Command` function"""
    program = None
    items = []
    rpo = fn._rpo()
    calls = sorted([c for c in fn.calls if not c.indirect and c.name and c.name.startswith(CMD)], key=lambda c: rpo.index(c.bb) if c.bb in rpo else 10 ** 6)
    for c in calls:
        short = c.name[len(CMD):]
        if short == 'new':
            v = strip(sl.operand(fn, c.args[0]))
            program = v[1] if v[0] == 'const' else vstr(v)
            continue
        if short not in ('arg', 'args'):
            continue
        av = strip(sl.operand(fn, c.args[1]))
        guards = []
        for cd in conditions(fn, c.bb, sl):
            subj = cd.subject if cd.subject is not None else cd.value
            fld = _field_of_param0(subj, fn)
            if fld is None:
                continue
            if cd.kind == 'bool':
                guards.append((fld, cd.outcome))
            elif cd.kind == 'variant' and cd.enum == 'std::option::Option':
                guards.append((fld, sorted(cd.outcome)))
        loop = None
        if fn.in_loop(c.bb):
            for cd in conditions(fn, c.bb, sl):
                if cd.kind == 'variant' and cd.enum == 'std::option::Option' and cd.outcome == frozenset({'Some'}):
                    s = strip(cd.subject)
                    if s[0] == 'call' and s[1] == 'std::iter::Iterator::next':
                        loop = _field_of_param0(s, fn)
        if short == 'args' and av[0] == 'array':
            elems = [classify(fn, e) for e in av[1]]
        elif short == 'args':
            e = classify(fn, av)
            elems = [('field', e[1], 'splat', None)] if e[0] == 'field' else [e]
        else:
            elems = [classify(fn, av)]
        guards = [g for g in guards if not (loop and g[0] == loop and g[1] == ['Some'])]
        items.append(Item(short, elems, guards, loop, c))
    return program, items


def from_command_fns(prog, crate='libcnb_test'):
    import re
    out = {}
    rx = re.compile(r'<impl std::convert::From<([^>]+)> for std::process::Command>::from$')
    for f in prog.fns.values():
        if f.crate == crate:
            m = rx.search(f.path)
            if m:
                out[m.group(1)] = f
    return out
