"""Rule-instance bookkeeping, known-finding suppression, evidence and replay files."""
import json
import os
import time

ROOT = os.path.abspath(os.path.join(os.path.dirname(__file__), '..', '..'))

HOLDS, VIOLATED, UNPROVEN = 'HOLDS', 'VIOLATED', 'UNPROVEN'


class Instance:
    def __init__(self, prop, rule, key, status, where, msg, detail=None, nontrivial=True):
        self.prop = prop
        self.rule = rule
        self.key = key            # <Cxx>/<rule>/<subject>   (no line numbers)
        self.status = status
        self.where = where        # file:line (diagnostic only)
        self.msg = msg
        self.detail = detail
        self.nontrivial = nontrivial

    def to_json(self):
        d = {'key': self.key, 'rule': self.rule, 'status': self.status, 'where': self.where, 'msg': self.msg}
        if self.detail is not None:
            d['detail'] = self.detail
        return d


class Reporter:
    """collects the rule instances of one property run"""

    def __init__(self, prop, tier, expectations):
        self.prop = prop
        self.tier = tier
        self.instances = []
        self.expect = expectations.get(prop, {})
        self.rules_doc = {}
        self.stats = {'functions_analysed': set(), 'call_sites': 0}
        self.assumptions = []
        self.trusted = []
        self.not_decided = []
        self.extra = {}
        self.suffix = ''

    def rule(self, rule, doc):
        self.rules_doc[rule] = doc

    def _add(self, rule, subject, status, where, msg, detail=None, nontrivial=True):
        key = '%s/%s/%s%s' % (self.prop, rule, subject, self.suffix)
        self.instances.append(Instance(self.prop, rule, key, status, where, msg, detail, nontrivial))

    def holds(self, rule, subject, where, msg, detail=None, nontrivial=True):
        self._add(rule, subject, HOLDS, where, msg, detail, nontrivial)

    def violated(self, rule, subject, where, msg, detail=None):
        self._add(rule, subject, VIOLATED, where, msg, detail)

    def unproven(self, rule, subject, where, msg, detail=None):
        self._add(rule, subject, UNPROVEN, where, msg, detail)

    def check(self, cond, rule, subject, where, ok_msg, bad_msg, detail=None):
        if cond:
            self.holds(rule, subject, where, ok_msg, detail)
        else:
            self.violated(rule, subject, where, bad_msg, detail)
        return cond

    def floor(self, rule, name, measured):
        """fail closed when fewer instances than confirmed by hand are found"""
        want = self.expect.get('%s.%s' % (rule, name + self.suffix)) if self.suffix else None
        if want is None:
            want = self.expect.get('%s.%s' % (rule, name))
        import os, sys
        if os.environ.get('VERIF_SHOW_FLOORS'):
            sys.stderr.write('FLOOR %s %s.%s measured=%d floor=%s\n' % (self.prop, rule, name + self.suffix, measured, want))
        if want is None:
            self.unproven(rule, 'floor:' + name, '-', 'no frozen floor for %s.%s (measured %d)' % (rule, name, measured))
        elif measured < want:
            self.unproven(rule, 'floor:' + name, '-',
                          'only %d instance(s) of %s found, %d were confirmed by hand: the rule lost its subjects'
                          % (measured, name, want))
        else:
            self.holds(rule, 'floor:' + name, '-', '%d instance(s) of %s (floor %d)' % (measured, name, want),
                       nontrivial=False)

    def analysed(self, fn):
        self.stats['functions_analysed'].add(fn.path if hasattr(fn, 'path') else str(fn))

    def sites(self, n=1):
        self.stats['call_sites'] += n


def load_known():
    p = os.path.join(ROOT, 'known_findings.json')
    if not os.path.exists(p):
        return {'known': [], 'fixed': []}
    with open(p) as fh:
        return json.load(fh)


def finish(rep, t0, configs, checker_cmd, seed=0):
    """print lines, write evidence + replay files, return exit code"""
    known = load_known()
    known_keys = {k['key']: k for k in known.get('known', []) if k['property'] == rep.prop}
    bad = [i for i in rep.instances if i.status != HOLDS]
    unlisted = [i for i in bad if i.key not in known_keys]
    listed = [i for i in bad if i.key in known_keys]
    scratch_run = bool(os.environ.get('VERIF_NO_EVIDENCE'))
    rdir = os.path.join(ROOT, '.cache', 'scratch-replays') if scratch_run else os.path.join(ROOT, 'replays')
    os.makedirs(rdir, exist_ok=True)
    os.makedirs(os.path.join(ROOT, 'evidence'), exist_ok=True)
    for i in listed:
        print('KNOWN-FINDING: property=%s %s [%s]' % (rep.prop, known_keys[i.key]['what'], i.key))
    n = 0
    for i in unlisted:
        n += 1
        rp = os.path.join(rdir, '%s-%d.json' % (rep.prop, n))
        with open(rp, 'w') as fh:
            json.dump({'property': rep.prop, 'rule': i.rule, 'key': i.key, 'status': i.status, 'where': i.where,
                       'msg': i.msg, 'detail': i.detail, 'rule_doc': rep.rules_doc.get(i.rule),
                       'tier': rep.tier}, fh, indent=1, default=str)
        print('%s %s %s: %s' % (i.status, i.key, i.where, i.msg))
        print('VIOLATION property=%s replay=%s' % (rep.prop, rp))
    holds = [i for i in rep.instances if i.status == HOLDS]
    distinct = len({i.key for i in rep.instances if i.nontrivial})
    samples = [i.to_json() for i in holds[:6]] + [i.to_json() for i in bad[:6]]
    rules_summary = {}
    for i in rep.instances:
        r = rules_summary.setdefault(i.rule, {'instances': 0, 'holds': 0, 'doc': rep.rules_doc.get(i.rule, '')})
        r['instances'] += 1
        r['holds'] += 1 if i.status == HOLDS else 0
    explanation = ('Static analysis over the type-checked MIR of /repo (cnbfacts rustc_private driver -> rules). '
                   'Each rule instance is an obligation extracted from the current source and compared with a '
                   'table transcribed from the property statement / CNB spec. Rules: '
                   + '; '.join('%s = %s' % (k, v) for k, v in sorted(rep.rules_doc.items()))
                   + '. NOT decided by this check: ' + ('; '.join(rep.not_decided) or 'n/a'))
    ev = {
        'property_id': rep.prop,
        'tier': rep.tier,
        'seed': seed,
        'level': 'other',
        'coverage': {
            'explanation': explanation,
            'obligations': len(rep.instances),
            'discharged': len(holds),
            'evaluations': len(rep.instances),
            'distinct_nontrivial': distinct,
            'rule': 'one evaluation per rule instance (rule x subject: function, call site, field, table row) '
                    'extracted from the MIR of the current tree; distinct = distinct instance keys, '
                    'non-trivial = instances other than floor/anchor bookkeeping',
            'samples': samples,
            'rules': rules_summary,
            'functions_analysed': len(rep.stats['functions_analysed']),
            'functions': sorted(rep.stats['functions_analysed'])[:60],
            'call_sites': rep.stats['call_sites'],
            'configs': configs,
            'checker_cmd': checker_cmd,
            'trusted_base': rep.trusted or [
                'rustc nightly MIR construction and type checking', 'documented behaviour of std/core',
                'transcription of the CNB spec into rule tables', 'effect vocabulary of the rule library'],
            'known_findings': [known_keys[i.key]['what'] for i in listed],
            'failing_keys': [i.key for i in bad],
            'exhaustive': False,
        },
        'assumptions': rep.assumptions or [
            'target_family = unix; cfg(windows) branches are not analysed',
            'cfg(test) code is not analysed',
            'stable and nightly rustc lower this code to equivalent MIR'],
        'wall_s': round(time.time() - t0, 2),
        'violations': len(unlisted),
    }
    ev['coverage'].update(rep.extra)
    if not scratch_run:
        with open(os.path.join(ROOT, 'evidence', '%s.json' % rep.prop), 'w') as fh:
            json.dump(ev, fh, indent=1, default=str)
    print('%s: %d rule instances, %d hold, %d known finding(s), %d violation(s)  [%s tier, %.1fs]'
          % (rep.prop, len(rep.instances), len(holds), len(listed), len(unlisted), rep.tier, time.time() - t0))
    return 1 if unlisted else 0
