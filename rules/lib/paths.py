"""A5 — abstract classes of layer-related paths.

Given predicates recognising the layers directory (LD) and the layer name (LN) in symbolic values,
classify a path value into
  ('LD',)                       the layers directory itself
  ('DIR',)                      <LD>/<LN>
  ('TOML',)                     <LD>/<LN>.toml
  ('SBOM', fmt_value)           cnb_sbom_path(fmt, LD, LN)   (<LD>/<LN>.sbom.<suffix>)
  ('SUB', base_class, parts)    Path::join(base, part) with base classified  (e.g. DIR/env, DIR/exec.d/<name>)
  ('CHILD', base_class)         DirEntry::path() of an entry listed from a classified directory
  None                          anything else (outside / unknown)
"""
JOIN = ('std::path::Path::join', 'std::path::PathBuf::join')
SLICER = None   # set by check: lets path recognisers look through private path-building helpers


def strip(v):
    """peel wrappers that do not change which path a value denotes"""
    while True:
        if v[0] == 'unwrap':
            v = v[1]
        elif v[0] == 'updated':
            v = v[1]
        else:
            return v


class LayerPaths:
    sbom_path_fn = 'libcnb::sbom::cnb_sbom_path'   # overridden by rules after role discovery

    def __init__(self, is_ld, is_ln, dir_values=()):
        self.is_ld = is_ld
        self.is_ln = is_ln
        self.dir_values = dir_values   # extra predicates recognising the layer dir itself (e.g. a `path` field)

    def classify(self, v, depth=0):
        r = self._base(v, depth)
        if r is None and depth == 0 and SLICER is not None and v is not None:
            # private path constructors nested anywhere in the value (`LayerPaths::new(dir, name).toml`) are transparent
            iv = SLICER.inline_deep(v, keep=(LayerPaths.sbom_path_fn,))
            if iv != v:
                r = self.classify(iv, 1)
        return r

    def _base(self, v, depth=0):
        if v is None or depth > 12:
            return None
        v = strip(v)
        if v[0] == 'phi':
            cs = {self.classify(x, depth + 1) for x in v[1]}
            return cs.pop() if len(cs) == 1 else None
        if self.is_ld(v):
            return ('LD',)
        for p in self.dir_values:
            if p(v):
                return ('DIR',)
        if v[0] == 'field' and SLICER is not None and depth < 6:
            # `Paths::new(dir, name).toml`: only the constructor on the spine of the path is opened, its arguments stay as
            # the caller wrote them
            b = strip(v[1])
            if b[0] == 'call':
                ib = SLICER.inline_call(b)
                if ib is not None and ib != b:
                    fv = SLICER._field(strip(ib), v[2])
                    if fv is not None:
                        return self.classify(fv, depth + 1)
        if v[0] == 'call':
            name, args = v[1], v[2]
            if name in JOIN and len(args) == 2:
                a, b = args
                ca = self.classify(a, depth + 1)
                b = strip(b)
                if ca == ('LD',):
                    if self.is_ln(b):
                        return ('DIR',)
                    if b[0] == 'fmt' and len(b[1]) == 2 and not isinstance(b[1][0], str) and self.is_ln(strip(b[1][0])) and b[1][1] == '.toml':
                        return ('TOML',)
                    return None
                if ca is not None and ca[0] in ('DIR', 'SUB', 'CHILD'):
                    return ('SUB', ca, _part(b))
                return None
            if name == LayerPaths.sbom_path_fn and len(args) == 3:
                if self.classify(args[1], depth + 1) == ('LD',) and self.is_ln(strip(args[2])):
                    return ('SBOM', args[0])
                return None
            if name == 'std::fs::DirEntry::path' and len(args) == 1:
                src = _listed_from(args[0])
                if src is not None:
                    cb = self.classify(src, depth + 1)
                    if cb is not None and cb[0] in ('DIR', 'SUB', 'CHILD'):
                        return ('CHILD', cb)
                return None
            if name == 'libcnb::layer::struct_api::LayerRef::<B, MAC, RAC>::path':
                return None
            # a private helper that only computes the path (e.g. `layer_toml_path(dir, name)`) is transparent
            if SLICER is not None and depth < 6:
                iv = SLICER.inline_call(v)
                if iv is not None and iv != v:
                    return self.classify(iv, depth + 1)
        return None

    def inside_layer(self, cls):
        return cls is not None and cls[0] in ('DIR', 'TOML', 'SBOM', 'SUB', 'CHILD')


def _part(b):
    if b[0] == 'const':
        return b[1]
    return b


def _listed_from(entry):
    """directory value that a DirEntry value was listed from: entry = unwrap(unwrap(next(read_dir(D))))"""
    v = entry
    for _ in range(8):
        v = strip(v)
        if v[0] == 'call' and v[1] == 'std::iter::Iterator::next':
            v = v[2][0]
            continue
        if v[0] == 'call' and v[1] == 'std::fs::read_dir':
            return v[2][0]
        if v[0] in ('field', 'variant'):
            v = v[1]
            continue
        return None
    return None


def cls_str(c):
    from .value import vstr
    if c is None:
        return 'OUTSIDE/UNKNOWN'
    if c[0] == 'SBOM':
        return 'SBOM(%s)' % vstr(c[1])
    if c[0] == 'SUB':
        return '%s/%s' % (cls_str(c[1]), c[2] if isinstance(c[2], str) else '<' + vstr(c[2]) + '>')
    if c[0] == 'CHILD':
        return '%s/*' % cls_str(c[1])
    return c[0]


def sbom_formats_covered(effs, classify):
    """set of SbomFormat variant names whose SBOM file is the target of one of the effects: a concrete
    `SbomFormat::X`, or the element of an iteration over a collection that lists variants (FORALL)"""
    from .value import walk
    out = set()
    for e in effs:
        k = classify(e.path)
        if k is None or k[0] != 'SBOM':
            continue
        fmtv = strip(k[1])
        if fmtv[0] == 'agg' and (fmtv[1] or '').endswith('SbomFormat') and fmtv[2]:
            out.add(fmtv[2])
        elif e.forall is not None and any(x[0] == 'call' and x[1] == 'std::iter::Iterator::next' for x in walk(fmtv)):
            out.update(x[2] for x in walk(strip(e.forall)) if x[0] == 'agg' and (x[1] or '').endswith('SbomFormat'))
    return out
