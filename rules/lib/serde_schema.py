"""A10 — effective serde schema extracted from the *generated* Serialize / Deserialize impls (MIR).

Derive helper attributes (#[serde(...)]) are not visible in the compiler's HIR, and the generated
code is what actually runs, so the schema is read off that code:

 Deserialize (struct):  __FieldVisitor::visit_str  -> key strings per field index; the fall-through arm
                        is `Err(unknown_field(..))` (strict) or `Ok(__Field::__ignore)` (lenient)
                        __Visitor::visit_map       -> per field: `missing_field::<V>("key")` (required
                        unless V = Option<_>) or a default function call
 Deserialize (enum):    unit-variant names from visit_str, strict via unknown_variant; untagged enums
                        via the ordered list of `<Variant as Deserialize>::deserialize` attempts
 Serialize (struct):    serialize_field("key", &self.field) / skip_field("key") guarded by a predicate
"""
import re
from .guards import conditions
from .paths import strip
from .tables import arm_defs
from .value import vstr, walk


def _find(prog, rx):
    r = re.compile(rx)
    return [f for p, f in prog.fns.items() if r.search(p)]


def _ty_rx(ty):
    return re.escape(ty) + r'(<[^>]*>)?'


class Key:
    def __init__(self, key):
        self.key = key
        self.index = None
        self.field = None       # Rust field name
        self.ty = None          # Rust field type
        self.required = None
        self.default = None     # callee producing the default
        self.skip_pred = None   # Serialize: predicate callee guarding skip_field
        self.ser = False
        self.de = False

    def __repr__(self):
        return 'Key(%s field=%s ty=%s required=%s default=%s skip=%s)' % (self.key, self.field, self.ty, self.required, self.default, self.skip_pred)


def deser_struct(prog, sl, ty):
    """-> dict(kind, strict, keys{key: Key}, order[...]) or None if no derived struct Deserialize exists"""
    vs = _find(prog, r"Deserialize<'de> for %s>::deserialize::__FieldVisitor as .*::visit_str$" % _ty_rx(ty))
    vm = _find(prog, r"Deserialize<'de> for %s>::deserialize::__Visitor<'de[^>]*> as .*::visit_map$" % _ty_rx(ty))
    if len(vs) != 1:
        return None
    vs = vs[0]
    res = {'type': ty, 'kind': 'struct', 'strict': None, 'keys': {}, 'order': [], 'fns': [vs.path], 'problems': []}
    for bi, v, conds in arm_defs(vs, 0, sl):
        v = strip(v)
        eqs = [cd for cd in conds if cd.kind == 'bool' and cd.outcome is True and cd.value[0] == 'call' and cd.value[1].endswith('::eq')]
        if v[0] == 'agg' and v[2] == 'Ok':
            inner = strip(dict(v[3])['0'])
            name = inner[2] if inner[0] == 'agg' else None
            if name and name.startswith('__field') and eqs:
                lit = strip(eqs[-1].value[2][1])
                if lit[0] == 'const':
                    k = Key(lit[1])
                    k.index = int(name[len('__field'):])
                    k.de = True
                    res['keys'][k.key] = k
                else:
                    res['problems'].append('non-constant key')
            elif name == '__ignore':
                res['strict'] = False
            elif name and name.startswith('__field'):
                res['problems'].append('field arm without key comparison')
        elif v[0] == 'agg' and v[2] == 'Err':
            inner = strip(dict(v[3])['0'])
            if inner[0] == 'call' and inner[1].endswith('de::Error::unknown_field'):
                if res['strict'] is None:
                    res['strict'] = True
            elif inner[0] == 'call' and inner[1].endswith('de::Error::unknown_variant'):
                res['kind'] = 'enum'
                if res['strict'] is None:
                    res['strict'] = True
    res['order'] = [k.key for k in sorted(res['keys'].values(), key=lambda k: k.index)]
    if res['kind'] == 'enum':
        return res
    # Rust field names / types by declaration order
    adt = prog.adts.get(ty)
    if adt and adt['kind'] == 'struct':
        fields = adt['variants'][0]['fields']
        for k in res['keys'].values():
            if k.index < len(fields):
                k.field = fields[k.index]['name']
                k.ty = fields[k.index]['ty']
    if len(vm) == 1:
        vm = vm[0]
        res['fns'].append(vm.path)
        req = {}
        for c in vm.calls:
            if c.indirect or not c.name:
                continue
            if (c.name.endswith('de::missing_field') or (c.decl or '').endswith('de::Error::missing_field')) and c.args:
                kv = strip(sl.operand(vm, c.args[0]))
                if kv[0] == 'const':
                    vty = c.ga[0] if (c.ga and c.name.endswith('de::missing_field')) else ''
                    req[kv[1]] = vty
        # final aggregate of the type: per field default callee
        agg = None
        for b in vm.blocks:
            for st in b['s']:
                if st[0] == '=' and st[2]['r'] == 'agg' and st[2].get('adt') == ty:
                    agg = sl._rvalue(vm, st[2], set(), 0, None)
        by_field = {k.field: k for k in res['keys'].values()}
        if agg is not None:
            for fname, fv in agg[3]:
                k = by_field.get(fname)
                if k is None:
                    continue
                alts = fv[1] if fv[0] == 'phi' else (fv,)
                for a in alts:
                    a0 = strip(a)
                    if a0[0] == 'call' and not a0[1].endswith(('next_value', 'missing_field')) and a0[1] != 'std::ops::Try::branch':
                        k.default = a0[1]
                    elif a0[0] == 'field' and strip(a0[1])[0] == 'call' and strip(a0[1])[1].endswith('std::default::Default>::default'):
                        # container-level #[serde(default)]: the field of <Container as Default>::default()
                        k.default = 'container:%s.%s' % (strip(a0[1])[1], a0[2])
                        k.container_default = (strip(a0[1])[1], a0[2])
                        # what that field is in the container's Default impl: the same callee a field-level
                        # #[serde(default)] would name (derive(Default) calls Default::default() per field), so
                        # both spellings of the attribute give the same table
                        cf = prog.fns.get(strip(a0[1])[1])
                        cv = strip(sl.local(cf, 0)) if cf is not None else ('unknown',)
                        fv = strip(dict(cv[3]).get(a0[2], ('unknown',))) if cv[0] == 'agg' else ('unknown',)
                        if fv[0] == 'call' and fv[1] in ('std::vec::Vec::<T>::new', 'std::string::String::new'):
                            k.default = 'std::default::Default::default'
                        elif fv[0] == 'call':
                            k.default = fv[1]
                        elif fv[0] == 'const' and fv[1] is False:
                            k.default = '<bool as std::default::Default>::default'
        else:
            res['problems'].append('no struct literal in visit_map')
        for k in res['keys'].values():
            if k.key in req:
                k.required = not req[k.key].startswith('std::option::Option<')
                if not k.required:
                    k.default = 'None'
            else:
                k.required = False
                if k.default is None:
                    res['problems'].append('key %s neither required nor defaulted' % k.key)
    else:
        res['problems'].append('visit_map not found')
    return res


def deser_untagged(prog, sl, ty):
    """ordered variant payload types tried by an untagged enum's Deserialize, or None"""
    fs = _find(prog, r"Deserialize<'de> for %s>::deserialize$" % _ty_rx(ty))
    if len(fs) != 1:
        return None
    f = fs[0]
    tried = []
    content = False
    for c in f.calls:
        if c.indirect or not c.full:
            continue
        if 'ContentRefDeserializer' in c.full and c.decl and c.decl.endswith('Deserialize::deserialize'):
            tried.append(c.ga[0] if c.ga else c.full)
        if c.full and 'Content' in c.full and c.decl and c.decl.endswith('Deserialize::deserialize') and 'ContentRefDeserializer' not in c.full:
            content = True
    if not tried:
        return None
    return {'type': ty, 'kind': 'untagged', 'variants': tried, 'buffered': content, 'fns': [f.path]}


def ser_struct(prog, sl, ty):
    fs = _find(prog, r"Serialize for %s>::serialize$" % _ty_rx(ty))
    if len(fs) != 1:
        return None
    f = fs[0]
    res = {'type': ty, 'keys': {}, 'order': [], 'fns': [f.path], 'kind': 'struct', 'problems': [], 'variants': {}}
    for c in f.calls:
        if c.indirect or not c.decl:
            continue
        d = c.decl.split('::')[-1]
        if d in ('serialize_field', 'serialize_entry') and len(c.args) >= 3:
            kv = strip(sl.operand(f, c.args[1]))
            fv = strip(sl.operand(f, c.args[2]))
            if kv[0] != 'const':
                res['problems'].append('non-constant key in serialize_field')
                continue
            k = res['keys'].setdefault(kv[1], Key(kv[1]))
            k.ser = True
            if fv[0] == 'field' and fv[1][0] == 'param':
                k.field = fv[2]
            else:
                k.field = vstr(fv)[:60]
            res['order'].append(kv[1])
            # guard (for skippable keys the field is written only when the predicate is false)
            for cd in conditions(f, c.bb, sl):
                if cd.kind == 'bool' and cd.value[0] == 'call' and cd.outcome is False and not cd.value[1].endswith('::branch'):
                    k.skip_pred = cd.value[1]
                    k.skip_arg = vstr(cd.value[2][0]) if cd.value[2] else None
        elif d == 'skip_field' and len(c.args) >= 2:
            kv = strip(sl.operand(f, c.args[1]))
            if kv[0] == 'const':
                k = res['keys'].setdefault(kv[1], Key(kv[1]))
                preds = [cd for cd in conditions(f, c.bb, sl) if cd.kind == 'bool' and cd.value[0] == 'call' and cd.outcome is True]
                k.skip_pred = preds[-1].value[1] if preds else 'UNCONDITIONAL'
                k.skip_arg = vstr(preds[-1].value[2][0]) if preds and preds[-1].value[2] else None
        elif d == 'serialize_unit_variant' and len(c.args) >= 4:
            res['kind'] = 'enum'
            nv = strip(sl.operand(f, c.args[3]))
            conds = [cd for cd in conditions(f, c.bb, sl) if cd.kind == 'variant' and cd.enum == ty]
            if nv[0] == 'const' and conds and len(conds[-1].outcome) == 1:
                res['variants'][next(iter(conds[-1].outcome))] = nv[1]
        elif d in ('serialize_newtype_struct',):
            res['kind'] = 'newtype'
        elif d in ('serialize_struct',) and len(c.args) >= 2:
            res['name'] = strip(sl.operand(f, c.args[1]))[1] if strip(sl.operand(f, c.args[1]))[0] == 'const' else None
    return res


def field_type_closure(prog, roots, stop_types=()):
    """workspace ADTs reachable through field types from the root ADTs (peeling Option/Vec/sets/maps)"""
    seen = []
    work = list(roots)
    while work:
        t = work.pop()
        if t in seen or t not in prog.adts:
            continue
        seen.append(t)
        a = prog.adts[t]
        for v in a['variants']:
            for f in v['fields']:
                for m in re.findall(r'[A-Za-z_][A-Za-z0-9_]*(?:::[A-Za-z_][A-Za-z0-9_]*)+', f['ty']):
                    if m in prog.adts and m not in seen and m not in stop_types:
                        work.append(m)
    return seen
