"""C12 — a failed file operation in layer handling or output writing is reported.

Decided structurally: on every path through every function reachable from the layer API, the env
reader/writer, the runtime phases and the TOML helpers, no `Result` carrying an I/O / TOML / layer
error is dropped (`let _ =`, `.ok()`, `unwrap_or*`, `is_ok()`, match without reading the error).
"The k-th file-system call fails" for every k is exactly the statement that no call site discards
its error.  Not decided: that the directory afterwards differs from a successful run.

R4 sharpens "discarded" to the property's own wording — *no success outcome is reachable while the
Result is Err*: an error that is read (logged, matched, handed to an `or_else` / `unwrap_or_else`
handler, kept in a variable that is overwritten) but not returned is a violation; the only accepted
continuations are NotFound on deletes / on reads of optional inputs and errors confined to a variant
that carries no I/O error.  R5 follows Results that travel inside `Option<..>`, as items of iterators
(`fs::read_dir`, `xs.iter().map(fallible)`) and as closure parameters, which R1's type filter never sees.
"""
import re
from .lib.discard import result_fates, verdict
from .lib.guards import conditions
from .lib.value import vstr
from . import C12_helpers as H

ENTRY_RX = [
    r'^libcnb::build::BuildContext::<B>::(cached_layer|uncached_layer|handle_layer)$',
    r'^libcnb::layer::struct_api::LayerRef::<B, MAC, RAC>::(write_metadata|write_env|read_env|write_sboms|write_exec_d_programs)$',
    r'^libcnb::layer_env::LayerEnv::(write_to_layer_dir|read_from_layer_dir)$',
    r'^libcnb::runtime::libcnb_runtime(_detect|_build)?$',
    r'^libcnb_common::toml_file::(read|write)_toml_file$',
    r'^libcnb::util::remove_dir_recursively$',
    r'^libcnb::platform::read_platform_env$',
]
ENTRY_MIN = 16

# error types that belong to the property's subject (file system / TOML / layer handling)
ERR_RX = re.compile(r'std::io::Error|TomlFileError|toml::ser::Error|toml::de::Error|libcnb::layer::|'
                    r'libcnb::error::Error|LayerError|LayerErrorOrBuildpackError')
# the telemetry exporter of the optional `trace` feature is documented best-effort and writes only
# below its own export root; it is outside the property's subject (DESIGN §5 C12) — excluded by module
OUT_OF_SUBJECT = re.compile(r'^libcnb::tracing::')


def scope(prog):
    roots = []
    for rx in ENTRY_RX:
        roots.extend(prog.find(rx))
    if not any(r.path.endswith('remove_dir_recursively') for r in roots):
        from . import layer_roles
        from .lib.value import Slicer
        rm = layer_roles.roles(prog, Slicer(prog)).get('REMOVER')
        if rm in prog.fns:
            roots.append(prog.fns[rm])
    reach = prog.reach(roots, stop=lambda f: bool(OUT_OF_SUBJECT.match(f.path)))
    return roots, {p: f for p, f in reach.items()
                   if f.crate in ('libcnb', 'libcnb_common') and not OUT_OF_SUBJECT.match(p) and not f.derived}


def check_program(prog, rep, slicer, tag=''):
    roots, fns = scope(prog)
    if len(roots) < ENTRY_MIN:
        rep.unproven('R1', 'entries' + tag, '-', 'only %d of >=%d entry points found' % (len(roots), ENTRY_MIN))
    n_sites = 0
    for path in sorted(fns):
        f = fns[path]
        rep.analysed(f)
        per_callee = {}
        for c in f.calls:
            if c.indirect or not c.dty or not c.dty.startswith('std::result::Result<'):
                continue
            if not ERR_RX.search(c.dty):
                continue
            if c.is_('std::ops::Try::branch') or (c.name or '').endswith('::from_residual'):
                continue
            n_sites += 1
            rep.sites()
            fates = result_fates(prog, f, c)
            v = verdict(fates)
            callee = c.name
            k = per_callee.get(callee, 0)
            per_callee[callee] = k + 1
            subject = '%s/%s#%d%s' % (f.path, callee, k, tag)
            if v in ('ok', 'panics'):
                rep.holds('R1', subject, c.where(), 'result of %s is %s' % (callee, 'propagated' if v == 'ok' else 'unwrapped (panics on error)'))
            elif v == 'discarded' and H.stat_predicate(prog, slicer, f, c, fates):
                # `fs::metadata(p).is_ok_and(|m| m.is_file())` is std's definition of `p.is_file()`: a stat used as
                # a boolean path predicate is not one of the property's operations (see not_decided)
                rep.holds('R1', subject, c.where(), 'the stat query %s is consumed as a boolean path predicate '
                          '(the std definition of Path::exists/is_file/is_dir), not an operation of the property' % callee)
            elif v == 'discarded':
                why = '; '.join(x.detail or x.kind for x in fates if x.kind == 'discarded')
                rep.violated('R1', subject, c.where(),
                             'the Result of %s is discarded in %s (%s): an I/O failure here is not reported' % (callee, f.path, why),
                             {'function': f.path, 'callee': callee, 'fates': [repr(x) for x in fates]})
            else:
                rep.unproven('R1', subject, c.where(),
                             'cannot establish that the Result of %s is propagated in %s: %s' % (callee, f.path, [repr(x) for x in fates]))
    rep.floor('R1', 'result_sites' + tag, n_sites)
    return fns


BUFFERED = ('std::io::BufWriter', 'std::io::LineWriter')


def check_buffered_writers(prog, rep, slicer, fns, tag=''):
    """R3: a buffered writer swallows the error of its final flush when it is merely dropped; inside the
    property's scope every BufWriter / LineWriter must be flushed (or unwrapped with into_inner) with the
    Result propagated on every success path"""
    from .lib.effects import success_sites
    n = 0
    for path in sorted(fns):
        f = fns[path]
        for c in f.calls:
            if c.indirect or not c.name or not c.name.startswith(BUFFERED) or c.name.split('::')[-1] not in ('new', 'with_capacity'):
                continue
            n += 1
            wv = slicer._call_value(f, c, set(), 0)
            flushes = []
            for c2 in f.calls:
                if c2.indirect or not c2.args:
                    continue
                short = (c2.decl or '').split('::')[-1]
                if short in ('flush', 'into_inner', 'into_parts') and slicer.operand(f, c2.args[0]) == wv:
                    flushes.append(c2)
            sites = [s.bb for s in success_sites(f)] or f.return_blocks()
            ok = False
            why = 'never flushed'
            for c2 in flushes:
                dom = all(f.dominates(c2.bb, s) for s in sites)
                fate = verdict(result_fates(prog, f, c2))
                if dom and fate in ('ok', 'panics'):
                    ok = True
                why = 'flush at %s dominates all success returns: %s, its result: %s' % (c2.where(), dom, fate)
            subj = '%s/%s%s' % (f.path, 'LineWriter' if 'LineWriter' in c.name else 'BufWriter', tag)
            rep.check(ok, 'R3', subj, c.where(), 'buffered writer flushed with its error propagated on every success path',
                      'a buffered writer created in %s is dropped without a propagated flush (%s): a failing final write is silently discarded '
                      'while the function returns Ok' % (f.path, why))
    return n


def check_not_found_helper(prog, rep, slicer):
    """R2: the best-effort helper turns exactly ErrorKind::NotFound into success"""
    from . import layer_roles
    ROLES = layer_roles.roles(prog, slicer)
    f = prog.fn(ROLES['NOT_FOUND_HELPER'] or 'libcnb::util::default_on_not_found')
    rep.analysed(f)
    # the helper's result decomposed into cases (through local copies and `result.or_else(|e| ..)`): the input
    # returned unchanged / an error returned / a fresh Ok(..) produced — the latter only under Err(e) && not-found(e)
    cases = H.helper_cases(prog, slicer, f)
    pred_name = ROLES['NOT_FOUND_PRED']
    if pred_name and pred_name in prog.fns and H.inverse_predicate(slicer, prog.fns[pred_name]):
        # the helper's predicate is the *negation* (`fn is_other_error(e) = !matches!(e.kind(), NotFound)`): it is never
        # accepted by name; every guard using it is judged on its inlined view (Cond.views), polarity included
        pred_name = None
        rep.extra['not_found_predicate_inverse'] = True
    for g_ in {c.fn.path: c.fn for c in cases}.values():
        rep.analysed(g_)
    if not any(c.kind == 'fresh_ok' for c in cases):
        rep.unproven('R2', 'default_on_not_found/ok-site', f.file, 'no Ok(..) construction found')
    for c in cases:
        if c.kind == 'fresh_ok':
            is_err, nf, conds = H.fresh_ok_guard(prog, slicer, c, pred_name)
            rep.check(is_err and nf, 'R2', 'default_on_not_found/guard', '%s:%d' % (f.file, f.line),
                      'Ok(default) is produced only under Err(e) && is_not_found_error_kind(e)',
                      'Ok(default) is produced without the NotFound guard: other I/O errors would be swallowed',
                      [repr(x) for x in conds])
        elif c.kind in ('same', 'err'):
            # every other path returns the input unchanged (or an error: nothing is swallowed)
            if c.kind == 'same':
                rep.holds('R2', 'default_on_not_found/passthrough', '%s:%d' % (f.file, f.line), 'all other results are returned unchanged')
        else:
            rep.check(False, 'R2', 'default_on_not_found/passthrough', '%s:%d' % (f.file, f.line),
                      'all other results are returned unchanged', 'a non-NotFound result is altered: ' + vstr(c.value)[:160])
    try:
        g = prog.fn(ROLES['NOT_FOUND_PRED'] or 'libcnb::util::is_not_found_error_kind')
    except Exception:
        g = None
    if g is None:
        # no separate not-found predicate exists (its body is written out in the guards that used it): the obligation
        # "true exactly for ErrorKind::NotFound" is then carried by each guard itself — by `fresh_ok_guard` above for
        # the helper (which accepts only the predicate *or* an inline `kind() == / matches NotFound` test) and by
        # `ErrFlow._classify_edge` for every other tolerating site (R4).  A helper whose fresh Ok is not under such an
        # inline test has been reported by R2/default_on_not_found/guard.
        inline_ok = any(c.kind == 'fresh_ok' for c in cases) and \
            all(H.fresh_ok_guard(prog, slicer, c, None)[1] for c in cases if c.kind == 'fresh_ok')
        if inline_ok:
            rep.holds('R2', 'is_not_found_error_kind/kind', '%s:%d' % (f.file, f.line),
                      'no separate predicate: the helper tests kind() against ErrorKind::NotFound inline')
        else:
            rep.unproven('R2', 'is_not_found_error_kind/kind', f.file,
                         'no not-found predicate function and the helper\'s guard is not an inline NotFound test')
        return
    rep.analysed(g)
    true_sites = []
    for bi, b in enumerate(g.blocks):
        for s in b['s']:
            if s[0] == '=' and s[1] == [0] and s[2]['r'] == 'use' and 'k' in s[2]['o']:
                from .lib.mir import const_value
                if const_value(s[2]['o']['k']) is True:
                    true_sites.append(bi)
    if not true_sites:
        # the predicate written as one expression: `matches!(e.kind(), NotFound)` (a per-variant table) or `e.kind() == NotFound`
        from .lib.paths import strip as _strip
        rv = _strip(slicer.local(g, 0))
        is_kind = lambda x: _strip(x)[0] == 'call' and _strip(x)[1] == 'std::io::Error::kind' and _strip(_strip(x)[2][0])[0] == 'param'
        is_nf = lambda x: _strip(x)[0] == 'agg' and _strip(x)[2] == 'NotFound' and (_strip(x)[1] or '').endswith('io::ErrorKind')
        if H.inverse_predicate(slicer, g):
            rep.holds('R2', 'is_not_found_error_kind/kind', '%s:%d' % (g.file, g.line),
                      'the predicate is false exactly for ErrorKind::NotFound of the parameter (a negated predicate: '
                      'never accepted by name, its uses are judged on the inlined test)')
        elif rv[0] == 'select' and is_kind(rv[1]):
            trues = sorted(n for names, val in rv[3] if val == ('const', True) for n in names)
            others = all(val in (('const', True), ('const', False)) for _, val in rv[3])
            rep.check(trues == ['NotFound'] and others, 'R2', 'is_not_found_error_kind/kind', '%s:%d' % (g.file, g.line),
                      'true is returned exactly for ErrorKind::NotFound of the parameter', 'the not-found predicate is true for %s' % trues)
        elif rv[0] == 'call' and rv[1].endswith('::eq') and len(rv[2]) == 2 and \
                ((is_kind(rv[2][0]) and is_nf(rv[2][1])) or (is_kind(rv[2][1]) and is_nf(rv[2][0]))):
            rep.holds('R2', 'is_not_found_error_kind/kind', '%s:%d' % (g.file, g.line), 'the predicate is kind(param) == ErrorKind::NotFound')
        else:
            rep.unproven('R2', 'is_not_found_error_kind/true-site', g.file, 'no `true` result found and the predicate is not a recognised single expression: ' + vstr(rv)[:100])
    for bi in true_sites:
        conds = conditions(g, bi, slicer)
        good = [c for c in conds if c.kind == 'variant' and c.outcome == frozenset({'NotFound'})
                and c.subject[0] == 'call' and c.subject[1] == 'std::io::Error::kind' and c.subject[2][0][0] == 'param']
        rep.check(bool(good), 'R2', 'is_not_found_error_kind/kind', '%s:%d' % (g.file, g.line),
                  'true is returned exactly for ErrorKind::NotFound of the parameter',
                  'the not-found predicate accepts other error kinds: ' + str([repr(c) for c in conds]))


def _sites(fns):
    """the R1 sites: (fn, call, subject) for every call returning Result<_, E> of the property's subject"""
    for path in sorted(fns):
        f = fns[path]
        per_callee = {}
        for c in f.calls:
            if c.indirect or not c.dty or not c.dty.startswith('std::result::Result<') or not ERR_RX.search(c.dty):
                continue
            if c.is_('std::ops::Try::branch') or (c.name or '').endswith('::from_residual'):
                continue
            k = per_callee.get(c.name, 0)
            per_callee[c.name] = k + 1
            yield f, c, '%s/%s#%d' % (f.path, c.name, k)


def _report(rep, rule, subject, where, res, ok_msg):
    status, why = res
    if status in ('ok', 'tolerated'):
        rep.holds(rule, subject, where, ok_msg + ((' (%s)' % why) if status == 'tolerated' and why else ''))
    elif status == 'violated':
        rep.violated(rule, subject, where, why)
    else:
        rep.unproven(rule, subject, where, why or 'not decided')


def _carrying_fns(prog, fns):
    """workspace functions in scope that return a Result of *another* error type (`Result<(), String>`,
    `Box<dyn Error>`..) although a failure of the subject can end in their Err: they contain (transitively, inside
    the scope) a call returning Result<_, E> of the subject.  A call to such a function is a site of R4 as well."""
    direct = {p for p, f in fns.items()
              if any((not c.indirect) and c.dty and c.dty.startswith('std::result::Result<') and ERR_RX.search(c.dty) for c in f.calls)}
    out = set()
    for p, f in fns.items():
        if not f.ret.startswith('std::result::Result<') or ERR_RX.search(f.ret) or f.kind == 'Closure':
            continue
        reach = prog.reach([f], stop=lambda g: g.path not in fns)
        if any(q in direct for q in reach):
            out.add(p)
    return out


def _extra_sites(prog, fns):
    carry = _carrying_fns(prog, fns)
    if not carry:
        return
    for path in sorted(fns):
        f = fns[path]
        per = {}
        for c in f.calls:
            if c.indirect or not c.dty or not c.dty.startswith('std::result::Result<') or ERR_RX.search(c.dty):
                continue
            if not any(g.path in carry for g in prog.callee_fns(c)):
                continue
            k = per.get(c.name, 0)
            per[c.name] = k + 1
            yield f, c, '%s/%s#%d' % (f.path, c.name, k)


def check_err_flow(prog, rep, slicer, fns, tag=''):
    """R4: for every R1 site that R1 accepts — can the enclosing function still reach a success outcome when the
    Result is Err?  Accepted explanations: the NotFound tolerance on deletes, a match whose continuing Err arms are
    confined to NotFound / non-I/O variants.  (Sites R1 already reports as discarded are not repeated.)"""
    from . import layer_roles
    EF = H.ErrFlow(prog, slicer, layer_roles.roles(prog, slicer))
    if EF.pred in prog.fns and H.inverse_predicate(slicer, prog.fns[EF.pred]):
        EF.pred = None      # a negated predicate is never accepted by name (see R2)
    n = tol = 0
    for f, c, subject in _sites(fns):
        fates = result_fates(prog, f, c)
        v = verdict(fates)
        if v == 'discarded':
            continue        # R1 reports it (or explains it as a stat predicate)
        n += 1
        res = EF.site(f, c)
        tol += res[0] == 'tolerated'
        _report(rep, 'R4', subject + tag, c.where(), res,
                'a failure of %s cannot end in a success outcome of %s' % (c.name, f.path))
    for f, c, subject in _extra_sites(prog, fns):
        # the error type is not one of the subject's, but the callee fails when a file operation fails
        n += 1
        _report(rep, 'R4', subject + tag, c.where(), EF.site(f, c),
                'a failure of %s (which carries file-system failures) cannot end in a success outcome of %s' % (c.name, f.path))
    rep.check(n >= 100, 'R4', 'sites' + tag, '-', '%d Result sites examined' % n, 'only %d Result sites found (expected >= 100)' % n)
    rep.extra['tolerated_failures'] = tol
    return EF


def check_carriers(prog, rep, slicer, fns, EF, tag=''):
    """R5: Results travelling inside Option<..>, as items of iterators, or as parameters of closures"""
    from .lib.mir import op_place
    car = H.Carriers(prog, ERR_RX)
    n_opt = 0
    for path in sorted(fns):
        f = fns[path]
        per = {}
        for c in f.calls:
            if c.indirect:
                continue
            key = c.name or '?'
            # (a) Option<Result<_, E>> produced by a call (`Iterator::next` of a fallible stream, `opt.map(fallible)`)
            if c.dty and car.is_opt_result(c.dty) and c.dest and len(c.dest) == 1 and c.dest[0] != 0:
                k = per.get(('o', key), 0)
                per[('o', key)] = k + 1
                n_opt += 1
                _report(rep, 'R5', 'option/%s/%s#%d%s' % (f.path, key, k, tag), c.where(), EF.option(f, [c.dest[0]], c),
                        'an Err inside the Option<Result> of %s cannot end in a success outcome of %s' % (key, f.path))
            # (b) a stream of Results handed to an adapter / consumer
            for ai, a in enumerate(c.args):
                pl = op_place(a)
                if not pl or len(pl) != 1 or pl[0] >= len(f.locals):
                    continue
                ty = f.locals[pl[0]]['ty']
                if car.is_result(ty) or car.is_opt_result(ty):
                    continue
                ir = car.item_result(ty)
                if ir is False:
                    continue
                k = per.get(('s', key), 0)
                per[('s', key)] = k + 1
                subj = 'stream/%s/%s#%d%s' % (f.path, key, k, tag)
                if ir is None:
                    rep.unproven('R5', subj, c.where(), 'cannot decide whether %s carries Results of the subject' % ty[:120])
                    continue
                _report(rep, 'R5', subj, c.where(), H.stream_consumer(car, prog, slicer, f, c, fns, EF.helper),
                        'the stream of Results reaches a consumer that keeps the element errors')
        # (c) Result-typed parameters (elements handed to closures of adapters, helpers taking a Result by value)
        if f.path in EF.helpers:
            continue        # the helper (and the functions it merely forwards to): judged by R2 on its cases
        for i in range(1, f.argc + 1):
            ty = f.locals[i]['ty'] if i < len(f.locals) else ''
            if car.is_result(ty):
                res = EF.place(f, [i], None)
            elif car.is_opt_result(ty):
                res = EF.option(f, [i], None)
            else:
                continue
            _report(rep, 'R5', 'param/%s/%d%s' % (f.path, i, tag), '%s:%d' % (f.file, f.line), res,
                    'an Err passed in parameter %d cannot end in a success outcome of %s' % (i, f.path))
    rep.extra['option_result_carriers'] = n_opt


def run(ctx, rep):
    rep.rule('R1', 'no call returning Result<_, io/TOML/layer error> reachable from the layer API, env reader/writer, '
                   'runtime phases or TOML helpers has its error discarded on any path (A9 fate analysis)')
    rep.rule('R2', 'the best-effort delete helper tolerates exactly ErrorKind::NotFound')
    rep.not_decided = ['that the directory differs from a successful run after a failure (value level)',
                       'errors swallowed inside std (Path::exists/is_dir stat errors are outside the property\'s operation list)']
    rep.rule('R3', 'buffered writers in scope are flushed (or unwrapped) with the Result propagated before success is returned')
    fns = check_program(ctx.prog, rep, ctx.slicer)
    nb = check_buffered_writers(ctx.prog, rep, ctx.slicer, fns)
    rep.extra['buffered_writers_in_scope'] = nb
    check_not_found_helper(ctx.prog, rep, ctx.slicer)
    rep.rule('R4', 'no Result of the subject can be Err while the enclosing function reaches a success outcome, except '
                   'NotFound on deliberate best-effort deletes and errors confined to a non-I/O variant')
    rep.rule('R5', 'Results carried inside Option<..>, as items of iterators (fs::read_dir, mapped fallible closures) or as '
                   'closure parameters are consumed so that an element error ends in failure')
    EF = check_err_flow(ctx.prog, rep, ctx.slicer, fns)
    check_carriers(ctx.prog, rep, ctx.slicer, fns, EF)
