"""C12 — a failed file operation in layer handling or output writing is reported.

Decided structurally: on every path through every function reachable from the layer API, the env
reader/writer, the runtime phases and the TOML helpers, no `Result` carrying an I/O / TOML / layer
error is dropped (`let _ =`, `.ok()`, `unwrap_or*`, `is_ok()`, match without reading the error).
"The k-th file-system call fails" for every k is exactly the statement that no call site discards
its error.  Not decided: that the directory afterwards differs from a successful run.
"""
import re
from .lib.discard import result_fates, verdict
from .lib.guards import conditions
from .lib.value import vstr
from . import C12_helpers as H

ENTRY_RX = [
    r'^libcnb::build::BuildContext::<B>::(cached_layer|uncached_layer|handle_layer)$',
    r'^libcnb::layer::struct_api::LayerRef::<B, MAC, RAC>::(write_metadata|write_env|read_env|write_sboms|write_exec_d_programs)$',
    r'^libcnb::layer_env::LayerEnv::(write_to_layer_dir|read_from_layer_dir)$',
    r'^libcnb::runtime::libcnb_runtime(_detect|_build)?$',
    r'^libcnb_common::toml_file::(read|write)_toml_file$',
    r'^libcnb::util::remove_dir_recursively$',
    r'^libcnb::platform::read_platform_env$',
]
ENTRY_MIN = 16

# error types that belong to the property's subject (file system / TOML / layer handling)
ERR_RX = re.compile(r'std::io::Error|TomlFileError|toml::ser::Error|toml::de::Error|libcnb::layer::|'
                    r'libcnb::error::Error|LayerError|LayerErrorOrBuildpackError')
# the telemetry exporter of the optional `trace` feature is documented best-effort and writes only
# below its own export root; it is outside the property's subject (DESIGN §5 C12) — excluded by module
OUT_OF_SUBJECT = re.compile(r'^libcnb::tracing::')


def scope(prog):
    roots = []
    for rx in ENTRY_RX:
        roots.extend(prog.find(rx))
    if not any(r.path.endswith('remove_dir_recursively') for r in roots):
        from . import layer_roles
        from .lib.value import Slicer
        rm = layer_roles.roles(prog, Slicer(prog)).get('REMOVER')
        if rm in prog.fns:
            roots.append(prog.fns[rm])
    reach = prog.reach(roots, stop=lambda f: bool(OUT_OF_SUBJECT.match(f.path)))
    return roots, {p: f for p, f in reach.items()
                   if f.crate in ('libcnb', 'libcnb_common') and not OUT_OF_SUBJECT.match(p) and not f.derived}


def check_program(prog, rep, slicer, tag=''):
    roots, fns = scope(prog)
    if len(roots) < ENTRY_MIN:
        rep.unproven('R1', 'entries' + tag, '-', 'only %d of >=%d entry points found' % (len(roots), ENTRY_MIN))
    n_sites = 0
    for path in sorted(fns):
        f = fns[path]
        rep.analysed(f)
        per_callee = {}
        for c in f.calls:
            if c.indirect or not c.dty or not c.dty.startswith('std::result::Result<'):
                continue
            if not ERR_RX.search(c.dty):
                continue
            if c.is_('std::ops::Try::branch') or (c.name or '').endswith('::from_residual'):
                continue
            n_sites += 1
            rep.sites()
            fates = result_fates(prog, f, c)
            v = verdict(fates)
            callee = c.name
            k = per_callee.get(callee, 0)
            per_callee[callee] = k + 1
            subject = '%s/%s#%d%s' % (f.path, callee, k, tag)
            if v in ('ok', 'panics'):
                rep.holds('R1', subject, c.where(), 'result of %s is %s' % (callee, 'propagated' if v == 'ok' else 'unwrapped (panics on error)'))
            elif v == 'discarded' and H.stat_predicate(prog, slicer, f, c, fates):
                # `fs::metadata(p).is_ok_and(|m| m.is_file())` is std's definition of `p.is_file()`: a stat used as
                # a boolean path predicate is not one of the property's operations (see not_decided)
                rep.holds('R1', subject, c.where(), 'the stat query %s is consumed as a boolean path predicate '
                          '(the std definition of Path::exists/is_file/is_dir), not an operation of the property' % callee)
            elif v == 'discarded':
                why = '; '.join(x.detail or x.kind for x in fates if x.kind == 'discarded')
                rep.violated('R1', subject, c.where(),
                             'the Result of %s is discarded in %s (%s): an I/O failure here is not reported' % (callee, f.path, why),
                             {'function': f.path, 'callee': callee, 'fates': [repr(x) for x in fates]})
            else:
                rep.unproven('R1', subject, c.where(),
                             'cannot establish that the Result of %s is propagated in %s: %s' % (callee, f.path, [repr(x) for x in fates]))
    rep.floor('R1', 'result_sites' + tag, n_sites)
    return fns


BUFFERED = ('std::io::BufWriter', 'std::io::LineWriter')


def check_buffered_writers(prog, rep, slicer, fns, tag=''):
    """R3: a buffered writer swallows the error of its final flush when it is merely dropped; inside the
    property's scope every BufWriter / LineWriter must be flushed (or unwrapped with into_inner) with the
    Result propagated on every success path"""
    from .lib.effects import success_sites
    n = 0
    for path in sorted(fns):
        f = fns[path]
        for c in f.calls:
            if c.indirect or not c.name or not c.name.startswith(BUFFERED) or c.name.split('::')[-1] not in ('new', 'with_capacity'):
                continue
            n += 1
            wv = slicer._call_value(f, c, set(), 0)
            flushes = []
            for c2 in f.calls:
                if c2.indirect or not c2.args:
                    continue
                short = (c2.decl or '').split('::')[-1]
                if short in ('flush', 'into_inner', 'into_parts') and slicer.operand(f, c2.args[0]) == wv:
                    flushes.append(c2)
            sites = [s.bb for s in success_sites(f)] or f.return_blocks()
            ok = False
            why = 'never flushed'
            for c2 in flushes:
                dom = all(f.dominates(c2.bb, s) for s in sites)
                fate = verdict(result_fates(prog, f, c2))
                if dom and fate in ('ok', 'panics'):
                    ok = True
                why = 'flush at %s dominates all success returns: %s, its result: %s' % (c2.where(), dom, fate)
            subj = '%s/%s%s' % (f.path, 'LineWriter' if 'LineWriter' in c.name else 'BufWriter', tag)
            rep.check(ok, 'R3', subj, c.where(), 'buffered writer flushed with its error propagated on every success path',
                      'a buffered writer created in %s is dropped without a propagated flush (%s): a failing final write is silently discarded '
                      'while the function returns Ok' % (f.path, why))
    return n


def check_not_found_helper(prog, rep, slicer):
    """R2: the best-effort helper turns exactly ErrorKind::NotFound into success"""
    from . import layer_roles
    ROLES = layer_roles.roles(prog, slicer)
    f = prog.fn(ROLES['NOT_FOUND_HELPER'] or 'libcnb::util::default_on_not_found')
    rep.analysed(f)
    # the helper's result decomposed into cases (through local copies and `result.or_else(|e| ..)`): the input
    # returned unchanged / an error returned / a fresh Ok(..) produced — the latter only under Err(e) && not-found(e)
    cases = H.helper_cases(prog, slicer, f)
    for g_ in {c.fn.path: c.fn for c in cases}.values():
        rep.analysed(g_)
    if not any(c.kind == 'fresh_ok' for c in cases):
        rep.unproven('R2', 'default_on_not_found/ok-site', f.file, 'no Ok(..) construction found')
    for c in cases:
        if c.kind == 'fresh_ok':
            is_err, nf, conds = H.fresh_ok_guard(prog, slicer, c, ROLES['NOT_FOUND_PRED'])
            rep.check(is_err and nf, 'R2', 'default_on_not_found/guard', '%s:%d' % (f.file, f.line),
                      'Ok(default) is produced only under Err(e) && is_not_found_error_kind(e)',
                      'Ok(default) is produced without the NotFound guard: other I/O errors would be swallowed',
                      [repr(x) for x in conds])
        elif c.kind in ('same', 'err'):
            # every other path returns the input unchanged (or an error: nothing is swallowed)
            if c.kind == 'same':
                rep.holds('R2', 'default_on_not_found/passthrough', '%s:%d' % (f.file, f.line), 'all other results are returned unchanged')
        else:
            rep.check(False, 'R2', 'default_on_not_found/passthrough', '%s:%d' % (f.file, f.line),
                      'all other results are returned unchanged', 'a non-NotFound result is altered: ' + vstr(c.value)[:160])
    g = prog.fn(ROLES['NOT_FOUND_PRED'] or 'libcnb::util::is_not_found_error_kind')
    rep.analysed(g)
    true_sites = []
    for bi, b in enumerate(g.blocks):
        for s in b['s']:
            if s[0] == '=' and s[1] == [0] and s[2]['r'] == 'use' and 'k' in s[2]['o']:
                from .lib.mir import const_value
                if const_value(s[2]['o']['k']) is True:
                    true_sites.append(bi)
    if not true_sites:
        # the predicate written as one expression: `matches!(e.kind(), NotFound)` (a per-variant table) or `e.kind() == NotFound`
        from .lib.paths import strip as _strip
        rv = _strip(slicer.local(g, 0))
        is_kind = lambda x: _strip(x)[0] == 'call' and _strip(x)[1] == 'std::io::Error::kind' and _strip(_strip(x)[2][0])[0] == 'param'
        is_nf = lambda x: _strip(x)[0] == 'agg' and _strip(x)[2] == 'NotFound' and (_strip(x)[1] or '').endswith('io::ErrorKind')
        if rv[0] == 'select' and is_kind(rv[1]):
            trues = sorted(n for names, val in rv[3] if val == ('const', True) for n in names)
            others = all(val in (('const', True), ('const', False)) for _, val in rv[3])
            rep.check(trues == ['NotFound'] and others, 'R2', 'is_not_found_error_kind/kind', '%s:%d' % (g.file, g.line),
                      'true is returned exactly for ErrorKind::NotFound of the parameter', 'the not-found predicate is true for %s' % trues)
        elif rv[0] == 'call' and rv[1].endswith('::eq') and len(rv[2]) == 2 and \
                ((is_kind(rv[2][0]) and is_nf(rv[2][1])) or (is_kind(rv[2][1]) and is_nf(rv[2][0]))):
            rep.holds('R2', 'is_not_found_error_kind/kind', '%s:%d' % (g.file, g.line), 'the predicate is kind(param) == ErrorKind::NotFound')
        else:
            rep.unproven('R2', 'is_not_found_error_kind/true-site', g.file, 'no `true` result found and the predicate is not a recognised single expression: ' + vstr(rv)[:100])
    for bi in true_sites:
        conds = conditions(g, bi, slicer)
        good = [c for c in conds if c.kind == 'variant' and c.outcome == frozenset({'NotFound'})
                and c.subject[0] == 'call' and c.subject[1] == 'std::io::Error::kind' and c.subject[2][0][0] == 'param']
        rep.check(bool(good), 'R2', 'is_not_found_error_kind/kind', '%s:%d' % (g.file, g.line),
                  'true is returned exactly for ErrorKind::NotFound of the parameter',
                  'the not-found predicate accepts other error kinds: ' + str([repr(c) for c in conds]))


def run(ctx, rep):
    rep.rule('R1', 'no call returning Result<_, io/TOML/layer error> reachable from the layer API, env reader/writer, '
                   'runtime phases or TOML helpers has its error discarded on any path (A9 fate analysis)')
    rep.rule('R2', 'the best-effort delete helper tolerates exactly ErrorKind::NotFound')
    rep.not_decided = ['that the directory differs from a successful run after a failure (value level)',
                       'errors swallowed inside std (Path::exists/is_dir stat errors are outside the property\'s operation list)']
    rep.rule('R3', 'buffered writers in scope are flushed (or unwrapped) with the Result propagated before success is returned')
    fns = check_program(ctx.prog, rep, ctx.slicer)
    nb = check_buffered_writers(ctx.prog, rep, ctx.slicer, fns)
    rep.extra['buffered_writers_in_scope'] = nb
    check_not_found_helper(ctx.prog, rep, ctx.slicer)
