"""C17 — libcnb-test passes configuration to pack and docker completely and only in value positions.

Decided structurally:
  R1 value positions   in every `From<XCommand> for Command`: program, sub-command words and flags are constants;
                       every field-derived argv element directly follows a constant `--option` in the same array
                       (option value) or is a listed positional (library-generated image / container / volume
                       names; the trailing container command after the image, where docker stops option
                       parsing); docker exec's command always starts with the constant launcher binary
  R2 field completeness every field of every command struct is read by its conversion
  R3 config forwarding start_container forwards every ContainerConfig field to the matching setter;
                       build_internal forwards builder, app path, every env pair (one setter call per element),
                       every buildpack reference in order (one call per element), and uses cargo_profile /
                       target_triple for packaging and expected_pack_result for the verdict
  R4 app copy          the preprocessor receives the path of the temporary copy, never the fixture; pack gets
                       the copy when a preprocessor ran and the fixture itself otherwise
  R5 once and ordered  env / ports / mounts live in ordered maps / sets of the command structs, buildpacks in a
                       Vec; each loop emits one option per element
Not decided: Docker's / pack's own sub-parsing of option values (e.g. `=` inside --env values, `,` in mount paths).
"""
from .lib.cmdmodel import command_model, from_command_fns
from .lib.guards import conditions
from .lib.paths import strip
from .lib.value import vstr, walk

# positional (non-option) elements that are allowed: (struct, field) -> reason
POSITIONAL = {
    ('DockerRunCommand', 'image_name'): 'image (library generated name)',
    ('DockerRunCommand', 'command'): 'container command after the image: docker stops option parsing there',
    ('DockerExecCommand', 'container_name'): 'library generated container name',
    ('DockerExecCommand', 'command'): 'command after the container name; always starts with the constant launcher binary (checked)',
    ('DockerLogsCommand', 'container_name'): 'library generated container name',
    ('DockerPortCommand', 'container_name'): 'library generated container name',
    ('DockerPortCommand', 'port'): 'u16 rendered as digits',
    ('DockerRemoveContainerCommand', 'container_name'): 'library generated container name',
    ('DockerRemoveImageCommand', 'image_name'): 'library generated image name',
    ('DockerRemoveVolumeCommand', 'volume_names'): 'library generated volume names',
    ('PackBuildCommand', 'image_name'): 'library generated image name',
    ('PackSbomDownloadCommand', 'image_name'): 'library generated image name',
}
CONTAINER_SETTERS = {'entrypoint': 'entrypoint', 'command': 'command', 'env': 'env', 'exposed_ports': 'expose_port', 'bind_mounts': 'bind_mount'}


def run(ctx, rep):
    prog, sl = ctx.prog, ctx.slicer
    for r, d in (('R1', 'user values only in option-value positions; words and flags constant'), ('R2', 'every command-struct field reaches argv'),
                 ('R3', 'every configuration field is forwarded'), ('R4', 'preprocessor and pack see the temporary copy, the fixture stays untouched'),
                 ('R5', 'ordered containers, one option per element')):
        rep.rule(r, d)
    rep.not_decided = ['docker/pack sub-parsing of option values ("=" in --env values, "," in mount paths)']
    cmds = from_command_fns(prog)
    rep.floor('R1', 'command_conversions', len(cmds))
    for ty, f in sorted(cmds.items()):
        rep.analysed(f)
        short = ty.split('::')[-1]
        program, items = command_model(prog, sl, f)
        where = '%s:%d' % (f.file, f.line)
        rep.extra.setdefault('argv_models', {})[short] = [repr(it) for it in items]
        rep.check(program in ('docker', 'pack'), 'R1', short + '/program', where, 'program = "%s"' % program, 'program is not a constant: %s' % program)
        first = items[0].elems[0] if items and items[0].elems else None
        rep.check(first is not None and first[0] == 'const' and not first[1].startswith('-'), 'R1', short + '/subcommand', where, 'first word is the constant sub-command', 'first argv word is %s' % (first,))
        used = set()
        seen_image = False
        # `.arg("--x").arg(value)` and `.args(["--x", value])` are the same argv: merge consecutive contributions
        # made under identical guards / in the same loop
        merged = []
        for it in items:
            if merged and merged[-1].conds == it.conds and merged[-1].loop == it.loop and it.elems and it.elems[0][0] == 'field' \
                    and merged[-1].elems and merged[-1].elems[-1][0] == 'const' and merged[-1].elems[-1][1].startswith('--'):
                merged[-1].elems = merged[-1].elems + it.elems
            else:
                merged.append(it)
        items = merged
        for idx, it in enumerate(items):
            for g, _ in it.conds:
                used.add(g)
            if it.loop:
                used.add(it.loop)
            prev = None
            for e in it.elems:
                if e[0] == 'field':
                    used.add(e[1])
                    ok_opt = prev is not None and prev[0] == 'const' and prev[1].startswith('--')
                    pos = POSITIONAL.get((short, e[1]))
                    subj = '%s/%s' % (short, e[1])
                    if ok_opt:
                        rep.holds('R1', subj, it.call.where(), '%s is the value of %s' % (e[1], prev[1]))
                    elif pos:
                        good = True
                        if (short, e[1]) == ('DockerRunCommand', 'command'):
                            good = seen_image and idx == len(items) - 1
                        rep.check(good, 'R1', subj, it.call.where(), 'positional: ' + pos, 'container command is not the trailing argv part after the image')
                    else:
                        rep.violated('R1', subj, it.call.where(), 'field %s reaches argv outside an option-value position (preceded by %s): a value starting with "-" would be parsed as an option' % (e[1], prev))
                    if (short, e[1]) == ('DockerRunCommand', 'image_name'):
                        seen_image = True
                elif e[0] == 'other':
                    rep.unproven('R1', '%s/unrecognised' % short, it.call.where(), 'argv element of unknown origin: %s' % e[1])
                prev = e
        # fields consumed through a `match` that selects a constant word (e.g. pull_policy)
        if any(e[0] == 'const-choice' for it in items for e in it.elems):
            for b in f.blocks:
                for st in b['s']:
                    if st[0] == '=' and st[2]['r'] == 'discr' and st[2]['p'][0] == 1:
                        flds = [x[1:] for x in st[2]['p'][1:] if x.startswith('.')]
                        if flds:
                            used.add(flds[0])
        # R2
        adt = prog.adt(ty)
        fields = [x['name'] for x in adt['variants'][0]['fields']]
        missing = [x for x in fields if x not in used]
        rep.check(not missing, 'R2', short, where, 'all fields %s reach argv' % fields, 'fields %s of %s never reach the command line' % (missing, short))
        # R5 (per loop)
        for it in items:
            if it.loop:
                fty = next(x['ty'] for x in adt['variants'][0]['fields'] if x['name'] == it.loop)
                ordered = fty.startswith(('std::collections::BTreeMap<', 'std::collections::BTreeSet<', 'std::vec::Vec<'))
                shape = len(it.elems) == 2 and it.elems[0][0] == 'const' and it.elems[0][1].startswith('--') and it.elems[1][0] == 'field' and it.elems[1][1] == it.loop
                rep.check(ordered and shape, 'R5', '%s/%s' % (short, it.loop), it.call.where(), 'one %s per element of the ordered %s' % (it.elems[0][1] if it.elems else '?', fty.split('<')[0].split('::')[-1]),
                          'loop over %s (%s) emits %s' % (it.loop, fty, it.elems))
    # docker exec command starts with the launcher constant
    ex_new = 'libcnb_test::docker::DockerExecCommand::new'
    sites = [c for c in prog.callers().get(ex_new, []) if c.name == ex_new]
    for i, c in enumerate(sites):
        v = strip(sl.operand(c.fn, c.args[1]))
        ok = v[0] == 'array' and v[1] and strip(v[1][0]) == ('const', 'launcher')
        rep.check(ok, 'R1', 'DockerExecCommand/first-word#%d' % i, c.where(), 'exec command starts with the constant launcher binary', 'docker exec command starts with %s' % vstr(v)[:80])
    rep.check(bool(sites), 'R1', 'DockerExecCommand/sites', '-', '%d construction site(s)' % len(sites), 'no DockerExecCommand construction found')
    # ---- R3 container -------------------------------------------------------------------------------------
    sc = prog.find_one(r"^libcnb_test::test_context::TestContext::<'_>::start_container$")
    rep.analysed(sc)
    cfg = prog.adt('libcnb_test::container_config::ContainerConfig')
    cfields = [x['name'] for x in cfg['variants'][0]['fields']]
    rep.check(sorted(cfields) == sorted(CONTAINER_SETTERS), 'R3', 'ContainerConfig/fields', '%s:%s' % (cfg['file'], cfg['line']), 'forwarding table covers all %d fields' % len(cfields),
              'ContainerConfig fields %s, forwarding table knows %s' % (cfields, sorted(CONTAINER_SETTERS)))
    fns = [sc] + prog.closures_of(sc)
    setter_calls = {}
    for g in fns:
        for c in g.calls:
            if c.name and c.name.startswith('libcnb_test::docker::DockerRunCommand::'):
                setter_calls.setdefault(c.name.split('::')[-1], []).append((g, c))

    def cfg_field(v):
        for x in walk(v):
            if x[0] == 'field' and x[2] in cfields and strip(x[1])[0] == 'param' and strip(x[1])[1] == sc.path and strip(x[1])[2] == 1:
                return x[2]
        return None
    for fld, setter in CONTAINER_SETTERS.items():
        cs = setter_calls.get(setter, [])
        ok = len(cs) == 1
        why = '%d call(s) of %s' % (len(cs), setter)
        if ok:
            g, c = cs[0]
            if g is sc:
                src = cfg_field(sl.operand(sc, c.args[1]))
                ok = src == fld
                why = 'argument <- config.%s' % src
            else:
                # closure fed by config.<fld>.iter().for_each(..)
                fe = [x for x in sc.calls if x.name == 'std::iter::Iterator::for_each' and any(y[0] == 'closure' and y[1] == g.path for y in walk(sl.operand(sc, x.args[1])))]
                ok = len(fe) == 1 and cfg_field(sl.operand(sc, fe[0].args[0])) == fld
                if ok:
                    ad = [strip(sl.operand(g, a)) for a in c.args[1:]]
                    ok = all(any(y[0] == 'param' and y[1] == g.path for y in walk(a)) for a in ad)
                    if len(ad) == 2:
                        ok = ok and [a[2] if a[0] == 'field' else None for a in ad] == ['0', '1']
                why = 'for_each over config.%s -> %s(element)' % (fld, setter)
        rep.check(ok, 'R3', 'container/' + fld, cs[0][1].where() if cs else '%s:%d' % (sc.file, sc.line), why, 'ContainerConfig.%s is not forwarded to DockerRunCommand::%s (%s)' % (fld, setter, why))
    img = setter_calls.get('new', [])
    ok = len(img) == 1 and strip(sl.operand(sc, img[0][1].args[0]))[0] == 'field' and strip(sl.operand(sc, img[0][1].args[0]))[2] == 'image_name'
    rep.check(ok, 'R3', 'container/image', '%s:%d' % (sc.file, sc.line), 'runs the image built for this test', 'docker run does not use the built image')
    det = setter_calls.get('detach', [])
    rep.check(len(det) == 1 and strip(sl.operand(sc, det[0][1].args[1])) == ('const', True), 'R3', 'container/detach', '%s:%d' % (sc.file, sc.line), 'started detached', 'start_container is not detached')
    # ---- R3 build ------------------------------------------------------------------------------------------
    bi = prog.find_one(r'^libcnb_test::test_runner::TestRunner::build_internal$')
    rep.analysed(bi)
    bw = '%s:%d' % (bi.file, bi.line)
    bcfg = prog.adt('libcnb_test::build_config::BuildConfig')
    bfields = [x['name'] for x in bcfg['variants'][0]['fields']]

    def bcfg_field(v):
        for x in walk(v):
            if x[0] == 'field' and x[2] in bfields and strip(x[1])[0] == 'param' and strip(x[1])[1] == bi.path and strip(x[1])[2] == 2:
                return x[2]
        return None
    seen = set()
    newc = [c for c in bi.calls if c.name == 'libcnb_test::pack::PackBuildCommand::new']
    ok = len(newc) == 1
    if ok:
        a = [sl.operand(bi, x) for x in newc[0].args]
        ok = bcfg_field(a[0]) == 'builder_name' and strip(a[0])[0] == 'field'
        seen.add('builder_name')
        # app path: phi(temporary copy | fixture)
        pv = strip(a[1])
        alts = pv[1] if pv[0] == 'phi' else (pv,)
        kinds = set()
        for alt in alts:
            if any(x[0] == 'call' and x[1] == 'libcnb_test::app::copy_app' for x in walk(alt)):
                kinds.add('copy')
            elif bcfg_field(alt) == 'app_dir':
                kinds.add('fixture')
            else:
                kinds.add('other:' + vstr(alt)[:40])
        rep.check(kinds == {'copy', 'fixture'}, 'R4', 'pack-path', newc[0].where(), 'pack --path <- temporary copy (preprocessor) or the fixture itself', 'pack app path alternatives: %s' % sorted(kinds))
        seen.add('app_dir')
    rep.check(ok, 'R3', 'build/builder_name', bw, 'builder <- config.builder_name', 'PackBuildCommand::new is not given config.builder_name')
    # preprocessor
    pp = [c for c in bi.calls if c.decl in ('std::ops::Fn::call', 'std::ops::FnMut::call_mut', 'std::ops::FnOnce::call_once') and bcfg_field(sl.operand(bi, c.args[0])) == 'app_dir_preprocessor']
    ok = len(pp) == 1
    if ok:
        av = sl.operand(bi, pp[0].args[1])
        ok = any(x[0] == 'call' and x[1] == 'libcnb_test::app::copy_app' for x in walk(av)) and any(x[0] == 'call' and x[1] == 'libcnb_test::app::AppDir::as_path' for x in walk(av))
        cds = [cd for cd in conditions(bi, pp[0].bb, sl) if cd.kind == 'variant' and cd.outcome == frozenset({'Some'}) and bcfg_field(cd.subject) == 'app_dir_preprocessor']
        ok = ok and bool(cds)
        seen.add('app_dir_preprocessor')
    rep.check(ok, 'R4', 'preprocessor-arg', pp[0].where() if pp else bw, 'preprocessor(<path of the temporary copy>) when configured', 'the preprocessor is not invoked on the temporary copy of the app')
    cp = [c for c in bi.calls if c.name == 'libcnb_test::app::copy_app']
    rep.check(len(cp) == 1 and bcfg_field(sl.operand(bi, cp[0].args[0])) == 'app_dir', 'R4', 'copy-source', bw, 'the copy is made from the configured fixture', 'copy_app source is not config.app_dir')
    # env
    envc = [(g, c) for g in prog.closures_of(bi) for c in g.calls if c.name == 'libcnb_test::pack::PackBuildCommand::env']
    ok = len(envc) == 1
    if ok:
        g, c = envc[0]
        fe = [x for x in bi.calls if x.name == 'std::iter::Iterator::for_each' and any(y[0] == 'closure' and y[1] == g.path for y in walk(sl.operand(bi, x.args[1])))]
        ok = len(fe) == 1 and bcfg_field(sl.operand(bi, fe[0].args[0])) == 'env'
        ad = [strip(sl.operand(g, a)) for a in c.args[1:]]
        ok = ok and [a[2] if a[0] == 'field' else None for a in ad] == ['0', '1']
        seen.add('env')
    rep.check(ok, 'R3', 'build/env', bw, 'every env pair -> pack_command.env(key, value)', 'BuildConfig.env is not forwarded pair by pair')
    # buildpacks
    bp = [c for c in bi.calls if c.name == 'libcnb_test::pack::PackBuildCommand::buildpack']
    arms = {}
    for c in bp:
        cds = [cd for cd in conditions(bi, c.bb, sl) if cd.kind == 'variant' and cd.enum == 'libcnb_test::build_config::BuildpackReference']
        if cds and len(cds[-1].outcome) == 1 and bi.in_loop(c.bb):
            subj_ok = any(x[0] == 'call' and x[1] == 'std::iter::Iterator::next' and bcfg_field(x[2][0]) == 'buildpacks' for x in walk(cds[-1].subject))
            # unconditional inside its arm: no further boolean guard decides whether the reference is forwarded
            subj_ok = subj_ok and not [cd for cd in conditions(bi, c.bb, sl) if cd.kind == 'bool' and bi.dominates(cds[-1].target, cd.sw_bb)]
            arms[next(iter(cds[-1].outcome))] = subj_ok
    variants = sorted(v['name'] for v in prog.adt('libcnb_test::build_config::BuildpackReference')['variants'])
    rep.check(sorted(arms) == variants and all(arms.values()), 'R3', 'build/buildpacks', bw, 'one pack_command.buildpack(..) per configured reference, for every reference kind, in iteration order',
              'buildpack forwarding arms %s vs reference kinds %s' % (arms, variants))
    seen.add('buildpacks')
    for callee in ('libcnb_test::build::package_crate_buildpack', 'libcnb_test::build::package_buildpack'):
        cs = [c for c in bi.calls if c.name == callee]
        ok = len(cs) == 1
        if ok:
            vals = [bcfg_field(sl.operand(bi, a)) for a in cs[0].args]
            ok = 'cargo_profile' in vals and 'target_triple' in vals
        rep.check(ok, 'R3', 'build/packaging/' + callee.split('::')[-1], bw, 'packaging uses config.cargo_profile and config.target_triple', '%s is not given the configured profile / target' % callee)
    seen.update({'cargo_profile', 'target_triple'})
    epr = any(cd.kind == 'variant' and cd.enum == 'libcnb_test::build_config::PackResult' and bcfg_field(cd.subject) == 'expected_pack_result'
              for b in range(len(bi.blocks)) for cd in conditions(bi, b, sl)) if False else None
    # cheaper: a discriminant read of config.expected_pack_result exists
    epr = any(s[0] == '=' and s[2]['r'] == 'discr' and s[2].get('enum') == 'libcnb_test::build_config::PackResult' for b in bi.blocks for s in b['s'])
    rep.check(epr, 'R3', 'build/expected_pack_result', bw, 'verdict depends on config.expected_pack_result', 'expected_pack_result is not consulted')
    seen.add('expected_pack_result')
    rep.check(sorted(seen) == sorted(bfields), 'R3', 'BuildConfig/fields', '%s:%s' % (bcfg['file'], bcfg['line']), 'all %d BuildConfig fields are consumed' % len(bfields),
              'BuildConfig fields %s, consumed %s' % (sorted(bfields), sorted(seen)))
    runs = [c for c in bi.calls if c.name == 'libcnb_test::util::run_command']
    rep.check(len(runs) == 1 and not bi.in_loop(runs[0].bb), 'R3', 'build/one-pack-invocation', bw, 'exactly one pack build invocation', '%d pack invocations' % len(runs))
