"""C17 — libcnb-test passes configuration to pack and docker completely and only in value positions.

Decided structurally:
  R1 value positions   in every `From<XCommand> for Command`: program, sub-command words and flags are constants;
                       every field-derived argv element directly follows a constant `--option` in the same array
                       (option value) or is a listed positional (library-generated image / container / volume
                       names; the trailing container command after the image, where docker stops option
                       parsing); docker exec's command always starts with the constant launcher binary
  R2 field completeness every field of every command struct is read by its conversion
  R3 config forwarding start_container forwards every ContainerConfig field to the matching setter;
                       build_internal forwards builder, app path, every env pair (one setter call per element),
                       every buildpack reference in order (one call per element), and uses cargo_profile /
                       target_triple for packaging and expected_pack_result for the verdict
  R4 app copy          the preprocessor receives the path of the temporary copy, never the fixture; pack gets
                       the copy when a preprocessor ran and the fixture itself otherwise
  R5 once and ordered  env / ports / mounts live in ordered maps / sets of the command structs, buildpacks in a
                       Vec; each loop emits one option per element
  R6 setters store     every setter / constructor of the configuration types (ContainerConfig, BuildConfig) and of the
                       command structs stores exactly its parameters — all of them, unchanged, unconditionally, whole
                       iterables, key and value not swapped — into one field: by assignment where the API sets a value,
                       by insert / push where it adds one (last write wins for a key, order kept for a Vec); the field is
                       the one the next stage reads (R3 for configuration fields; for command structs the field that
                       the conversion emits as the value of the setter's option, component by component); collections
                       and options the setters fill start empty
  R7 option grammar    the value of every option that carries configuration, decoded with the tool's grammar for that
                       option (`--env NAME=VALUE`, `--publish [ip:][host]:PORT`, `--mount type=bind,source=..,target=..`,
                       plain values), consists of the stored components themselves (lossless renderings only)
  R8 unconditional     an option / flag is emitted whenever its field is set and once for every element of a collection:
                       no condition on the *contents* of a field gates a contribution, no loop is left early
Not decided: Docker's / pack's own sub-parsing of option values (e.g. `=` inside --env values, `,` in mount paths).

The obligations are stated on semantics, not on one spelling (rules/C17_helpers.py):
  * argv = ordered contributions to the Command (`arg` / `args`, made directly, in private helpers or closures, row by
    row for loops over literal tables, or through a Vec filled with push / extend and handed over whole); iterated
    arguments are decomposed with the iterator algebra (flat_map, Option::into_iter, bool::then, flatten,
    slice::from_ref ...); a helper that loops over an iterable parameter (`fn options(name, values)`) is a loop over
    the collection the caller's pipeline ranges over, its element the pipeline's element (`f(element)` for `.map(f)`);
    an element of a collection emitted outside a loop over that collection is the first element only (R8)
  * forwarding = effects of the builder methods reached from start_container / build_internal with arguments in the
    entry function's terms; "per element" = inside a loop (`for` or `for_each`) over the whole config collection,
    reached in every iteration and passed on every path to the command invocation, handed the element itself; or
    "whole" = one call, outside any loop and on every path to the invocation, of a *bulk* setter (R6: it stores every
    element of its iterable parameter) that is handed the whole collection (for buildpacks: mapped 1:1 through the
    resolving closure, whose results are judged like the per-element arguments)
  * which builder method feeds an option is decided by what the method does, not by its name: the field it stores
    (R6) is the one the conversion renders as the value of that option (R7), parameter by parameter / element
    component by component in the option's role order (`derived_role`); the methods of the API table are held to their
    table entry as before, any other setter with such a role to the option's canonical roles, and a table method
    that is gone must have its exact role taken by another setter
  * `impl From<&X> for Command` converts X like `impl From<X>`; both are held to every obligation (a by-value
    conversion that delegates — `Self::from(&x)`, `(&x).into()` — is read through the delegation)
  * app path = phi-free alternatives of the value given to PackBuildCommand::new with private helpers inlined
  * stores = writes to `self.<field>` (assignments, container calls on `&mut self.<field>`) reached from a setter through
    helpers, delegated setters and closures, with the written values in the setter's own terms; iterables through the
    iterator algebra (truncating / filtering adapters lose elements)
  * a vector collected by hand is the collection it was filled from (H.push_built / H.xalts): `let mut v = Vec::new();
    for x in xs { v.push(g(x)) }`, `v.extend(xs)`, `xs.for_each(|x| v.push(g(x)))` are `xs.map(g).collect()` wherever
    the vector is consumed afterwards — stored by a setter / constructor, iterated by a second loop (two-phase
    forwarding: resolve all buildpacks first, forward them afterwards), handed to a bulk setter, returned by a private
    helper; a push that some iterations skip is a filter, a loop that can be left early a truncation.  A loop over a
    1:1 rendering of a config collection is a loop over the collection; what each iteration forwards is read through
    the rendering.  Straight-line pushes make a literal (`Vec::new(); push(a); push(b)` is `vec![a, b]`)
  * a closure called where it is defined (`let mut option = |name, value| ..; option("--env", v)`) is a private helper
    (H.expand_local_closure_call); an argv vector that a private helper fills and returns is the argv it is
  * values name a local by how it was made: what forwarding hands to a builder method, what a setter stores, the docker
    exec words and the collections a constructor starts with must not be changed in place afterwards by anything but
    appending calls (R3 arguments-unmodified, R6, R1 first-word, R6 defaults)
  * (round 5) the words vector may be handed to the sink through a private helper's parameter (`command_with_args(program,
    words)`, `docker_words(&words)` with `words.iter()`): the vector is the one the caller built, as long as no helper on
    the way borrows it mutably (H._lift_vec_operand); a closure / loop body whose words come from a private helper that
    returns a literal (`env_args(k, v) -> [String; 2]`) contributes that literal (H._word_helper_result)
  * (round 5) R5 "ordered" = the emission order is determined by the contents: an ordered container field, or a local
    Vec the elements were collected into and that is sorted by the elements / their keys before the loop (or a local
    BTreeMap / BTreeSet they were collected into); any other in-place change of such a local vector is reported
    (H.sorted_emission)
  * (round 5) R4 copy-alive follows the owner of the copy through aggregates (structs / tuples / Ok(..) built around it,
    destructured again), `?`, and function returns; ownership handed on after the pack run keeps the copy alive; a
    carrier *struct* conversion (`AppDir { path, _guard }`) wraps its argument when it keeps the argument itself, its
    other fields are the argument's own path or empty, and the path accessor reads one of them (H.carrier_conversion)
  * (round 5) when parts of the argv were not understood (R1 unrecognised), missing fields (R2) and a missing image
    (R1 after-image) are UNPROVEN, not VIOLATED
"""
from . import C17_helpers as H
from .lib import iters
from .lib.cmdmodel import from_command_fns
from .lib.effects import Effects, guards_of
from .lib.paths import strip
from .lib.tables import lifted_args
from .lib.value import vstr, walk

# positional (non-option) elements that are allowed: (struct, field) -> reason
POSITIONAL = {
    ('DockerRunCommand', 'image_name'): 'image (library generated name)',
    ('DockerRunCommand', 'command'): 'container command after the image: docker stops option parsing there',
    ('DockerExecCommand', 'container_name'): 'library generated container name',
    ('DockerExecCommand', 'command'): 'command after the container name; always starts with the constant launcher binary (checked)',
    ('DockerLogsCommand', 'container_name'): 'library generated container name',
    ('DockerPortCommand', 'container_name'): 'library generated container name',
    ('DockerPortCommand', 'port'): 'u16 rendered as digits',
    ('DockerRemoveContainerCommand', 'container_name'): 'library generated container name',
    ('DockerRemoveImageCommand', 'image_name'): 'library generated image name',
    ('DockerRemoveVolumeCommand', 'volume_names'): 'library generated volume names',
    ('PackBuildCommand', 'image_name'): 'library generated image name',
    ('PackSbomDownloadCommand', 'image_name'): 'library generated image name',
}
# docker stops option parsing at the first positional: (positional field, the field holding the trailing command)
TRAILING = {'DockerRunCommand': ('image_name', 'command'), 'DockerExecCommand': ('container_name', 'command')}
# public configuration API: method -> (field R3 reads, 'set' replaces the value | 'add' adds to the collection); for
# constructors parameter index -> field
CC, BC = 'libcnb_test::container_config::ContainerConfig', 'libcnb_test::build_config::BuildConfig'
CONFIG_API = {
    CC: {'entrypoint': ('entrypoint', 'set'), 'command': ('command', 'set'), 'env': ('env', 'add'), 'envs': ('env', 'add'),
         'expose_port': ('exposed_ports', 'add'), 'bind_mount': ('bind_mounts', 'add'), 'new': {}},
    BC: {'new': {0: 'builder_name', 1: 'app_dir'}, 'buildpacks': ('buildpacks', 'set'), 'cargo_profile': ('cargo_profile', 'set'),
         'target_triple': ('target_triple', 'set'), 'env': ('env', 'add'), 'envs': ('env', 'add'),
         'app_dir_preprocessor': ('app_dir_preprocessor', 'set'), 'app_dir': ('app_dir', 'set'),
         'expected_pack_result': ('expected_pack_result', 'set')},
}
# command-struct API: method -> (option whose value the stored field must become, grammar roles in parameter order, mode);
# 'image' / 'command' are the positionals of TRAILING
COMMAND_API = {
    'DockerRunCommand': {'new': {0: ('image', None)}, 'entrypoint': ('--entrypoint', ('value',), 'set'),
                         'command': ('command', (), 'set'), 'env': ('--env', ('name', 'value'), 'add'),
                         'expose_port': ('--publish', ('port',), 'add'), 'bind_mount': ('--mount', ('source', 'target'), 'add')},
    'PackBuildCommand': {'new': {0: ('--builder', 'value'), 1: ('--path', 'value')}, 'buildpack': ('--buildpack', ('value',), 'add'),
                         'env': ('--env', ('name', 'value'), 'add')},
}
# options whose values carry configuration (R7)
CONFIG_OPTIONS = {'DockerRunCommand': ('--entrypoint', '--env', '--publish', '--mount'), 'PackBuildCommand': ('--builder', '--path', '--buildpack', '--env')}
CONTAINER_SETTERS = {'entrypoint': 'entrypoint', 'command': 'command', 'env': 'env', 'exposed_ports': 'expose_port', 'bind_mounts': 'bind_mount'}
# what a configuration field must become on the command line: the option (or the trailing command) a forwarding setter
# has to feed.  A setter is recognised by what it does (the field it stores is the one the conversion renders as the
# value of that option, parameter by parameter in the option's role order), not by its name: a bulk setter
# `envs(&config.env)` built on `extend` forwards what a loop over `env(key, value)` forwards.
CONTAINER_TARGET = {'entrypoint': '--entrypoint', 'command': 'command', 'env': '--env', 'exposed_ports': '--publish', 'bind_mounts': '--mount'}
BUILD_TARGET = {'env': '--env', 'buildpacks': '--buildpack'}
CANON_ROLE = {short: {v[0]: (tuple(v[1]), v[2]) for k, v in api.items() if isinstance(v, tuple)} for short, api in COMMAND_API.items()}


def derived_role(short, V, argv_roles):
    """(option | 'command', role names in the order of the API sources, mode, bulk) of a judged setter of a command
    struct: the option whose value the conversion renders from the field the setter stores, component by component;
    bulk = the parameters are iterables whose elements are stored (all of them: judge_setter)"""
    if V is None or not V.ok:
        return None
    bulk = bool(V.slots) and all(src[1][:1] == ('*',) or (V.loop_param is not None and src[0] == V.loop_param) for _, src in V.slots)
    if short in TRAILING and V.field == TRAILING[short][1]:
        return ('command', (), V.mode, bulk)
    for opt, roles in sorted(argv_roles.get(short, {}).items()):
        if not roles:
            continue
        rn_of = {tuple(got[1]): rn for rn, got in roles.items() if got[0] == V.field}
        if len(rn_of) != len(roles):
            continue
        names = [rn_of.get(() if comp == '' else (comp,)) for comp in V.order()]
        if None not in names and len(names) == len(roles):
            return (opt, tuple(names), V.mode, bulk)
    return None


class Setters:
    """verdicts (H.judge_setter) and derived roles of the `&mut self` methods of the command structs, by method path"""

    def __init__(self, prog, sl, argv_roles):
        self.prog, self.sl, self.argv_roles, self.cache = prog, sl, argv_roles, {}

    def verdict(self, f):
        if f.path not in self.cache:
            self.cache[f.path] = H.judge_setter(self.prog, self.sl, f)
        return self.cache[f.path]

    def role(self, path):
        """canonical role of the setter at `path` (a command-struct method), or None"""
        f = self.prog.fns.get(path)
        if f is None or not f.args or not f.args[0].startswith('&mut ') or f.argc < 2:
            return None
        short = f.args[0][5:].split('::')[-1]
        r = derived_role(short, self.verdict(f), self.argv_roles)
        if r is None:
            return None
        canon = CANON_ROLE.get(short, {}).get(r[0])
        if canon is None or (tuple(r[1]), r[2]) != canon:
            return None
        return r

    def feeding(self, effs, prefix, legacy, opt):
        """the effects (builder-method calls, kind `<prefix><method>`) that feed option `opt`: the method of the API
        table, and every method whose stored field the conversion renders as the value of `opt` in the canonical roles"""
        out = []
        for e in effs:
            if not e.kind.startswith(prefix) or e.call is None:
                continue
            r = self.role({'RUN:': RUNC, 'PACK:': PACKC}[prefix] + e.kind[len(prefix):])
            if e.kind == prefix + legacy or (r is not None and r[0] == opt):
                out.append(e)
        return out

    def bulk(self, e):
        pre = e.kind.split(':')[0] + ':'
        r = self.role({'RUN:': RUNC, 'PACK:': PACKC}[pre] + e.kind[len(pre):]) if pre in ('RUN:', 'PACK:') else None
        return bool(r and r[3] and r[2] == 'add')


def run(ctx, rep):
    prog, sl = ctx.prog, ctx.slicer
    for r, d in (('R1', 'user values only in option-value positions; words and flags constant'), ('R2', 'every command-struct field reaches argv'),
                 ('R3', 'every configuration field is forwarded'), ('R4', 'preprocessor and pack see the temporary copy, the fixture stays untouched'),
                 ('R5', 'ordered containers, one option per element'), ('R6', 'setters and constructors store exactly their parameters, in the field the next stage reads'),
                 ('R7', 'option values follow the option grammar and consist of the stored components themselves'),
                 ('R8', 'options are emitted whenever the field is set, once per element')):
        rep.rule(r, d)
    rep.not_decided = ['docker/pack sub-parsing of option values ("=" in --env values, "," in mount paths)']
    # `impl From<X> for Command` and `impl From<&X> for Command` both convert the struct X (a conversion that only
    # borrows reads the same fields); each one is held to every obligation
    convs = sorted((t.lstrip('&').strip(), t, f) for t, f in from_command_fns(prog).items())
    cmds = {}
    for ty, _, f in convs:
        cmds.setdefault(ty, f)
    rep.floor('R1', 'command_conversions', len(cmds))
    argv_roles = {}     # struct -> {option: {role: (field, component, is element)}}
    for ty, _, f in convs:
        rep.analysed(f)
        short = ty.split('::')[-1]
        program, items = H.argv_model(prog, sl, f)
        where = '%s:%d' % (f.file, f.line)
        rep.extra.setdefault('argv_models', {})[short] = [repr(it) for it in items]
        rep.check(program in ('docker', 'pack'), 'R1', short + '/program', where, 'program = "%s"' % program, 'program is not a constant: %s' % program)
        first = items[0].elems[0] if items and items[0].elems else None
        rep.check(first is not None and first[0] == 'const' and not first[1].startswith('-'), 'R1', short + '/subcommand', where, 'first word is the constant sub-command', 'first argv word is %s' % (first,))
        used = set()
        seen_image = False
        after_image_bad = []
        # `.arg("--x").arg(value)` and `.args(["--x", value])` are the same argv: merge consecutive contributions
        # made under identical guards / in the same loop
        merged = []
        for it in items:
            if merged and merged[-1].conds == it.conds and merged[-1].loop == it.loop and it.elems and it.elems[0][0] == 'field' \
                    and merged[-1].elems and merged[-1].elems[-1][0] == 'const' and merged[-1].elems[-1][1].startswith('--'):
                merged[-1].elems = merged[-1].elems + it.elems
                merged[-1].vals = list(getattr(merged[-1], 'vals', [])) + list(getattr(it, 'vals', [None] * len(it.elems)))
                merged[-1].issues = list(getattr(merged[-1], 'issues', [])) + [x for x in getattr(it, 'issues', []) if x not in getattr(merged[-1], 'issues', [])]
            else:
                merged.append(it)
        items = merged
        for idx, it in enumerate(items):
            for g, _ in it.conds:
                used.add(g)
            if it.loop:
                used.add(it.loop)
            prev = None
            for e in it.elems:
                if seen_image and short in TRAILING and not (e[0] == 'field' and e[1] == TRAILING[short][1]):
                    # docker stops option parsing at the image: whatever follows it *is* the container command
                    after_image_bad.append((it, e))
                if e[0] == 'field':
                    used.add(e[1])
                    ok_opt = prev is not None and prev[0] == 'const' and prev[1].startswith('--')
                    pos = POSITIONAL.get((short, e[1]))
                    subj = '%s/%s' % (short, e[1])
                    if ok_opt:
                        rep.holds('R1', subj, it.call.where(), '%s is the value of %s' % (e[1], prev[1]))
                    elif pos:
                        good = True
                        if (short, e[1]) == ('DockerRunCommand', 'command'):
                            good = seen_image and idx == len(items) - 1
                        rep.check(good, 'R1', subj, it.call.where(), 'positional: ' + pos, 'container command is not the trailing argv part after the image')
                    else:
                        rep.violated('R1', subj, it.call.where(), 'field %s reaches argv outside an option-value position (preceded by %s): a value starting with "-" would be parsed as an option' % (e[1], prev))
                    if (short, e[1]) == ('DockerRunCommand', 'image_name') or (short in TRAILING and e[1] == TRAILING[short][0]):
                        seen_image = True
                elif e[0] == 'other':
                    rep.unproven('R1', '%s/unrecognised' % short, it.call.where(), 'argv element of unknown origin: %s' % e[1])
                prev = e
        # parts of the argv that the model did not understand (reported above as R1/<struct>/unrecognised) may be what
        # carries a field / the image: what is then missing is not known to be missing
        not_understood = any(e[0] == 'other' for it in items for e in it.elems)
        if short in TRAILING and not_understood and (not seen_image or all(e[0] == 'other' for _, e in after_image_bad)):
            rep.unproven('R1', short + '/after-image', where, 'whether only the configured command follows the %s is not established: parts of the argv were not understood' % TRAILING[short][0])
        elif short in TRAILING:
            rep.check(seen_image and not after_image_bad, 'R1', short + '/after-image', where,
                      'nothing but the configured command follows the %s' % TRAILING[short][0],
                      'argv words after the %s become part of the container command: %s' % (TRAILING[short][0], 
                          '; '.join('%s at %s' % (e[1] if e[0] != 'const' else repr(e[1]), it.call.where()) for it, e in after_image_bad[:3]) or 'image not found'))
        # fields consumed through a `match` that selects a constant word (e.g. pull_policy)
        if any(e[0] == 'const-choice' for it in items for e in it.elems):
            for b in f.blocks:
                for st in b['s']:
                    if st[0] == '=' and st[2]['r'] == 'discr' and st[2]['p'][0] == 1:
                        flds = [x[1:] for x in st[2]['p'][1:] if x.startswith('.')]
                        if flds:
                            used.add(flds[0])
        # R2
        adt = prog.adt(ty)
        fields = [x['name'] for x in adt['variants'][0]['fields']]
        missing = [x for x in fields if x not in used]
        if missing and not_understood:
            rep.unproven('R2', short, where, 'fields %s of %s were not seen to reach the command line, but parts of the argv were not understood' % (missing, short))
        else:
            rep.check(not missing, 'R2', short, where, 'all fields %s reach argv' % fields, 'fields %s of %s never reach the command line' % (missing, short))
        # R5 (per loop; a collection handed over whole — `args(words)` — is the loop `for w in words { arg(w) }`)
        ORDERED = ('std::collections::BTreeMap<', 'std::collections::BTreeSet<', 'std::vec::Vec<')
        ftys = {x['name']: x['ty'] for x in adt['variants'][0]['fields']}
        inner = lambda t: t[len('std::option::Option<'):-1] if t.startswith('std::option::Option<') else t
        for it in items:
            if it.loop:
                fty = ftys[it.loop]
                ordered = inner(fty).startswith(ORDERED)
                shape = len(it.elems) == 2 and it.elems[0][0] == 'const' and it.elems[0][1].startswith('--') and it.elems[1][0] == 'field' and it.elems[1][1] == it.loop
                word_list = len(it.elems) == 1 and it.elems[0][0] == 'field' and it.elems[0][1] == it.loop and (short, it.loop) in POSITIONAL
                # the order of emission is determined by the contents: an ordered container, or a local vector the
                # elements were collected into and that was sorted by their (unique) keys before the loop; such a local
                # vector must not be changed in place otherwise (the values name it by how it was made)
                srt = H.sorted_emission(sl, it)
                if srt is not None and srt[0] == 'bad':
                    rep.violated('R5', '%s/%s' % (short, it.loop), it.call.where(), srt[1])
                    continue
                if srt is not None and srt[0] == 'unknown' and (shape or word_list):
                    rep.unproven('R5', '%s/%s' % (short, it.loop), it.call.where(), 'loop over a vector collected from %s (%s): %s' % (it.loop, fty, srt[1]))
                    continue
                if not ordered and srt is not None and srt[0] == 'ok' and (shape or word_list):
                    rep.holds('R5', '%s/%s' % (short, it.loop), it.call.where(), 'one %s per element of %s, collected into a vector and %s' % (it.elems[0][1] if shape else 'word', inner(fty).split('<')[0].split('::')[-1], srt[1]))
                    continue
                rep.check(ordered and (shape or word_list), 'R5', '%s/%s' % (short, it.loop), it.call.where(),
                          'one %s per element of the ordered %s' % (it.elems[0][1] if shape else 'word', inner(fty).split('<')[0].split('::')[-1]),
                          'loop over %s (%s) emits %s' % (it.loop, fty, it.elems))
            for e in it.elems:
                if e[0] == 'field' and e[2] == 'splat':
                    fty = ftys[e[1]]
                    rep.check(inner(fty).startswith(ORDERED), 'R5', '%s/%s' % (short, e[1]), it.call.where(), 'the words of the ordered %s, in order' % inner(fty).split('<')[0].split('::')[-1],
                              '%s (%s) is handed to the command line in an unspecified order' % (e[1], fty))
        option_checks(rep, sl, f, short, items, argv_roles)
    # docker exec command starts with the launcher constant (the words are read where they are written: lifted out
    # of private helpers, first element of whatever iterable is handed over)
    ex_new = 'libcnb_test::docker::DockerExecCommand::new'
    sites = [c for c in prog.callers().get(ex_new, []) if c.name == ex_new and not c.indirect]
    n = 0
    for c in sites:
        for top, site, vals in lifted_args(prog, sl, c, crate='libcnb_test'):
            v = vals[1] if len(vals) > 1 else ('unknown', 'no command argument')
            v = sl.inline_deep(v)
            lit = H.literal_sequence(prog, sl, v)
            al = [(x, None, False) for x in lit] if lit else H.xalts(sl, v)
            ok = bool(al) and al[0][1] is None and not al[0][2] and strip(al[0][0]) == ('const', 'launcher')
            # the values name a vector / array by how it was created: anything that is done to it in place before it
            # is handed over, other than appending, may move the launcher away from the front (`words.reverse()`)
            muts = [x for x in (H.in_place_changes(cs.fn, list(cs.args), sl) for cs in ([c] if site is c else [c, site])) if x]
            subj = 'DockerExecCommand/first-word#%d' % n
            if ok and muts and not any(k == 'bad' for k, _ in muts):
                rep.unproven('R1', subj, site.where(), 'the words of the docker exec command are handed to %s before they are passed on: whether the launcher stays in front is not established' % muts[0][1])
            else:
                rep.check(ok and not muts, 'R1', subj, site.where(), 'exec command starts with the constant launcher binary',
                          'docker exec command starts with %s' % vstr(strip(lit[0] if lit else v))[:80] if not (ok and muts) else 'the words of the docker exec command are changed in place by %s before they are handed over' % muts[0][1])
            n += 1
    rep.check(bool(sites), 'R1', 'DockerExecCommand/sites', '-', '%d construction site(s)' % len(sites), 'no DockerExecCommand construction found')
    S = Setters(prog, sl, argv_roles)
    forwarding(ctx, rep, S)
    setters(ctx, rep, cmds, argv_roles, S)


def option_checks(rep, sl, f, short, items, argv_roles):
    """R7 (grammar of the option values that carry configuration) and R8 (no contribution depends on the contents of a field)"""
    where = '%s:%d' % (f.file, f.line)
    roles = argv_roles.setdefault(short, {})
    seen_opts = {}
    for it in items:
        vals = getattr(it, 'vals', None) or [None] * len(it.elems)
        prev = None
        for e, v in zip(it.elems, vals):
            if prev is not None and prev[0] == 'const' and prev[1].startswith('--') and e[0] == 'field' and v is not None \
                    and prev[1] in CONFIG_OPTIONS.get(short, ()):
                got, problem = H.parse_option_value(prev[1], v, f, sl)
                subj = '%s/%s' % (short, prev[1])
                if problem is None:
                    rep.holds('R7', subj, it.call.where(), '%s <- %s' % (prev[1], ', '.join('%s=%s%s' % (k, r[0], ''.join('.' + c for c in r[1])) for k, r in sorted(got.items()))))
                    old = roles.get(prev[1])
                    roles[prev[1]] = got if old is None or old == got else {}
                elif problem[0] == 'bad':
                    rep.violated('R7', subj, it.call.where(), 'value of %s: %s' % (prev[1], problem[1]))
                    roles.setdefault(prev[1], {})
                else:
                    rep.unproven('R7', subj, it.call.where(), 'value of %s not understood: %s' % (prev[1], problem[1]))
                    roles.setdefault(prev[1], {})
                seen_opts[prev[1]] = True
            prev = e
    for opt in CONFIG_OPTIONS.get(short, ()):
        if opt not in seen_opts:
            rep.unproven('R7', '%s/%s' % (short, opt), where, 'no %s option with a field-derived value found in the conversion' % opt)
    # R8: value-dependent conditions.  Inside a loop the alternatives of a condition may all contribute (each is then
    # checked by R7 on its own); what matters is that every iteration contributes and the loop runs to the end
    by_field = {}
    for it in items:
        for fld, what in getattr(it, 'issues', []) or []:
            by_field.setdefault(fld, []).append((it, what))
    flagged = set()
    for fld, lst in sorted(by_field.items()):
        it0 = lst[0][0]
        in_loop = [it for it in items if it.loop == fld and getattr(it, 'eff', None) is not None]
        if it0.loop == fld and in_loop and H.every_iteration_contributes(in_loop[0].E, [it.eff for it in in_loop]):
            continue
        flagged.add(fld)
        rep.violated('R8', '%s/%s' % (short, fld), it0.call.where(), 'the contribution for %s is %s: the configured value does not always reach the command line' % (fld, lst[0][1]))
    early = sorted({it.loop for it in items if it.loop and getattr(it, 'eff', None) is not None and H.loop_exits_early(it.E, it.eff)})
    for fld in early:
        if fld not in flagged:
            flagged.add(fld)
            rep.violated('R8', '%s/%s' % (short, fld), where, 'the loop over %s can be left before all elements were emitted' % fld)
    # an element of a collection is emitted only inside a loop over that collection (`if let Some(x) = xs.iter().next()`
    # — or a loop body that always breaks — emits the first element only)
    for fld, it in H.elements_outside_loop(sl, f, items):
        if fld not in flagged:
            flagged.add(fld)
            rep.violated('R8', '%s/%s' % (short, fld), it.call.where(), 'an element of %s is emitted outside a loop over %s: only the first element reaches the command line' % (fld, fld))
    if short in CONFIG_OPTIONS and not flagged:
        rep.holds('R8', short, where, 'no contribution depends on the contents of a field; loops run to the end')


RUNC = 'libcnb_test::docker::DockerRunCommand::'
PACKC = 'libcnb_test::pack::PackBuildCommand::'
FNS = {'copy_app': 'libcnb_test::app::copy_app', 'package_crate_buildpack': 'libcnb_test::build::package_crate_buildpack',
       'package_buildpack': 'libcnb_test::build::package_buildpack', 'run_command': 'libcnb_test::util::run_command'}


def _vocab(prog):
    voc = {}
    for p in prog.fns:
        if p.startswith(RUNC) and '::{' not in p[len(RUNC):]:
            voc[p] = ('RUN:' + p[len(RUNC):], None)
        if p.startswith(PACKC) and '::{' not in p[len(PACKC):]:
            voc[p] = ('PACK:' + p[len(PACKC):], None)
    for k, p in FNS.items():
        voc[p] = ('FN:' + k, None)
    return voc


def _loop_of(E, sl, e, cfg, mapped=False):
    """(loop context, config field) of the innermost loop of effect e that visits a whole config collection"""
    found = None
    for ctx in H.loop_contexts(E, e):
        fld = H.whole_collection(sl, ctx[3], cfg, mapped)
        if fld is not None:
            found = (ctx, fld)
    return found


def _elementwise(E, sl, effs, cfg, fld, run, n_args):
    """config.<fld> is forwarded element by element: a single call site, inside a loop over the whole collection,
    reached in every iteration, passed on every execution that gets to the command invocation, and handed the
    element (for pairs: key, value in this order)"""
    if len(effs) != 1:
        return False, '%d forwarding call(s)' % len(effs)
    e = effs[0]
    # the loop may range over a 1:1 rendering of the collection (pairs collected into a Vec first, `.iter().map(..)`):
    # one iteration per element either way; what each iteration hands over is judged below on the arguments, read
    # through the rendering (H.norm_elements)
    lo = _loop_of(E, sl, e, cfg, mapped=True)
    if lo is None or lo[1] != fld:
        return False, 'not inside a loop over the whole of config.%s (loops: %s)' % (fld, [vstr(c[3])[:60] if c[3] else None for c in H.loop_contexts(E, e)])
    ctx = lo[0]
    if len(H.loop_contexts(E, e)) != 1:
        return False, 'nested loops around the forwarding call'
    if not H.on_every_iteration(E, [e], ctx):
        return False, 'some iteration over config.%s skips the forwarding call' % fld
    if len(run) == 1 and not H.always_before(E, e, (ctx[0], ctx[2]), run[0]):
        return False, 'the loop over config.%s is not passed on every path to the command invocation' % fld
    got = [H.element_of(sl, H.norm_elements(sl, a), cfg) for a in (e.args or ())[1:]]
    want = [(fld, ())] if n_args == 1 else [(fld, (str(i),)) for i in range(n_args)]
    if got != want:
        return False, 'arguments %s are not the element%s of config.%s' % ([vstr(strip(H.norm_elements(sl, a)))[:50] for a in (e.args or ())[1:]], '' if n_args == 1 else "'s components in order", fld)
    return True, 'every element of config.%s' % fld


class _AsParams:
    """a Cfg in the role H.iter_source expects of the parameters of a setter"""

    def __init__(self, cfg):
        self.cfg = cfg

    def exact(self, v):
        return self.cfg.exact(v)

    def mentioned(self, v):
        return sorted(self.cfg.all_within(v))


def _whole(sl, x, cfg, mapped):
    """config field of which x hands over every element, unchanged and in order: the collection itself / an
    iteration over it (H.whole_collection), or its pairs rebuilt component by component in the same order
    (`.iter().map(|(k, v)| (k.clone(), v.clone()))`)"""
    fld = H.whole_collection(sl, x, cfg, mapped)
    if fld is None and not mapped:
        p, projs, _ = H.iter_source(sl, x, _AsParams(cfg))
        if p is not None and (projs is None or projs == [('0',), ('1',)]):
            fld = p
    return fld


def _bulk(E, sl, e, cfg, fld, run, mapped=False):
    """config.<fld> is forwarded whole: one call of a bulk setter (it stores every element of its iterable parameter,
    in order — R6) that is handed the whole collection (elements unchanged unless `mapped`, none filtered, not
    reordered), outside any loop, on every execution that gets to the command invocation"""
    if len(e.args or ()) != 2:
        return False, '%d argument(s)' % (len(e.args or ()) - 1)
    if _whole(sl, strip(H.norm_iterable(e.args[1])), cfg, mapped) != fld:
        return False, 'the argument %s is not the whole of config.%s' % (vstr(strip(e.args[1]))[:60], fld)
    if H.loop_contexts(E, e):
        return False, 'the bulk forwarding call is repeated in a loop'
    if len(run) == 1 and not H.always_before(E, e, (len(H.levels(e)) - 1, None), run[0]):
        return False, 'config.%s is not forwarded on every path to the command invocation' % fld
    return True, 'the whole of config.%s' % fld


def _unmodified_arguments(rep, sl, effs, subject, where):
    """the symbolic values name a local by how it was made; what is done to it *in place* afterwards (`words.reverse()`,
    `value.make_ascii_uppercase()`, `ports.pop()`) is not part of them.  So every argument handed to a builder method
    must come from a local that nothing but appending calls borrow mutably (vectors filled by loops are read through
    H.push_built, strings assembled with push_str through the concat values)."""
    bad, unknown = [], []
    for e in effs:
        if not e.kind.startswith(('RUN:', 'PACK:')) or e.call is None:
            continue
        args = list(e.call.args) if e.kind.endswith(':new') else list(e.call.args[1:])
        x = H.in_place_changes(e.call.fn, args, sl)
        if x:
            (bad if x[0] == 'bad' else unknown).append('%s before %s at %s' % (x[1], e.kind.split(':')[1], e.where()))
    if unknown and not bad:
        rep.unproven('R3', subject, where, 'a forwarded value is handed to %s: whether it still is the configured value is not established' % '; '.join(unknown[:3]))
    else:
        rep.check(not bad, 'R3', subject, where, 'no forwarded value is changed in place before it is handed to the command struct',
                  'a forwarded value is changed in place by %s' % '; '.join(bad[:3]))


def forwarding(ctx, rep, S):
    prog, sl = ctx.prog, ctx.slicer
    E = H.CallEffects(prog, sl, vocab=_vocab(prog))
    # ---- R3 container -------------------------------------------------------------------------------------
    sc = prog.find_one(r"^libcnb_test::test_context::TestContext::<'_>::start_container$")
    rep.analysed(sc)
    cadt = prog.adt('libcnb_test::container_config::ContainerConfig')
    cfields = [x['name'] for x in cadt['variants'][0]['fields']]
    ctys = {x['name']: x['ty'] for x in cadt['variants'][0]['fields']}
    rep.check(sorted(cfields) == sorted(CONTAINER_SETTERS), 'R3', 'ContainerConfig/fields', '%s:%s' % (cadt['file'], cadt['line']), 'forwarding table covers all %d fields' % len(cfields),
              'ContainerConfig fields %s, forwarding table knows %s' % (cfields, sorted(CONTAINER_SETTERS)))
    cfg = H.Cfg(sc, 1, cfields)
    effs = H.program_order([H.fix_mapping(E, e) for e in E.expand(sc, 'may') if e.call is not None])
    by = {}
    for e in effs:
        by.setdefault(e.kind, []).append(e)
    scw = '%s:%d' % (sc.file, sc.line)
    run = by.get('FN:run_command', [])
    for fld, setter in CONTAINER_SETTERS.items():
        cs = S.feeding(effs, 'RUN:', setter, CONTAINER_TARGET[fld])
        ok = len(cs) == 1
        why = '%d call(s) of %s' % (len(cs), setter)
        if ok:
            setter = cs[0].kind[4:]
        if ok and ctys.get(fld, '').startswith('std::option::Option<'):
            src = cfg.within(cs[0].args[1]) if len(cs[0].args) > 1 else None
            # `if let Some(x) = &config.f` or `config.f.iter().for_each(..)`: no loop over anything else around it
            ok = src == fld and all(H.whole_collection(sl, lc[3], cfg) == fld for lc in H.loop_contexts(E, cs[0]))
            why = 'argument <- config.%s' % src
            if ok:
                # the value itself, whenever it is set: not a filtered / defaulted / transformed one, and under no
                # condition other than the presence of the field
                a = cs[0].args[1]
                if not (cfg.exact(a) == fld or H.element_of(sl, a, cfg) == (fld, ()) or H.whole_collection(sl, strip(a), cfg) == fld):
                    ok, why = False, 'the argument is %s, not the configured value itself' % vstr(strip(a))[:70]
                extra = H.extra_conditions(E, sl, cs[0], cfg, fld)
                if ok and extra:
                    ok, why = False, 'forwarded only when %s' % extra[0]
        elif ok and S.bulk(cs[0]):
            ok, why = _bulk(E, sl, cs[0], cfg, fld, run)
            why = '%s -> %s(collection)' % (why, setter)
        elif ok:
            ok, why = _elementwise(E, sl, cs, cfg, fld, run, len(cs[0].args) - 1)
            why = '%s -> %s(element)' % (why, setter)
        rep.check(ok, 'R3', 'container/' + fld, cs[0].where() if cs else scw, why, 'ContainerConfig.%s is not forwarded to DockerRunCommand::%s (%s)' % (fld, setter, why))
    _unmodified_arguments(rep, sl, effs, 'container/arguments-unmodified', scw)
    img = by.get('RUN:new', [])
    a0 = strip(img[0].args[0]) if len(img) == 1 and img[0].args else ('unknown',)
    rep.check(a0[0] == 'field' and a0[2] == 'image_name', 'R3', 'container/image', scw, 'runs the image built for this test', 'docker run does not use the built image')
    det = by.get('RUN:detach', [])
    rep.check(len(det) == 1 and len(det[0].args) > 1 and strip(det[0].args[1]) == ('const', True), 'R3', 'container/detach', scw, 'started detached', 'start_container is not detached')
    # ---- R3 build ------------------------------------------------------------------------------------------
    bi = prog.find_one(r'^libcnb_test::test_runner::TestRunner::build_internal$')
    rep.analysed(bi)
    bw = '%s:%d' % (bi.file, bi.line)
    bcfg = prog.adt('libcnb_test::build_config::BuildConfig')
    bfields = [x['name'] for x in bcfg['variants'][0]['fields']]
    cfg = H.Cfg(bi, 2, bfields)
    effs = H.program_order([H.fix_mapping(E, e) for e in E.expand(bi, 'may') if e.call is not None])
    by = {}
    for e in effs:
        by.setdefault(e.kind, []).append(e)
    run = by.get('FN:run_command', [])
    _unmodified_arguments(rep, sl, effs, 'build/arguments-unmodified', bw)
    seen = set()
    COPY = FNS['copy_app']
    is_copy = lambda v: any(x[0] == 'call' and x[1] == COPY for x in walk(v))
    newc = by.get('PACK:new', [])
    ok = len(newc) == 1 and len(newc[0].args) >= 2
    if ok:
        a = newc[0].args
        ok = cfg.exact(a[0]) == 'builder_name'
        seen.add('builder_name')
        # app path: the temporary copy | the fixture, wherever the choice is made (inline block, private helper)
        pv = sl.inline_deep(a[1], keep=(COPY,))
        kinds = set()
        for alt in H.alternatives(pv, opaque=(COPY,)):
            if is_copy(alt):
                kinds.add('copy')
            elif cfg.within(alt) == 'app_dir':
                kinds.add('fixture')
            else:
                kinds.add('other:' + vstr(alt)[:40])
        rep.check(kinds == {'copy', 'fixture'}, 'R4', 'pack-path', newc[0].where(), 'pack --path <- temporary copy (preprocessor) or the fixture itself', 'pack app path alternatives: %s' % sorted(kinds))
        seen.add('app_dir')
    rep.check(ok, 'R3', 'build/builder_name', bw, 'builder <- config.builder_name', 'PackBuildCommand::new is not given config.builder_name')
    # preprocessor
    pp = [e for e in by.get('CALLBACK', []) if e.args and cfg.within(e.args[0]) == 'app_dir_preprocessor']
    ok = len(pp) == 1
    if ok:
        av = ('tuple', tuple(pp[0].args[1:]))
        ok = is_copy(av) and any(x[0] == 'call' and x[1] in ('libcnb_test::app::AppDir::as_path', 'tempfile::TempDir::path') for x in walk(av))
        # nothing of the fixture outside the copy_app(..) call itself
        ok = ok and all(cfg.within(alt) is None for alt in [_without(av, COPY)])
        gs = [1 for cd, views, subj in guards_of(E, pp[0]) if cd.kind == 'variant' and cd.outcome == frozenset({'Some'}) and subj is not None and cfg.exact(subj) == 'app_dir_preprocessor']
        ok = ok and bool(gs)
        seen.add('app_dir_preprocessor')
    rep.check(ok, 'R4', 'preprocessor-arg', pp[0].where() if pp else bw, 'preprocessor(<path of the temporary copy>) when configured', 'the preprocessor is not invoked on the temporary copy of the app')
    cp = by.get('FN:copy_app', [])
    rep.check(len(cp) == 1 and bool(cp[0].args) and cfg.within(cp[0].args[0]) == 'app_dir', 'R4', 'copy-source', bw, 'the copy is made from the configured fixture', 'copy_app source is not config.app_dir')
    # the private copy lives in a temporary directory that is deleted when its owner is dropped: on every normal path
    # the value returned by copy_app (or what it was moved into) must be dropped only after pack has run
    if len(cp) == 1 and run:
        owns = H.guard_owner_types(prog)

        def holders_of(cfn, start):
            """locals that (may) own the copy's directory guard: what the value is moved into — whole, as a field of a
            struct / enum payload / tuple that is built around it, out of such a carrier again (`?`, destructuring),
            or through the std / wrapping calls that hand their argument on (`expect`, `unwrap`, `into`, `?`)"""
            hs, work = set(), [start]
            while work:
                l = work.pop()
                if l in hs:
                    continue
                hs.add(l)
                for b in cfn.blocks:
                    for st in b['s']:
                        if st[0] != '=':
                            continue
                        ops = [st[2]['o']] if st[2]['r'] == 'use' else list(st[2].get('ops', [])) if st[2]['r'] == 'agg' else []
                        if any(isinstance(o, dict) and 'm' in o and o['m'][0] == l for o in ops) and (len(st[1]) > 1 or owns(cfn.local_ty(st[1][0]))):
                            work.append(st[1][0])
                for c in cfn.calls:
                    if c.dest and len(c.dest) == 1 and c.args and isinstance(c.args[0], dict) and 'm' in c.args[0] and c.args[0]['m'][0] == l \
                            and len(c.args[0]['m']) == 1 and (c.name or '').endswith(H.HANDING_ON) and owns(c.dty or ''):
                        work.append(c.dest[0])
            return hs
        levels = [l.call if hasattr(l, 'call') else l for l in cp[0].chain] + [cp[0].call]     # outermost .. copy_app call
        early, alive = [], False
        for lv in reversed(levels):
            cfn = lv.fn
            if not (lv.dest and len(lv.dest) == 1):
                break
            hs = holders_of(cfn, lv.dest[0])
            normal = cfn.reachable(0)
            run_bbs = {lk.bb for x in run for lk in [l.call if hasattr(l, 'call') else l for l in x.chain] + [x.call] if lk.fn.path == cfn.path}
            for bi_, b in enumerate(cfn.blocks):
                t = b['t']
                if t['t'] == 'drop' and bi_ in normal and t['p'][0] in hs and len(t['p']) == 1:
                    if run_bbs and not (run_bbs & cfn.reachable(bi_)):
                        alive = True        # dropped after pack ran
                    else:
                        early.append('%s in %s' % (cfn.local_name(t['p'][0]) or '_%d' % t['p'][0], cfn.path.split('::')[-1]))
            # ownership handed on only after (or to) the pack run — the owner moved into the TestContext the test
            # closure receives, into the call that runs pack — keeps the copy alive through the run just as well
            for c in cfn.calls:
                if c.bb in normal and run_bbs and any(isinstance(a, dict) and 'm' in a and len(a['m']) == 1 and a['m'][0] in hs for a in c.args) \
                        and (c.bb in run_bbs or not (run_bbs & cfn.reachable(c.bb))) and not (c.dest and len(c.dest) == 1 and c.dest[0] in hs):
                    alive = True
            if 0 not in hs:
                break       # not handed to the caller: this level decides
        rep.check(alive and not early, 'R4', 'copy-alive', cp[0].where(), 'the temporary copy is kept until pack has run',
                  'the temporary app copy is dropped (its directory deleted) before pack runs: %s' % (early or 'no owner of the copy outlives the pack run'))
    # env
    envc = S.feeding(effs, 'PACK:', 'env', BUILD_TARGET['env'])
    if len(envc) == 1 and S.bulk(envc[0]):
        ok, why = _bulk(E, sl, envc[0], cfg, 'env', run)
    else:
        ok, why = _elementwise(E, sl, envc, cfg, 'env', run, 2)
    seen.add('env')
    rep.check(ok, 'R3', 'build/env', bw, '%s -> pack_command.%s' % (why, envc[0].kind[5:] + ('(collection)' if S.bulk(envc[0]) else '(key, value)')) if ok else '', 'BuildConfig.env is not forwarded pair by pair (%s)' % why)
    # buildpacks: every iteration over config.buildpacks hands one reference to pack_command.buildpack(..), whatever
    # the reference kind (the calls may sit in the arms of a match or take the result of a resolving helper)
    bp = S.feeding(effs, 'PACK:', 'buildpack', BUILD_TARGET['buildpacks'])
    variants = sorted(v['name'] for v in prog.adt('libcnb_test::build_config::BuildpackReference')['variants'])
    why = '%d forwarding call(s)' % len(bp)
    ok = bool(bp)
    bulk = len(bp) == 1 and S.bulk(bp[0])
    if bulk:
        # one call of a bulk setter that is handed `config.buildpacks.iter().map(resolve).collect()`: one value per
        # configured reference (a mapping is total and keeps the order), whatever the reference kind
        ok, why = _bulk(E, sl, bp[0], cfg, 'buildpacks', run, mapped=True)
    elif ok:
        los = [_loop_of(E, sl, e, cfg, mapped=True) for e in bp]
        ok = all(lo is not None and lo[1] == 'buildpacks' for lo in los) and len({(lo[0][0], lo[0][1], id(lo[0][2])) for lo in los if lo}) == 1 \
            and all(len(H.loop_contexts(E, e)) == 1 for e in bp)
        why = 'calls are not all inside one loop over the whole of config.buildpacks'
        if ok:
            ok = H.on_every_iteration(E, bp, los[0][0])
            why = 'some iteration over config.buildpacks forwards nothing (kinds %s)' % variants
        if ok and len(run) == 1:
            ok = H.always_before(E, bp[0], (los[0][0][0], los[0][0][2]), run[0])
            why = 'the loop over config.buildpacks is not passed on every path to the pack invocation'
    rep.check(ok, 'R3', 'build/buildpacks', bw, 'one pack_command.buildpack(..) per configured reference, for every reference kind, in iteration order',
              'buildpack forwarding: %s' % why)
    # what is handed over: the configured reference itself, or the directory a packaging helper produced for it
    PKG = (FNS['package_crate_buildpack'], FNS['package_buildpack'])
    for i, e in enumerate(bp):
        a = e.args[1] if len(e.args) > 1 else ('unknown', 'no argument')
        if bulk and ok:
            al = H.xalts(sl, strip(H.norm_iterable(a)))
            a = al[0][0] if len(al) == 1 else ('unknown', 'the elements of %s' % vstr(a)[:60])
        # the element of a second loop over a vector the references were resolved into first (`for b in &config.buildpacks
        # { resolved.push(resolve(b)) }` ... `for r in resolved { pack_command.buildpack(r) }`) is the resolved value
        a = H.norm_elements(sl, a)
        a = sl.inline_deep(a, keep=PKG)
        verdicts = [H.buildpack_argument(sl, alt, cfg, PKG) for alt in H.alternatives(a, opaque=PKG)]
        bad = [v for v in verdicts if v[0] == 'bad']
        unk = [v for v in verdicts if v[0] == 'unknown']
        subj = 'build/buildpack-arg#%d' % i
        if bad:
            rep.violated('R3', subj, e.where(), 'pack_command.buildpack(..) is given %s' % bad[0][1])
        elif unk:
            rep.unproven('R3', subj, e.where(), 'argument of pack_command.buildpack(..) not understood: %s' % unk[0][1])
        else:
            rep.holds('R3', subj, e.where(), 'forwards %s' % ' | '.join(sorted({v[1] for v in verdicts})))
    seen.add('buildpacks')
    for k in ('package_crate_buildpack', 'package_buildpack'):
        cs = by.get('FN:' + k, [])
        ok = len(cs) == 1
        if ok:
            vals = [cfg.exact(a) for a in cs[0].args]
            ok = 'cargo_profile' in vals and 'target_triple' in vals
        rep.check(ok, 'R3', 'build/packaging/' + k, bw, 'packaging uses config.cargo_profile and config.target_triple', '%s is not given the configured profile / target' % FNS[k])
    seen.update({'cargo_profile', 'target_triple'})
    # the verdict: a decision on the PackResult value of config.expected_pack_result, taken in build_internal or in a
    # private helper it hands the field to
    epr = False
    PR = 'libcnb_test::build_config::PackResult'
    for g in prog.reach([bi]).values():
        if g.crate != 'libcnb_test' or g.derived or epr:
            continue
        tested = []
        for b in g.blocks:
            for s in b['s']:
                if s[0] == '=' and s[2]['r'] == 'discr' and s[2].get('enum') == PR:      # match / matches! / if let
                    tested.append(sl.place(g, s[2]['p']))
        for c in g.calls:
            if not c.indirect and c.decl in ('std::cmp::PartialEq::eq', 'std::cmp::PartialEq::ne') and (c.full or '').startswith('<%s as ' % PR):   # ==, !=
                tested.extend(sl.operand(g, a) for a in c.args)
        for v in tested:
            if not epr and any(cfg.within(x) == 'expected_pack_result' for x in H.lift_to(prog, sl, bi, v, share=E)):
                epr = True
    rep.check(epr, 'R3', 'build/expected_pack_result', bw, 'verdict depends on config.expected_pack_result', 'expected_pack_result is not consulted')
    seen.add('expected_pack_result')
    rep.check(sorted(seen) == sorted(bfields), 'R3', 'BuildConfig/fields', '%s:%s' % (bcfg['file'], bcfg['line']), 'all %d BuildConfig fields are consumed' % len(bfields),
              'BuildConfig fields %s, consumed %s' % (sorted(bfields), sorted(seen)))
    rep.check(len(run) == 1 and not H.loop_contexts(E, run[0]), 'R3', 'build/one-pack-invocation', bw, 'exactly one pack build invocation', '%d pack invocations' % len(run))


def setters(ctx, rep, cmds, argv_roles, S):
    """R6: what the setters / constructors of the configuration types and of the command structs store"""
    prog, sl = ctx.prog, ctx.slicer
    types = [(t, t.split('::')[-1], CONFIG_API[t], None) for t in (CC, BC)] + \
            [(t, t.split('::')[-1], None, COMMAND_API.get(t.split('::')[-1])) for t in sorted(cmds)]
    n_setters = 0
    for ty, short, capi, kapi in types:
        adt = prog.adt(ty)
        ftys = {x['name']: x['ty'] for x in adt['variants'][0]['fields']}
        found = set()
        roles_of = {}  # (option, roles, mode) -> a setter outside the API table that has exactly this role
        fill = {}      # field -> how the setters fill it ('add' | 'set')
        for f in H.carrier_methods(prog, ty):
            m = f.path.split('::')[-1]
            subj = '%s::%s' % (short, m)
            is_setter = bool(f.args) and f.args[0] == '&mut ' + ty
            if is_setter and f.argc >= 2:
                rep.analysed(f)
                n_setters += 1
                found.add(m)
                V = S.verdict(f)
                if V.ok is None:
                    rep.unproven('R6', subj, V.where, 'what %s stores could not be established: %s' % (subj, V.why))
                    continue
                rep.check(V.ok, 'R6', subj, V.where, 'stores exactly its parameter(s): %s' % V.why, '%s does not store exactly what it is given: %s' % (subj, V.why))
                if not V.ok:
                    continue
                fill.setdefault(V.field, V.mode)
                if capi is not None and m in capi:
                    fld, mode = capi[m]
                    ok = V.field == fld and V.mode == mode and V.order() == sorted(V.order())
                    why = 'stores into %s (%s)%s' % (V.field, {'set': 'replacing the value', 'add': 'adding to the collection'}[V.mode],
                                                    '' if V.order() == sorted(V.order()) else ' with key and value exchanged')
                    rep.check(ok, 'R6', subj + '/role', V.where, '%s: the field the test runner forwards' % why,
                              '%s must %s self.%s with its parameters in order, but %s' % (subj, {'set': 'replace', 'add': 'add to'}[mode], fld, why))
                if kapi is not None and m not in kapi:
                    # a setter outside the API table (a bulk variant, a renamed one): when the field it stores is
                    # rendered as the value of an option that carries configuration, it is held to that option's
                    # canonical roles — parameters / element components in the grammar's order, same mode
                    r = derived_role(short, V, argv_roles)
                    canon = CANON_ROLE.get(short, {}).get(r[0]) if r else None
                    if canon is not None:
                        roles_of[(r[0], tuple(r[1]), r[2])] = m
                        rep.check((tuple(r[1]), r[2]) == canon, 'R6', subj + '/role', V.where,
                                  '%s become the %s of %s' % ('the elements\' components' if r[3] else 'parameters', ' / '.join('<%s>' % x for x in r[1]) or 'words', r[0]),
                                  '%s feeds %s as %s by %s, expected %s by %s' % (subj, r[0], list(r[1]), r[2], list(canon[0]), canon[1]))
                if kapi is not None and m in kapi:
                    opt, rnames, mode = kapi[m]
                    if opt == 'command':
                        ok = short in TRAILING and V.field == TRAILING[short][1] and V.mode == mode
                        rep.check(ok, 'R6', subj + '/role', V.where, 'stores the words that follow the image', '%s stores into %s (%s), not into the trailing command' % (subj, V.field, V.mode))
                        continue
                    roles = argv_roles.get(short, {}).get(opt)
                    if roles == {}:
                        continue        # R7 could not decode the option's value and has said so
                    if roles is None:
                        rep.unproven('R6', subj + '/role', V.where, 'the conversion has no %s option to compare with' % opt)
                        continue
                    order = V.order()
                    bad = []
                    for i, rn in enumerate(rnames):
                        want = (V.field, () if (i >= len(order) or order[i] == '') else (order[i],))
                        got = roles.get(rn)
                        if got is None or tuple(got[:2]) != want:
                            bad.append('parameter %d is stored as %s%s but %s renders %s as its <%s>' % (
                                i + 1, want[0], ''.join('.' + c for c in want[1]), opt, ('%s%s' % (got[0], ''.join('.' + c for c in got[1]))) if got else 'nothing', rn))
                    ok = not bad and V.mode == mode and len(order) == len(rnames)
                    rep.check(ok, 'R6', subj + '/role', V.where, 'parameters become the %s of %s' % (' / '.join('<%s>' % r for r in rnames), opt),
                              '%s: %s' % (subj, '; '.join(bad) or 'stores by %s, expected %s' % (V.mode, mode)))
            elif f.ret == ty and not is_setter:
                rep.analysed(f)
                found.add(m)
                ok, why, where_, defaults = H.judge_constructor(prog, sl, f, ty)
                w = '%s:%d' % (f.file, f.line)
                if ok is None:
                    rep.unproven('R6', subj, w, 'what %s constructs could not be established: %s' % (subj, why))
                    continue
                rep.check(ok, 'R6', subj, w, 'every parameter initialises one field: %s' % why, '%s: %s' % (subj, why))
                if not ok:
                    continue
                api = (capi or {}).get(m) if capi is not None else (kapi or {}).get(m)
                if capi is not None and isinstance(api, dict) and api:
                    got = {p: where_.get(p) for p in api}
                    rep.check(got == api, 'R6', subj + '/role', w, 'parameters initialise %s' % sorted(api.values()), '%s initialises %s, expected %s' % (subj, got, api))
                elif kapi is not None and isinstance(api, dict):
                    bad = []
                    for p, (opt, rn) in sorted(api.items()):
                        fld = where_.get(p)
                        if opt == 'image':
                            if not (short in TRAILING and fld == TRAILING[short][0]):
                                bad.append('parameter %d initialises %s, not the image positional' % (p + 1, fld))
                            continue
                        got = (argv_roles.get(short, {}).get(opt) or {}).get(rn)
                        if got is None or tuple(got[:2]) != (fld, ()):
                            bad.append('parameter %d initialises %s but %s renders %s' % (p + 1, fld, opt, got[0] if got else 'nothing'))
                    rep.check(not bad, 'R6', subj + '/role', w, 'parameters become %s' % ', '.join(o for o, _ in api.values()), '%s: %s' % (subj, '; '.join(bad)))
                rep.extra.setdefault('constructor_defaults', {})[subj] = defaults
        # what the setters fill must start empty (a non-empty default would reach the command line unconfigured)
        for subj, defaults in list(rep.extra.get('constructor_defaults', {}).items()):
            if not subj.startswith(short + '::'):
                continue
            f = prog.fns.get('%s::%s' % (ty, subj.split('::')[-1]))
            bad = [fld for fld, v in sorted(defaults.items())
                   if (fill.get(fld) == 'add' or (fld in fill and ftys.get(fld, '').startswith('std::option::Option<'))) and not H.is_empty_default(v, prog)]
            rep.check(not bad, 'R6', subj + '/defaults', '%s:%d' % (f.file, f.line) if f else '-', 'collections and options the setters fill start empty',
                      '%s initialises %s with contents nobody configured' % (subj, bad))
            rep.extra['constructor_defaults'][subj] = sorted(defaults)
        for m in sorted(set(capi or kapi or {}) - found):
            api = (kapi or {}).get(m)
            if kapi is not None and isinstance(api, tuple) and (api[0], tuple(api[1]), api[2]) in roles_of:
                # the method is gone, its role is not: another setter (judged above: R6 stores, R6 role) feeds the
                # option with the same parameters in the same order, and R3 demands that the configuration goes through it
                rep.holds('R6', '%s::%s' % (short, m), '%s:%s' % (adt['file'], adt['line']), 'the role of %s::%s (%s) is taken by %s::%s' % (short, m, api[0], short, roles_of[(api[0], tuple(api[1]), api[2])]))
                continue
            rep.unproven('R6', '%s::%s' % (short, m), '%s:%s' % (adt['file'], adt['line']), 'method %s::%s of the configuration API was not found' % (short, m))
    # hand-written wrapping conversions on the way (`impl Into<BuildpackReference>` arguments, the app directory): the
    # wrapped value is the argument itself
    import re
    rx = re.compile(r'^<(libcnb_test::pack::BuildpackReference|libcnb_test::app::AppDir) as std::convert::From<(.+)>>::from$')
    n_conv = 0
    for p, f in sorted(prog.fns.items()):
        m = rx.match(p)
        if not m or f.derived:
            continue
        n_conv += 1
        rep.analysed(f)
        subj = '%s::from<%s>' % (m.group(1).split('::')[-1], m.group(2).split('::')[-1])
        v = strip(sl.local(f, 0))
        pc = H.PCfg(f, 0)
        w = '%s:%d' % (f.file, f.line)
        if v[0] == 'agg' and len(v[3]) == 1 and pc.exact(H.peel(v[3][0][1])) == 0:
            rep.holds('R6', subj, w, 'wraps its argument unchanged as %s' % v[2])
        elif v[0] == 'agg' and len(v[3]) > 1 and H.carrier_conversion(prog, sl, f, v, pc, m.group(1)) is not None:
            rep.holds('R6', subj, w, H.carrier_conversion(prog, sl, f, v, pc, m.group(1)))
        elif pc.mentioned(v):
            rep.violated('R6', subj, w, 'the conversion produces %s, not its argument wrapped unchanged' % vstr(v)[:80])
        else:
            rep.unproven('R6', subj, w, 'the conversion produces %s' % vstr(v)[:80])
    rep.check(n_conv >= 2, 'R6', 'wrapping-conversions', '-', '%d wrapping conversions analysed' % n_conv, 'the conversions into pack::BuildpackReference were not found')
    rep.check(n_setters >= 20, 'R6', 'setters-analysed', '-', '%d setters analysed' % n_setters, 'only %d setters were found' % n_setters)


def _without(v, name):
    """v with calls to `name` replaced by a marker"""
    if not isinstance(v, tuple) or not v:
        return v
    if v[0] == 'call' and v[1] == name:
        return ('unknown', 'cut')
    return tuple(_without(x, name) if isinstance(x, tuple) else x for x in v)
