"""C18 — inventory resolution returns a maximal matching artifact; checksums round-trip.

Decided structurally:
  R1 sibling filters  resolve and partial_resolve filter with the same conjunction:
                      artifact.os == os && artifact.arch == arch && satisfies_version(&artifact.version) &&
                      satisfies_metadata(&artifact.metadata)
  R2 selection        resolve = filter(..).max_by_key(|a| &a.version); partial_resolve folds with the table
                      None -> item, Some(acc) & cmp(item, acc) in {Greater, Equal} -> item, otherwise -> acc,
                      both keys being `.version`; the fold starts from None, so None is returned only for an
                      empty filtered sequence
  R3 checksum acceptor Ok(Checksum{..}) only under name_compatible(name) && length_compatible(decoded length);
                      name / value come from split_once(':') with the hex-decode error propagated
  R4 codec pair       Serialize = "{name}:{hex::encode(value)}", Deserialize = String -> parse;
                      Display for Inventory = toml::to_string, FromStr = toml::from_str
  R5 digest impls     Sha256 <-> "sha256" / output_size(); Sha512 <-> "sha512" / output_size()
Not decided: maximality for unlawful PartialOrd impls; TOML round-trip equality (toml, hex crates).
"""
from .lib.paths import strip
from .lib.tables import arm_defs
from .lib.value import vstr, walk

INV = r'^libherokubuildpack::inventory::Inventory::<V, D, M>::'
CK = 'libherokubuildpack::inventory::checksum::'


def filter_conjunction(prog, sl, f):
    """set of normalised tests that must all hold for a filter closure to return true.  Handles `a && b && c && d`,
    early `return false` on `x != y`, and a final `true` literal: every non-false return site contributes the boolean
    decisions dominating it (with `ne == false` read as `eq == true`) plus its own value; all such sites must agree"""
    per_site = []
    for bi, v, conds in arm_defs(f, 0, sl):
        v0 = strip(v)
        if v0 == ('const', False):
            continue
        tests = []
        for cd in conds:
            if cd.kind != 'bool':
                continue
            t = strip(cd.value)
            if t[0] != 'call':
                return None
            name = t[1].split('::')[-1]
            if name == 'ne' and cd.outcome is False:
                name = 'eq'
            elif cd.outcome is not True:
                return None
            tests.append((name, t[2]))
        if v0 != ('const', True):
            if v0[0] != 'call':
                return None
            tests.append((v0[1].split('::')[-1], v0[2]))
        out = set()
        for name, targs in tests:
            args = []
            for a in targs:
                a = strip(a)
                if a[0] == 'field':
                    args.append('artifact.' + a[2])
                elif a[0] in ('param', 'upvar'):
                    args.append('captured')
                else:
                    args.append(vstr(a)[:30])
            out.add((name,) + tuple(sorted(args)))
        per_site.append(out)
    if not per_site or any(x != per_site[0] for x in per_site):
        return None if not per_site else frozenset().union(*per_site) if False else (per_site[0] if all(x == per_site[0] for x in per_site) else None)
    return per_site[0]


def run(ctx, rep):
    prog, sl = ctx.prog, ctx.slicer
    for r, d in (('R1', 'resolve / partial_resolve use the same four-way filter'), ('R2', 'selection: max_by_key(.version) / partial fold table'),
                 ('R3', 'checksum accepted only with compatible name and length'), ('R4', 'checksum and inventory codec pairs'), ('R5', 'Sha256/Sha512 digest descriptors')):
        rep.rule(r, d)
    rep.not_decided = ['maximality under unlawful PartialOrd implementations', 'TOML / hex round-trip equality (toml, hex crates)']
    res = prog.find_one(INV + r'resolve$')
    pres = prog.find_one(INV + r'partial_resolve$')
    for f in (res, pres):
        rep.analysed(f)
    w = lambda f: '%s:%d' % (f.file, f.line)
    want = {('eq', 'artifact.os', 'captured'), ('eq', 'artifact.arch', 'captured'), ('satisfies_version', 'artifact.version', 'captured'), ('satisfies_metadata', 'artifact.metadata', 'captured')}
    filt = {}
    for f in (res, pres):
        v = strip(sl.local(f, 0))
        fl = next((x for x in walk(v) if x[0] == 'call' and x[1] == 'std::iter::Iterator::filter'), None)
        if fl is None:
            rep.unproven('R1', f.path.split('::')[-1], w(f), 'no filter adapter found')
            continue
        src = strip(fl[2][0])
        src_ok = src[0] == 'call' and src[1] == 'core::slice::<impl [T]>::iter' and strip(src[2][0])[0] == 'field' and strip(src[2][0])[2] == 'artifacts'
        cl = strip(fl[2][1])
        body = prog.fns.get(cl[1]) if cl[0] == 'closure' else None
        conj = filter_conjunction(prog, sl, body) if body else None
        filt[f.path] = conj
        short = f.path.split('::')[-1]
        rep.check(src_ok and conj == want, 'R1', short, w(f), 'filters self.artifacts by os, arch, version requirement and metadata requirement',
                  '%s filters with %s (expected the four tests %s)' % (short, sorted(conj) if conj else conj, sorted(want)))
        # captured values are the query parameters
        caps = [strip(x) for x in cl[2]] if cl[0] == 'closure' else []
        rep.check(sorted(x[2] for x in caps if x[0] == 'param') == [1, 2, 3], 'R1', short + '/captures', w(f), 'the filter closes over (os, arch, requirement)', 'filter closure captures %s' % [vstr(x) for x in caps])
    if len(filt) == 2:
        a, b = list(filt.values())
        rep.check(a == b and a is not None, 'R1', 'agreement', w(pres), 'both resolvers use the identical predicate set', 'resolve and partial_resolve disagree: %s vs %s' % (a, b))
    # ---- R2 ------------------------------------------------------------------------------------------
    v = strip(sl.local(res, 0))
    ok = v[0] == 'call' and v[1] == 'std::iter::Iterator::max_by_key' and strip(v[2][0])[0] == 'call' and strip(v[2][0])[1] == 'std::iter::Iterator::filter'
    if ok:
        kc = strip(v[2][1])
        body = prog.fns.get(kc[1]) if kc[0] == 'closure' else None
        kv = strip(sl.local(body, 0)) if body else ('unknown',)
        ok = kv[0] == 'field' and kv[2] == 'version' and strip(kv[1])[0] == 'param'
    rep.check(ok, 'R2', 'resolve/max_by_key', w(res), 'filter(..).max_by_key(|a| &a.version)', 'resolve selection is ' + vstr(v)[:120])
    v = strip(sl.local(pres, 0))
    helper = prog.fns.get(v[1]) if v[0] == 'call' else None
    ok = helper is not None and strip(v[2][0])[0] == 'call' and strip(v[2][0])[1] == 'std::iter::Iterator::filter'
    if ok:
        kc = strip(v[2][1])
        body = prog.fns.get(kc[1]) if kc[0] == 'closure' else None
        kv = strip(sl.local(body, 0)) if body else ('unknown',)
        ok = kv[0] == 'field' and kv[2] == 'version'
    rep.check(ok, 'R2', 'partial/key', w(pres), 'partial fold over the filtered artifacts keyed by .version', 'partial_resolve selection is ' + vstr(v)[:120])
    if helper is not None:
        rep.analysed(helper)
        hv = strip(sl.local(helper, 0))
        ok = hv[0] == 'call' and hv[1] == 'std::iter::Iterator::fold' and strip(hv[2][0])[0] == 'param' and strip(hv[2][1])[0] == 'agg' and strip(hv[2][1])[2] == 'None'
        rep.check(ok, 'R2', 'partial/fold-init', w(helper), 'fold starts from None over the whole iterator', 'fold shape: ' + vstr(hv)[:100])
        fc = strip(hv[2][2]) if ok else ('unknown',)
        fb = prog.fns.get(fc[1]) if fc[0] == 'closure' else None
        if fb is None:
            rep.unproven('R2', 'partial/fold-table', w(helper), 'fold closure not found')
        else:
            rep.analysed(fb)
            rows = []
            cmp_ok = True
            for bi, val, conds in arm_defs(fb, 0, sl):
                val = strip(val)
                pick = None
                if val[0] == 'agg' and val[2] == 'Some':
                    inner = strip(dict(val[3])['0'])
                    pick = 'item' if inner[0] == 'param' and inner[1] == fb.path and inner[2] == 2 else \
                        ('acc' if any(x[0] == 'param' and x[1] == fb.path and x[2] == 1 for x in walk(dict(val[3])['0'])) else '?')
                dec = []
                for cd in conds:
                    if cd.kind != 'variant':
                        continue
                    s = strip(cd.subject)
                    if s[0] == 'param' and s[2] == 1:
                        dec.append(('acc', tuple(sorted(cd.outcome))))
                    elif cd.enum == 'std::cmp::Ordering':
                        dec.append(('ord', tuple(sorted(cd.outcome))))
                        pc = next((x for x in walk(cd.subject) if x[0] == 'call' and x[1] == 'std::cmp::PartialOrd::partial_cmp'), None)
                        if pc is not None:
                            l, r = strip(pc[2][0]), strip(pc[2][1])
                            isp = lambda x, i: x[0] == 'param' and x[1] == fb.path and x[2] == i
                            l_item = any(isp(x, 2) for x in walk(l)) and not any(isp(x, 1) for x in walk(l))
                            r_acc = any(isp(x, 1) for x in walk(r)) and not any(isp(x, 2) for x in walk(r))
                            keyed = all(any(x[0] in ('call',) and x[1].endswith('Fn::call') for x in walk(y)) for y in (l, r))
                            cmp_ok = cmp_ok and l_item and r_acc and keyed
                        else:
                            cmp_ok = False
                rows.append((pick, tuple(dec)))
            rep.extra['partial_fold_table'] = [list(map(str, r)) for r in rows]
            want_rows = {('item', (('acc', ('None',)),)), ('item', (('acc', ('Some',)), ('ord', ('Equal', 'Greater')))), ('acc', (('acc', ('Some',)),))}
            alt_rows = {('item', (('acc', ('None',)),)), ('item', (('acc', ('Some',)), ('ord', ('Greater',)))), ('acc', (('acc', ('Some',)),))}
            rep.check(set(rows) in (want_rows, alt_rows) and cmp_ok, 'R2', 'partial/fold-table', w(fb), 'None -> item; Greater(/Equal) -> item; Less / incomparable -> acc; compares key(item) with key(acc)',
                      'partial fold table is %s (cmp operands ok: %s)' % (rows, cmp_ok))
    # ---- R3 ------------------------------------------------------------------------------------------
    fs = prog.fn('<%sChecksum<D> as std::str::FromStr>::from_str' % CK)
    rep.analysed(fs)
    oks = [(bi, v, c) for bi, v, c in arm_defs(fs, 0, sl) if strip(v)[0] == 'agg' and strip(v)[2] == 'Ok']
    good = len(oks) == 1
    if good:
        bi, v, conds = oks[0]
        ck = strip(dict(strip(v)[3])['0'])
        fl = dict(ck[3]) if ck[0] == 'agg' else {}
        name_v, val_v = fl.get('name', ('unknown',)), fl.get('value', ('unknown',))
        split_ok = all(any(x[0] == 'call' and x[1] == 'core::str::<impl str>::split_once' and strip(x[2][1]) == ('const', ':') for x in walk(y)) for y in (name_v, val_v))
        nm = [cd for cd in conds if cd.kind == 'bool' and cd.value[0] == 'call' and cd.value[1].endswith('Digest::name_compatible') and cd.outcome is True]
        ln = [cd for cd in conds if cd.kind == 'bool' and cd.value[0] == 'call' and cd.value[1].endswith('Digest::length_compatible') and cd.outcome is True]
        ln_ok = bool(ln) and strip(ln[0].value[2][0])[0] == 'call' and strip(ln[0].value[2][0])[1].endswith('::len')
        good = split_ok and bool(nm) and ln_ok
        rep.extra['checksum_guards'] = [repr(c)[:120] for c in conds if c.kind == 'bool']
    rep.check(good, 'R3', 'acceptor', w(fs), 'Ok only under name_compatible(name) && length_compatible(value.len()), parts from split_once(\':\')',
              'checksum accepted without both compatibility checks')
    cl = prog.closures_of(fs)
    dec_ok = any(any(c.name == 'hex::decode' for c in g.calls) and any(x[0] == 'fnitem' and x[1].endswith('InvalidValue') for x in walk(sl.local(g, 0))) for g in cl)
    rep.check(dec_ok, 'R3', 'hex-error', w(fs), 'hex decode error mapped to InvalidValue and propagated', 'hex decode error is not propagated as InvalidValue')
    # ---- R4 ------------------------------------------------------------------------------------------
    se = prog.find(r'^<%sChecksum<D> as .*Serialize>::serialize$' % CK.replace('::', '::'))
    ok = len(se) == 1
    if ok:
        rep.analysed(se[0])
        c = [x for x in se[0].calls if x.decl and x.decl.endswith('Serializer::serialize_str')]
        ok = len(c) == 1
        if ok:
            fm = next((x for x in walk(sl.operand(se[0], c[0].args[1])) if x[0] == 'fmt'), None)
            ok = fm is not None and len(fm[1]) == 3 and fm[1][1] == ':' and strip(fm[1][0])[0] == 'field' and strip(fm[1][0])[2] == 'name' and \
                strip(fm[1][2])[0] == 'call' and strip(fm[1][2])[1] == 'hex::encode' and strip(strip(fm[1][2])[2][0])[2] == 'value'
    rep.check(ok, 'R4', 'checksum/serialize', w(se[0]) if se else '-', 'serialises as "{name}:{hex(value)}"', 'Checksum serialisation format changed')
    de = prog.find(r"^<%sChecksum<D> as .*Deserialize<'de>>::deserialize$" % CK)
    ok = len(de) == 1 and any(any(c.full and 'parse::<libherokubuildpack::inventory::checksum::Checksum<D>>' in c.full for c in g.calls) for g in [de[0]] + prog.closures_of(de[0]))
    rep.check(ok, 'R4', 'checksum/deserialize', w(de[0]) if de else '-', 'deserialises through FromStr (same acceptor)', 'Checksum does not deserialize through parse')
    disp = prog.find(r'^<libherokubuildpack::inventory::Inventory<V, D, M> as std::fmt::Display>::fmt$')
    fr = prog.find(r'^<libherokubuildpack::inventory::Inventory<V, D, M> as std::str::FromStr>::from_str$')
    ok = len(disp) == 1 and any(c.name == 'toml::to_string' for c in disp[0].calls) and len(fr) == 1 and any(c.name in ('toml::from_str', 'toml::de::from_str') for c in fr[0].calls)
    rep.check(ok, 'R4', 'inventory/codec', w(disp[0]) if disp else '-', 'Display = toml::to_string(self), FromStr = toml::from_str(s)', 'inventory codec pair changed')
    # ---- R5 ------------------------------------------------------------------------------------------
    for algo, name in (('sha2::Sha256', 'sha256'), ('sha2::Sha512', 'sha512')):
        # sha2 re-exports CoreWrapper types; match by the impl's self type rendering
        impls = [i for i in prog.impls if i['trait'] == CK + 'Digest' and i['crate'] == 'libherokubuildpack']
        nc = [f for f in prog.fns.values() if f.impl_trait == CK + 'Digest' and f.path.endswith('::name_compatible')]
        found = False
        for f in nc:
            v = strip(sl.local(f, 0))
            if v[0] == 'call' and v[1].endswith('::eq') and strip(v[2][1]) == ('const', name):
                lc = prog.fns.get(f.path[:-len('name_compatible')] + 'length_compatible')
                lv = strip(sl.local(lc, 0)) if lc else ('unknown',)
                found = lv[0] == 'bin' and lv[1] == 'Eq' and strip(lv[2])[0] == 'param' and strip(lv[3])[0] == 'call' and strip(lv[3])[1].endswith('output_size')
                rep.analysed(f)
        rep.check(found, 'R5', name, 'libherokubuildpack/src/inventory/sha2.rs', '"%s" with its digest\'s output_size()' % name, 'no Digest impl pairing "%s" with output_size()' % name)
