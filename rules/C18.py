"""C18 — inventory resolution returns a maximal matching artifact; checksums round-trip.

Decided on a spelling-independent model of both resolvers (C18_helpers.select_model: iterator adapters, private helpers
around them and explicit accumulating loops reduce to the same description; decisions are CFG paths with private boolean
helpers / closures / Option combinators expanded):
  R1 sibling filters  an element of self.artifacts reaches the selection step exactly when
                      artifact.os == os && artifact.arch == arch && satisfies_version(&artifact.version) &&
                      satisfies_metadata(&artifact.metadata), in resolve and in partial_resolve alike; the filter may be
                      a filter(..) adapter, guards of an explicit loop, or a private iterator type / from_fn closure
                      whose hand-written next() yields exactly the passing elements of one inner iterator, in order,
                      and ends only when that is exhausted (C18_helpers.own_iterator)
  R2 selection        resolve = max_by_key(.version), max_by(comparator) read as std's reduce table, or the equivalent
                      accumulation (first match seeds, a later element replaces unless the current one is strictly
                      greater); the step may be a closure or a named private function and may return through private
                      helpers and std's binary selectors (std::cmp::max_by / max_by_key / Ord::max, Option::map_or:
                      C18_helpers.value_cases); partial_resolve accumulates with the table
                      None -> item, Some(acc) & cmp(item, acc) in {Greater, Equal} -> item, otherwise -> acc,
                      both keys being `.version`; the accumulator starts from None and the whole sequence is visited,
                      so None is returned only for an empty filtered sequence
  R3 checksum acceptor decided on the outcomes of from_str (C18_helpers.ResultPaths: `?`, combinators + closures, match and
                      private helpers expand to the same decision paths): every Ok(Checksum{..}) outcome lies under
                      name_compatible(name) && length_compatible(decoded length) with name / value from split_once(':');
                      every outcome on which hex::decode failed is Err(InvalidValue(that error))
  R4 codec pair       Serialize = name ++ ":" ++ hex::encode(value) (format! or String building, text normal form),
                      Deserialize = String -> parse;
                      Display for Inventory = toml::to_string, FromStr = toml::from_str
  R5 digest impls     Sha256 <-> "sha256" / output_size(); Sha512 <-> "sha512" / output_size(); the impl with the name
                      "shaN" is the one for sha2's N-bit hasher and output_size() is that of the impl's own type
  R3 (deepened)       parts: accepted name = text before the first ':' unchanged, value = hex::decode(text after it),
                      and the compatibility tests look at exactly these; exact: the accepting paths depend on nothing
                      but split_once / hex::decode / name_compatible / length_compatible
  R4 (deepened)       data flow: Deserialize succeeds with parse(String::deserialize(d)) only, Inventory::from_str with
                      toml::from_str(s) only, Display writes toml::to_string(self) and nothing else
  R6 serde schema     generated Serialize / Deserialize of Inventory, Artifact, Os, Arch are symmetric (same keys for
                      the same fields / variants, nothing left out that the reader cannot restore)
  R7 push             Inventory::push appends its argument to self.artifacts on every path and does nothing else to it
  R8 adapters         the blanket ArtifactRequirement impl delegates to VersionRequirement::satisfies and accepts all
                      metadata; the semver adapter is VersionReq::matches
Round 5 normal forms (C18_helpers): tuple equality `(a.os, a.arch) == (os, arch)` is the conjunction of its component
tests (expand_atom); Option::filter / or / or_else in a fold step are expanded into the decisions they take
(value_cases, _opt_rows); `s.splitn(2, P)` taken apart with next().zip(next()) or two next() in a row is split_once(P)
(call order read off the CFG: _splitn_ordinal), `<Vec<u8> as FromHex>::from_hex` is hex::decode (norm_split); a digest's
name test is string equality with the literal however written (str_eq_const), its size the output_size() of the type a
private generic helper is instantiated with (size_self_types).
Not decided: maximality for unlawful PartialOrd impls; TOML round-trip equality (toml, hex crates).
"""
import re
from . import C18_helpers as H
from .lib.paths import strip
from .lib.value import canon, vstr, walk

INV = r'^libherokubuildpack::inventory::Inventory::<V, D, M>::'
CK = 'libherokubuildpack::inventory::checksum::'


def _none_opt(v):
    return v[0] == 'agg' and v[2] == 'None'


def run(ctx, rep):
    prog, sl = ctx.prog, ctx.slicer
    for r, d in (('R1', 'resolve / partial_resolve use the same four-way filter'), ('R2', 'selection: max_by_key(.version) / partial fold table'),
                 ('R3', 'checksum accepted only with compatible name and length'), ('R4', 'checksum and inventory codec pairs'), ('R5', 'Sha256/Sha512 digest descriptors'),
                 ('R6', 'derived serde schemas of Inventory / Artifact / Os / Arch are symmetric'), ('R7', 'push appends to self.artifacts'),
                 ('R8', 'requirement adapters delegate unchanged')):
        rep.rule(r, d)
    rep.not_decided = ['maximality under unlawful PartialOrd implementations', 'TOML / hex round-trip equality (toml, hex crates)']
    res = prog.find_one(INV + r'resolve$')
    pres = prog.find_one(INV + r'partial_resolve$')
    for f in (res, pres):
        rep.analysed(f)
    w = lambda f: '%s:%d' % (f.file, f.line)
    # Both resolvers are reduced to one model (C18_helpers): which collection is visited, under which tests an element
    # is handed to the selection step, how the accumulator starts, and what the step picks for every combination of
    # (accumulator empty / filled) x (outcome of comparing the element's key with the accumulator's key).  The model is
    # the same for iterator adapters, private helpers around them, and explicit loops.
    want = {('eq', '$1', 'artifact.os'), ('eq', '$2', 'artifact.arch'), ('satisfies_version', '$3', 'artifact.version'), ('satisfies_metadata', '$3', 'artifact.metadata')}
    filt, models = {}, {}
    for f in (res, pres):
        short = f.path.split('::')[-1]
        md = H.select_model(prog, sl, f)
        models[f.path] = md
        if md is None or (md.coll is None and not md.stages):
            rep.unproven('R1', short, w(f), 'no filter found: %s' % ('; '.join(md.problems) if md else 'neither an iterator pipeline nor an accumulating loop'))
            continue
        for g in md.fns:
            rep.analysed(g)
        try:
            conj, probs = H.predicate_of(md, f)
        except H.Giveup as e:
            conj, probs = None, [str(e)]
        struct = [p for p in md.problems if 'iterat' in p]
        src = strip(md.coll) if md.coll is not None else ('unknown',)
        src_ok = src[0] == 'field' and src[2] == 'artifacts' and strip(src[1])[0] == 'param' and strip(src[1])[1] == f.path and strip(src[1])[2] == 0
        filt[f.path] = frozenset(conj) if conj is not None and not probs else None
        rep.check(src_ok and not struct and not probs and conj == want, 'R1', short, w(f), 'filters self.artifacts by os, arch, version requirement and metadata requirement',
                  '%s filters %s with %s (expected the four tests %s)%s' % (short, vstr(src)[:40], sorted(conj) if conj else conj, sorted(want), ''.join('; ' + p for p in (struct + probs)[:3])))
        # the values the element is tested against are the query parameters
        caps = sorted({a for t in (conj or ()) for a in t[1:] if a.startswith('$')})
        rep.check(caps == ['$1', '$2', '$3'], 'R1', short + '/captures', w(f), 'the filter tests against (os, arch, requirement)', 'filter tests against %s' % caps)
    if len(filt) == 2:
        a, b = list(filt.values())
        rep.check(a == b and a is not None, 'R1', 'agreement', w(pres), 'both resolvers use the identical predicate set', 'resolve and partial_resolve disagree: %s vs %s' % (a and sorted(a), b and sorted(b)))
    # ---- R2 ------------------------------------------------------------------------------------------
    key_item = ('field', H.ITEM, 'version')
    md = models.get(res.path)
    ok, why = False, 'selection not understood'
    # (what is iterated and under which tests is R1's obligation and reported there; R2 is about the selection step)
    sel_problems = [p for p in md.problems if 'iterat' not in p] if md is not None else []
    if md is not None and md.kind == 'max_by_key':
        ok = md.key is not None and strip(md.key) == key_item and not sel_problems
        why = 'max_by_key keyed by %s%s' % (H.show(md.key) if md.key else None, ''.join('; ' + p for p in sel_problems[:2]))
    elif md is not None and md.kind == 'table':
        # what std's max_by_key does: the first element seeds, a later element replaces unless the current one is greater
        uni = sorted(H.FULL_T)
        table, orient, probs = H.eval_table(md, uni)
        ok = md.init_none and not probs and not sel_problems and table == H.expected_table(uni)
        why = 'starts from None: %s; table %s%s' % (md.init_none, H.table_str(table), ''.join('; ' + p for p in (probs + sel_problems)[:3]))
    elif md is not None:
        why = 'resolve selects with %s' % md.kind
    rep.check(ok, 'R2', 'resolve/max_by_key', w(res), 'filter(..).max_by_key(|a| &a.version) (or the equivalent accumulation)', 'resolve selection: ' + why[:300])
    md = models.get(pres.path)
    if md is None or md.kind != 'table':
        rep.check(False, 'R2', 'partial/key', w(pres), '', 'partial_resolve selection is %s' % (vstr(strip(sl.local(pres, 0)))[:120] if md is None or md.form != 'loop' else md.kind))
    else:
        uni = sorted(H.FULL_P)
        table, orient, probs = H.eval_table(md, uni)
        keyp = [p for p in probs if p.startswith('compares')]
        rep.check(bool(orient) and not keyp, 'R2', 'partial/key', w(pres), 'partial selection over the filtered artifacts compares .version of the element with .version of the accumulator',
                  'partial_resolve selection is not keyed by .version: %s' % (keyp[:2] or 'no comparison found'))
        whole = not [p for p in md.problems if 'iterat' not in p]
        rep.check(bool(md.init_none) and whole, 'R2', 'partial/fold-init', w(pres), 'accumulation starts from None and runs over the whole sequence',
                  'accumulation shape: starts from None: %s%s' % (md.init_none, ''.join('; ' + p for p in md.problems[:3])))
        rep.extra['partial_fold_table'] = H.table_str(table)
        cmp_ok = orient <= {('partial', 'item-left')}
        good = table in (H.expected_table(uni), H.expected_table(uni, equal_keeps_acc=True))
        rep.check(good and cmp_ok and not probs, 'R2', 'partial/fold-table', w(pres), 'None -> item; Greater(/Equal) -> item; Less / incomparable -> acc; compares key(item) with key(acc)',
                  'partial fold table is %s (cmp operands ok: %s)%s' % (H.table_str(table), cmp_ok, ''.join('; ' + p for p in probs[:3])))
    # ---- R3 ------------------------------------------------------------------------------------------
    fs = prog.fn('<%sChecksum<D> as std::str::FromStr>::from_str' % CK)
    rep.analysed(fs)
    # from_str as its outcomes (C18_helpers.ResultPaths): every way to return Ok / Err with the decisions taken on the
    # way, `?`, and_then / map / map_err / ok_or closures, match / let-else and private helpers (tail-called, under
    # `?`, handed to a combinator) all expanded into the same primitive decisions in from_str's own terms
    try:
        # (the text before / after the first ':' in its one normal form, whether split_once or find + slicing wrote it)
        rp, giveup = H.norm_split_paths(H.result_paths(prog, sl, fs)), ''
    except H.Giveup as e:
        rp, giveup = [], '; outcomes of from_str not understood: %s' % e
    oks = [(atoms, p) for atoms, k, p in rp if k == 'ok']
    good = len(oks) >= 1
    vals = []
    for atoms, p in oks:
        ck = H.norm_split(strip(sl.inline_deep(p)))
        fl = dict(ck[3]) if ck[0] == 'agg' else {}
        name_v, val_v = fl.get('name', ('unknown',)), fl.get('value', ('unknown',))
        vals.append(val_v)
        split_ok = all(any(x[0] == 'call' and x[1] == 'core::str::<impl str>::split_once' and strip(x[2][1]) == ('const', ':') for x in walk(y)) for y in (name_v, val_v))
        # the decisions on the way to this Ok (private boolean helpers already looked through)
        tests = [(a[1], a[2]) for a in atoms if a[0] == 'bool']
        nm = [tv for tv, oc in tests if tv[0] == 'call' and tv[1].endswith('Digest::name_compatible') and oc is True]
        ln = [tv for tv, oc in tests if tv[0] == 'call' and tv[1].endswith('Digest::length_compatible') and oc is True]
        ln_ok = any(strip(tv[2][0])[0] == 'call' and strip(tv[2][0])[1].endswith('::len') for tv in ln)
        good = good and split_ok and bool(nm) and ln_ok
        rep.extra['checksum_guards'] = [H.atom_str(a) for a in atoms if a[0] == 'bool']
    rep.check(good, 'R3', 'acceptor', w(fs), 'Ok only under name_compatible(name) && length_compatible(value.len()), parts from split_once(\':\')',
              'checksum accepted without both compatibility checks' + giveup)
    # the decode whose payload becomes `value` has its error wrapped in InvalidValue and propagated: every outcome of
    # from_str on which hex::decode(..) failed is Err(InvalidValue(<that decode's error>)), and the failure is looked at
    # at all (there is such an outcome)
    inv = lambda y: (y[0] == 'agg' and y[2] == 'InvalidValue') or (y[0] == 'call' and y[1].endswith('::InvalidValue'))
    failed = [(k, p, a[1]) for atoms, k, p in rp for a in atoms if a[0] == 'res' and a[2] == 'err' and a[1][0] == 'call' and a[1][1] == 'hex::decode']
    dec_ok = bool(failed) and all(k == 'err' and p is not None and inv(strip(p)) and any(y[0] == 'unwrap_err' and canon(y[1]) == s for y in walk(p)) for k, p, s in failed)
    dec_ok = dec_ok and bool(vals) and all(any(z[0] == 'call' and z[1] == 'hex::decode' for z in walk(v)) for v in vals)
    rep.check(dec_ok, 'R3', 'hex-error', w(fs), 'hex decode error mapped to InvalidValue and propagated', 'hex decode error is not propagated as InvalidValue' + giveup)
    # the accepted parts are the split parts themselves (no trimming / case folding / re-slicing on the way), and the
    # compatibility tests look at them
    pp = H.acceptor_parts(sl, fs, oks) if oks else ['no Ok outcome']
    rep.check(not pp and not giveup, 'R3', 'parts', w(fs), 'name = text before the first colon, value = hex::decode(text after it); the tests look at these',
              'accepted checksum is not made of the split parts: %s%s' % ('; '.join(pp[:3]), giveup))
    # "exactly when": acceptance depends on the four conditions and on nothing else
    ex = H.acceptor_extra_conditions(fs, oks, sl) if oks else ['no Ok outcome']
    rep.check(not ex and not giveup, 'R3', 'exact', w(fs), 'accepting paths depend only on split_once / hex::decode / name_compatible / length_compatible',
              'acceptance also depends on: %s%s' % ('; '.join(ex[:3]), giveup))
    # ---- R4 ------------------------------------------------------------------------------------------
    se = prog.find(r'^<%sChecksum<D> as .*Serialize>::serialize$' % CK.replace('::', '::'))
    ok = len(se) == 1
    if ok:
        rep.analysed(se[0])
        c = [x for x in se[0].calls if x.decl and x.decl.endswith('Serializer::serialize_str')]
        ok = len(c) == 1
        if ok:
            # the text handed to serialize_str, as its pieces: format!(..), String building with push_str / push and a
            # private rendering helper (inline_deep) have the same normal form [self.name, ':', hex::encode(self.value)]
            tv = sl.inline_deep(sl.operand(se[0], c[0].args[1]))
            fm = next((x for x in walk(tv) if x[0] in ('fmt', 'concat')), None)
            ps = H.text_parts(sl, fm) if fm is not None else []
            own = lambda x, name: strip(x)[0] == 'field' and strip(x)[2] == name and strip(strip(x)[1])[0] == 'param' and strip(strip(x)[1])[1] == se[0].path
            ok = len(ps) == 3 and ps[1] == ':' and not isinstance(ps[0], str) and not isinstance(ps[2], str) and own(ps[0], 'name') and \
                strip(ps[2])[0] == 'call' and strip(ps[2])[1] == 'hex::encode' and len(strip(ps[2])[2]) == 1 and own(strip(ps[2])[2][0], 'value')
    rep.check(ok, 'R4', 'checksum/serialize', w(se[0]) if se else '-', 'serialises as "{name}:{hex(value)}"', 'Checksum serialisation format changed')
    de = prog.find(r"^<%sChecksum<D> as .*Deserialize<'de>>::deserialize$" % CK)
    ok = len(de) == 1 and any(any(c.full and 'parse::<libherokubuildpack::inventory::checksum::Checksum<D>>' in c.full for c in g.calls) for g in [de[0]] + prog.closures_of(de[0]))
    rep.check(ok, 'R4', 'checksum/deserialize', w(de[0]) if de else '-', 'deserialises through FromStr (same acceptor)', 'Checksum does not deserialize through parse')
    disp = prog.find(r'^<libherokubuildpack::inventory::Inventory<V, D, M> as std::fmt::Display>::fmt$')
    fr = prog.find(r'^<libherokubuildpack::inventory::Inventory<V, D, M> as std::str::FromStr>::from_str$')
    ok = len(disp) == 1 and any(c.name == 'toml::to_string' for c in disp[0].calls) and len(fr) == 1 and any(c.name in ('toml::from_str', 'toml::de::from_str') for c in fr[0].calls)
    rep.check(ok, 'R4', 'inventory/codec', w(disp[0]) if disp else '-', 'Display = toml::to_string(self), FromStr = toml::from_str(s)', 'inventory codec pair changed')
    # ---- R5 ------------------------------------------------------------------------------------------
    for algo, name in (('sha2::Sha256', 'sha256'), ('sha2::Sha512', 'sha512')):
        # sha2 re-exports CoreWrapper types; match by the impl's self type rendering
        impls = [i for i in prog.impls if i['trait'] == CK + 'Digest' and i['crate'] == 'libherokubuildpack']
        nc = [f for f in prog.fns.values() if f.impl_trait == CK + 'Digest' and f.path.endswith('::name_compatible')]
        # the name test is byte-wise equality of the argument with the literal, however it is written (==, eq with the
        # operands either way round, matches! / a two-armed match: C18_helpers.str_eq_const); the length test is equality
        # of the argument with output_size(), either way round, private helpers around it transparent (inline_deep)
        def answers(f):
            t = H.str_eq_const(sl.inline_deep(sl.local(f, 0)))
            return t is not None and t[1] == name and H.is_param(t[0], f, 0)
        found = False
        mine = [f for f in nc if answers(f)]
        for f in mine:
            lc = prog.fns.get(f.path[:-len('name_compatible')] + 'length_compatible')
            lv = strip(sl.inline_deep(sl.local(lc, 0))) if lc else ('unknown',)
            # `len == size` and `size == len` are the same test
            sides = [(lv[2], lv[3]), (lv[3], lv[2])] if lv[0] == 'bin' and lv[1] == 'Eq' else []
            found = any(H.is_param(a, lc, 0) and strip(b)[0] == 'call' and strip(b)[1].endswith('output_size') and not strip(b)[2] for a, b in sides)
            rep.analysed(f)
        rep.check(found, 'R5', name, 'libherokubuildpack/src/inventory/sha2.rs', '"%s" with its digest\'s output_size()' % name, 'no Digest impl pairing "%s" with output_size()' % name)
        # the impl that answers to "shaN" is the one for sha2's N-bit hasher, and the size it compares with is the
        # output size of its own type (Self::output_size(), <Sha256 as OutputSizeUser>::output_size(), a macro
        # parameter, a private generic helper instantiated with the type .. all resolve to the same callee type:
        # C18_helpers.size_self_types)
        bits = name[3:]
        ok, why = len(mine) == 1, '%d impls answer to "%s"' % (len(mine), name)
        if ok:
            m = re.search(r'Digest for (.*)>::name_compatible$', mine[0].path)
            selfty = m.group(1) if m else ''
            lc = prog.fns.get(mine[0].path[:-len('name_compatible')] + 'length_compatible')
            sizes = H.size_self_types(prog, lc) if lc else []
            if ('Sha%sVarCore' % bits) in selfty and sizes and None in sizes:
                rep.unproven('R5', name + '/own-size', 'libherokubuildpack/src/inventory/sha2.rs', 'the type whose output_size() "%s" is compared with could not be resolved through a generic helper' % name)
                continue
            ok = ('Sha%sVarCore' % bits) in selfty and bool(sizes) and all(t == selfty for t in sizes)
            why = '"%s" is answered by the impl for %s, which compares with the output size of %s' % (name, selfty[:60] + '..', [(t or '?')[:80] for t in sizes])
        rep.check(ok, 'R5', name + '/own-size', 'libherokubuildpack/src/inventory/sha2.rs', '"%s" belongs to the %s-bit hasher and compares with its own output size' % (name, bits), why)
    # ---- R4 (data flow) --------------------------------------------------------------------------------
    if len(de) == 1:
        str_de = lambda n: n.endswith("Deserialize<'de> for std::string::String>::deserialize")
        arg_ok = lambda args: len(args) == 1 and strip(args[0])[0] == 'call' and str_de(strip(args[0])[1]) and len(strip(args[0])[2]) == 1 and H.is_param(strip(args[0])[2][0], de[0], 0)
        ok, why = H.flow_through(prog, sl, de[0], lambda n: n in ('core::str::<impl str>::parse', 'std::str::FromStr::from_str') or n.endswith(' as std::str::FromStr>::from_str'), arg_ok)
        (rep.unproven if ok is None else (lambda *a: rep.check(ok, *a[:3], 'deserialize = parse(String::deserialize(d)), failing when parse fails', a[3])))(
            'R4', 'checksum/deserialize-flow', w(de[0]), 'Checksum::deserialize does not hand the deserialised string unchanged to parse: ' + why)
    if len(fr) == 1:
        ok, why = H.flow_through(prog, sl, fr[0], lambda n: n in ('toml::from_str', 'toml::de::from_str'), lambda args: len(args) == 1 and H.is_param(args[0], fr[0], 0))
        (rep.unproven if ok is None else (lambda *a: rep.check(ok, *a[:3], 'from_str = toml::from_str(s), failing when it fails', a[3])))(
            'R4', 'inventory/parse-flow', w(fr[0]), 'Inventory::from_str does not parse its argument unchanged: ' + why)
    if len(disp) == 1:
        from .lib.effects import Effects
        WR = {"std::fmt::Formatter::<'a>::write_str": ('WRITE', 0), "std::fmt::Formatter::<'a>::write_fmt": ('WRITE', 0), "std::fmt::Formatter::<'a>::pad": ('WRITE', 0),
              "std::fmt::Formatter::<'a>::write_char": ('WRITE', 0), 'std::fmt::Write::write_str': ('WRITE', 0), 'std::fmt::Write::write_fmt': ('WRITE', 0), 'std::fmt::Write::write_char': ('WRITE', 0)}
        E = Effects(prog, sl, vocab=WR)
        must = [e for e in E.expand(disp[0], 'must') if e.kind == 'WRITE']
        may = [e for e in E.expand(disp[0], 'may') if e.kind == 'WRITE']
        ok, why = len(must) == 1 and len(may) == 1 and not must[0].forall, '%d unconditional / %d possible writes to the formatter' % (len(must), len(may))
        if ok:
            e = must[0]
            ps = H.text_parts(sl, sl.inline_deep(e.args[1])) if e.args and len(e.args) == 2 and not e.call.name.endswith('::pad') else []
            t = strip(ps[0]) if len(ps) == 1 and not isinstance(ps[0], str) else ('unknown',)
            ok = H.is_param(e.args[0], disp[0], 1) and t[0] == 'call' and t[1] == 'toml::to_string' and len(t[2]) == 1 and H.is_param(t[2][0], disp[0], 0)
            why = 'writes %s' % [p if isinstance(p, str) else vstr(p)[:80] for p in ps]
        rep.check(ok, 'R4', 'inventory/display-flow', w(disp[0]), 'Display writes toml::to_string(self), once, and nothing else', 'Inventory Display: ' + why)
    # the data-flow obligations read values as they are assigned; `&mut self` methods applied to a local on the way
    # (dedup_by, make_ascii_lowercase, truncate, retain, ..) change the data behind that reading: none may occur
    for rule, subj, fl in (('R3', 'in-place', [fs]), ('R4', 'checksum/in-place', se[:1] + de[:1]), ('R4', 'inventory/in-place', fr[:1] + disp[:1])):
        mut = [m for f in fl for m in H.inplace_mutations(prog, f)]
        if mut or not fl:
            rep.unproven(rule, subj, w(fl[0]) if fl else '-', 'data is changed in place, which the value normal form does not follow: %s' % '; '.join(mut[:3]))
        else:
            rep.holds(rule, subj, w(fl[0]), 'no local is changed in place between reading the input and returning the result')
    # ---- R6 ------------------------------------------------------------------------------------------
    for ty in ('libherokubuildpack::inventory::Inventory', 'libherokubuildpack::inventory::artifact::Artifact',
               'libherokubuildpack::inventory::artifact::Os', 'libherokubuildpack::inventory::artifact::Arch'):
        short = ty.split('::')[-1]
        adt = prog.adts.get(ty)
        where = '%s:%s' % (adt['file'], adt['line']) if adt else '-'
        probs, unk = H.schema_problems(prog, sl, ty)
        if probs:
            rep.violated('R6', 'schema/' + short, where, '%s does not survive render + parse: %s' % (short, '; '.join(probs[:3])))
        elif unk:
            rep.unproven('R6', 'schema/' + short, where, 'schema of %s not understood: %s' % (short, '; '.join(unk[:3])))
        else:
            rep.holds('R6', 'schema/' + short, where, 'every field / variant is written under the key it is read back from; nothing is left out')
    # ---- R7 ------------------------------------------------------------------------------------------
    pu = prog.find(INV + r'push$')
    if len(pu) != 1:
        rep.unproven('R7', 'push', '-', 'Inventory::push not found')
    else:
        from .lib.effects import Effects
        f = pu[0]
        rep.analysed(f)
        mine = lambda v: strip(v)[0] == 'field' and strip(v)[2] == 'artifacts' and H.is_param(strip(v)[1], f, 0)
        E = Effects(prog, sl, vocab={'std::vec::Vec::<T, A>::push': ('APPEND', 0), 'std::vec::Vec::<T, A>::insert': ('APPEND', 0)})
        must = [e for e in E.expand(f, 'must') if e.kind == 'APPEND' and e.path is not None and mine(e.path)]
        ok = len(must) == 1 and not must[0].forall and H.is_param(must[0].args[-1], f, 1)
        # nothing else happens to the collection (read-only uses are fine)
        RO = ('::len', '::is_empty', '::iter', '::capacity', '::reserve', '::contains', '::as_slice', '::first', '::last', '::get')
        other = sorted({c.name for g in [f] + prog.closures_of(f) for c in g.calls if not c.indirect and c.args and c.name and mine(sl.operand(g, c.args[0]))
                        and not c.name.endswith(('::push', '::insert')) and not c.name.endswith(RO)}) if ok else []
        if ok and other:
            rep.unproven('R7', 'push', w(f), 'push also applies %s to self.artifacts' % other[:3])
        else:
            rep.check(ok, 'R7', 'push', w(f), 'push(artifact) appends artifact to self.artifacts on every path',
                      'push does not always add its argument to self.artifacts (%d unconditional insertions)' % len(must))
    # ---- R8 ------------------------------------------------------------------------------------------
    VR = 'libherokubuildpack::inventory::version::'
    bl = {m: prog.find(r'^<VR as %sArtifactRequirement<V, M>>::%s$' % (re.escape(VR), m)) for m in ('satisfies_version', 'satisfies_metadata')}
    for m, fl in bl.items():
        if len(fl) != 1:
            rep.unproven('R8', 'blanket/' + m, '-', 'blanket ArtifactRequirement impl not found')
            continue
        f = fl[0]
        rep.analysed(f)
        v = strip(sl.inline_deep(sl.local(f, 0)))
        if m == 'satisfies_metadata':
            ok = v == ('const', True)
        else:
            ok = v[0] == 'call' and v[1].endswith('VersionRequirement::satisfies') and len(v[2]) == 2 and H.is_param(v[2][0], f, 0) and H.is_param(v[2][1], f, 1)
        rep.check(ok, 'R8', 'blanket/' + m, w(f), 'a VersionRequirement accepts all metadata and the versions it is satisfied by',
                  'blanket %s returns %s' % (m, vstr(v)[:100]))
    for f in prog.find(r'<impl %sVersionRequirement<semver::Version> for semver::VersionReq>::satisfies$' % re.escape(VR)):
        rep.analysed(f)
        v = strip(sl.inline_deep(sl.local(f, 0)))
        ok = v[0] == 'call' and v[1] == 'semver::VersionReq::matches' and len(v[2]) == 2 and H.is_param(v[2][0], f, 0) and H.is_param(v[2][1], f, 1)
        rep.check(ok, 'R8', 'semver', w(f), 'the semver adapter is VersionReq::matches(self, version)', 'semver adapter returns %s' % vstr(v)[:120])
