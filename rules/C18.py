"""C18 — inventory resolution returns a maximal matching artifact; checksums round-trip.

Decided on a spelling-independent model of both resolvers (C18_helpers.select_model: iterator adapters, private helpers
around them and explicit accumulating loops reduce to the same description; decisions are CFG paths with private boolean
helpers / closures / Option combinators expanded):
  R1 sibling filters  an element of self.artifacts reaches the selection step exactly when
                      artifact.os == os && artifact.arch == arch && satisfies_version(&artifact.version) &&
                      satisfies_metadata(&artifact.metadata), in resolve and in partial_resolve alike
  R2 selection        resolve = max_by_key(.version), max_by(comparator) read as std's reduce table, or the equivalent
                      accumulation (first match seeds, a later element replaces unless the current one is strictly
                      greater); partial_resolve accumulates with the table
                      None -> item, Some(acc) & cmp(item, acc) in {Greater, Equal} -> item, otherwise -> acc,
                      both keys being `.version`; the accumulator starts from None and the whole sequence is visited,
                      so None is returned only for an empty filtered sequence
  R3 checksum acceptor decided on the outcomes of from_str (C18_helpers.ResultPaths: `?`, combinators + closures, match and
                      private helpers expand to the same decision paths): every Ok(Checksum{..}) outcome lies under
                      name_compatible(name) && length_compatible(decoded length) with name / value from split_once(':');
                      every outcome on which hex::decode failed is Err(InvalidValue(that error))
  R4 codec pair       Serialize = name ++ ":" ++ hex::encode(value) (format! or String building, text normal form),
                      Deserialize = String -> parse;
                      Display for Inventory = toml::to_string, FromStr = toml::from_str
  R5 digest impls     Sha256 <-> "sha256" / output_size(); Sha512 <-> "sha512" / output_size()
Not decided: maximality for unlawful PartialOrd impls; TOML round-trip equality (toml, hex crates).
"""
from . import C18_helpers as H
from .lib.paths import strip
from .lib.value import canon, vstr, walk

INV = r'^libherokubuildpack::inventory::Inventory::<V, D, M>::'
CK = 'libherokubuildpack::inventory::checksum::'


def _none_opt(v):
    return v[0] == 'agg' and v[2] == 'None'


def run(ctx, rep):
    prog, sl = ctx.prog, ctx.slicer
    for r, d in (('R1', 'resolve / partial_resolve use the same four-way filter'), ('R2', 'selection: max_by_key(.version) / partial fold table'),
                 ('R3', 'checksum accepted only with compatible name and length'), ('R4', 'checksum and inventory codec pairs'), ('R5', 'Sha256/Sha512 digest descriptors')):
        rep.rule(r, d)
    rep.not_decided = ['maximality under unlawful PartialOrd implementations', 'TOML / hex round-trip equality (toml, hex crates)']
    res = prog.find_one(INV + r'resolve$')
    pres = prog.find_one(INV + r'partial_resolve$')
    for f in (res, pres):
        rep.analysed(f)
    w = lambda f: '%s:%d' % (f.file, f.line)
    # Both resolvers are reduced to one model (C18_helpers): which collection is visited, under which tests an element
    # is handed to the selection step, how the accumulator starts, and what the step picks for every combination of
    # (accumulator empty / filled) x (outcome of comparing the element's key with the accumulator's key).  The model is
    # the same for iterator adapters, private helpers around them, and explicit loops.
    want = {('eq', '$1', 'artifact.os'), ('eq', '$2', 'artifact.arch'), ('satisfies_version', '$3', 'artifact.version'), ('satisfies_metadata', '$3', 'artifact.metadata')}
    filt, models = {}, {}
    for f in (res, pres):
        short = f.path.split('::')[-1]
        md = H.select_model(prog, sl, f)
        models[f.path] = md
        if md is None or (md.coll is None and not md.stages):
            rep.unproven('R1', short, w(f), 'no filter found: %s' % ('; '.join(md.problems) if md else 'neither an iterator pipeline nor an accumulating loop'))
            continue
        for g in md.fns:
            rep.analysed(g)
        try:
            conj, probs = H.predicate_of(md, f)
        except H.Giveup as e:
            conj, probs = None, [str(e)]
        struct = [p for p in md.problems if 'iterat' in p]
        src = strip(md.coll) if md.coll is not None else ('unknown',)
        src_ok = src[0] == 'field' and src[2] == 'artifacts' and strip(src[1])[0] == 'param' and strip(src[1])[1] == f.path and strip(src[1])[2] == 0
        filt[f.path] = frozenset(conj) if conj is not None and not probs else None
        rep.check(src_ok and not struct and not probs and conj == want, 'R1', short, w(f), 'filters self.artifacts by os, arch, version requirement and metadata requirement',
                  '%s filters %s with %s (expected the four tests %s)%s' % (short, vstr(src)[:40], sorted(conj) if conj else conj, sorted(want), ''.join('; ' + p for p in (struct + probs)[:3])))
        # the values the element is tested against are the query parameters
        caps = sorted({a for t in (conj or ()) for a in t[1:] if a.startswith('$')})
        rep.check(caps == ['$1', '$2', '$3'], 'R1', short + '/captures', w(f), 'the filter tests against (os, arch, requirement)', 'filter tests against %s' % caps)
    if len(filt) == 2:
        a, b = list(filt.values())
        rep.check(a == b and a is not None, 'R1', 'agreement', w(pres), 'both resolvers use the identical predicate set', 'resolve and partial_resolve disagree: %s vs %s' % (a and sorted(a), b and sorted(b)))
    # ---- R2 ------------------------------------------------------------------------------------------
    key_item = ('field', H.ITEM, 'version')
    md = models.get(res.path)
    ok, why = False, 'selection not understood'
    if md is not None and md.kind == 'max_by_key':
        ok = md.key is not None and strip(md.key) == key_item and not md.problems
        why = 'max_by_key keyed by %s%s' % (H.show(md.key) if md.key else None, ''.join('; ' + p for p in md.problems[:2]))
    elif md is not None and md.kind == 'table':
        # what std's max_by_key does: the first element seeds, a later element replaces unless the current one is greater
        uni = sorted(H.FULL_T)
        table, orient, probs = H.eval_table(md, uni)
        ok = md.init_none and not probs and not md.problems and table == H.expected_table(uni)
        why = 'starts from None: %s; table %s%s' % (md.init_none, H.table_str(table), ''.join('; ' + p for p in (probs + md.problems)[:3]))
    elif md is not None:
        why = 'resolve selects with %s' % md.kind
    rep.check(ok, 'R2', 'resolve/max_by_key', w(res), 'filter(..).max_by_key(|a| &a.version) (or the equivalent accumulation)', 'resolve selection: ' + why[:300])
    md = models.get(pres.path)
    if md is None or md.kind != 'table':
        rep.check(False, 'R2', 'partial/key', w(pres), '', 'partial_resolve selection is %s' % (vstr(strip(sl.local(pres, 0)))[:120] if md is None or md.form != 'loop' else md.kind))
    else:
        uni = sorted(H.FULL_P)
        table, orient, probs = H.eval_table(md, uni)
        keyp = [p for p in probs if p.startswith('compares')]
        rep.check(bool(orient) and not keyp, 'R2', 'partial/key', w(pres), 'partial selection over the filtered artifacts compares .version of the element with .version of the accumulator',
                  'partial_resolve selection is not keyed by .version: %s' % (keyp[:2] or 'no comparison found'))
        whole = not [p for p in md.problems if 'iterat' not in p]
        rep.check(bool(md.init_none) and whole, 'R2', 'partial/fold-init', w(pres), 'accumulation starts from None and runs over the whole sequence',
                  'accumulation shape: starts from None: %s%s' % (md.init_none, ''.join('; ' + p for p in md.problems[:3])))
        rep.extra['partial_fold_table'] = H.table_str(table)
        cmp_ok = orient <= {('partial', 'item-left')}
        good = table in (H.expected_table(uni), H.expected_table(uni, equal_keeps_acc=True))
        rep.check(good and cmp_ok and not probs, 'R2', 'partial/fold-table', w(pres), 'None -> item; Greater(/Equal) -> item; Less / incomparable -> acc; compares key(item) with key(acc)',
                  'partial fold table is %s (cmp operands ok: %s)%s' % (H.table_str(table), cmp_ok, ''.join('; ' + p for p in probs[:3])))
    # ---- R3 ------------------------------------------------------------------------------------------
    fs = prog.fn('<%sChecksum<D> as std::str::FromStr>::from_str' % CK)
    rep.analysed(fs)
    # from_str as its outcomes (C18_helpers.ResultPaths): every way to return Ok / Err with the decisions taken on the
    # way, `?`, and_then / map / map_err / ok_or closures, match / let-else and private helpers (tail-called, under
    # `?`, handed to a combinator) all expanded into the same primitive decisions in from_str's own terms
    try:
        rp, giveup = H.result_paths(prog, sl, fs), ''
    except H.Giveup as e:
        rp, giveup = [], '; outcomes of from_str not understood: %s' % e
    oks = [(atoms, p) for atoms, k, p in rp if k == 'ok']
    good = len(oks) >= 1
    vals = []
    for atoms, p in oks:
        ck = strip(sl.inline_deep(p))
        fl = dict(ck[3]) if ck[0] == 'agg' else {}
        name_v, val_v = fl.get('name', ('unknown',)), fl.get('value', ('unknown',))
        vals.append(val_v)
        split_ok = all(any(x[0] == 'call' and x[1] == 'core::str::<impl str>::split_once' and strip(x[2][1]) == ('const', ':') for x in walk(y)) for y in (name_v, val_v))
        # the decisions on the way to this Ok (private boolean helpers already looked through)
        tests = [(a[1], a[2]) for a in atoms if a[0] == 'bool']
        nm = [tv for tv, oc in tests if tv[0] == 'call' and tv[1].endswith('Digest::name_compatible') and oc is True]
        ln = [tv for tv, oc in tests if tv[0] == 'call' and tv[1].endswith('Digest::length_compatible') and oc is True]
        ln_ok = any(strip(tv[2][0])[0] == 'call' and strip(tv[2][0])[1].endswith('::len') for tv in ln)
        good = good and split_ok and bool(nm) and ln_ok
        rep.extra['checksum_guards'] = [H.atom_str(a) for a in atoms if a[0] == 'bool']
    rep.check(good, 'R3', 'acceptor', w(fs), 'Ok only under name_compatible(name) && length_compatible(value.len()), parts from split_once(\':\')',
              'checksum accepted without both compatibility checks' + giveup)
    # the decode whose payload becomes `value` has its error wrapped in InvalidValue and propagated: every outcome of
    # from_str on which hex::decode(..) failed is Err(InvalidValue(<that decode's error>)), and the failure is looked at
    # at all (there is such an outcome)
    inv = lambda y: (y[0] == 'agg' and y[2] == 'InvalidValue') or (y[0] == 'call' and y[1].endswith('::InvalidValue'))
    failed = [(k, p, a[1]) for atoms, k, p in rp for a in atoms if a[0] == 'res' and a[2] == 'err' and a[1][0] == 'call' and a[1][1] == 'hex::decode']
    dec_ok = bool(failed) and all(k == 'err' and p is not None and inv(strip(p)) and any(y[0] == 'unwrap_err' and canon(y[1]) == s for y in walk(p)) for k, p, s in failed)
    dec_ok = dec_ok and bool(vals) and all(any(z[0] == 'call' and z[1] == 'hex::decode' for z in walk(v)) for v in vals)
    rep.check(dec_ok, 'R3', 'hex-error', w(fs), 'hex decode error mapped to InvalidValue and propagated', 'hex decode error is not propagated as InvalidValue' + giveup)
    # ---- R4 ------------------------------------------------------------------------------------------
    se = prog.find(r'^<%sChecksum<D> as .*Serialize>::serialize$' % CK.replace('::', '::'))
    ok = len(se) == 1
    if ok:
        rep.analysed(se[0])
        c = [x for x in se[0].calls if x.decl and x.decl.endswith('Serializer::serialize_str')]
        ok = len(c) == 1
        if ok:
            # the text handed to serialize_str, as its pieces: format!(..), String building with push_str / push and a
            # private rendering helper (inline_deep) have the same normal form [self.name, ':', hex::encode(self.value)]
            tv = sl.inline_deep(sl.operand(se[0], c[0].args[1]))
            fm = next((x for x in walk(tv) if x[0] in ('fmt', 'concat')), None)
            ps = H.text_parts(sl, fm) if fm is not None else []
            own = lambda x, name: strip(x)[0] == 'field' and strip(x)[2] == name and strip(strip(x)[1])[0] == 'param' and strip(strip(x)[1])[1] == se[0].path
            ok = len(ps) == 3 and ps[1] == ':' and not isinstance(ps[0], str) and not isinstance(ps[2], str) and own(ps[0], 'name') and \
                strip(ps[2])[0] == 'call' and strip(ps[2])[1] == 'hex::encode' and len(strip(ps[2])[2]) == 1 and own(strip(ps[2])[2][0], 'value')
    rep.check(ok, 'R4', 'checksum/serialize', w(se[0]) if se else '-', 'serialises as "{name}:{hex(value)}"', 'Checksum serialisation format changed')
    de = prog.find(r"^<%sChecksum<D> as .*Deserialize<'de>>::deserialize$" % CK)
    ok = len(de) == 1 and any(any(c.full and 'parse::<libherokubuildpack::inventory::checksum::Checksum<D>>' in c.full for c in g.calls) for g in [de[0]] + prog.closures_of(de[0]))
    rep.check(ok, 'R4', 'checksum/deserialize', w(de[0]) if de else '-', 'deserialises through FromStr (same acceptor)', 'Checksum does not deserialize through parse')
    disp = prog.find(r'^<libherokubuildpack::inventory::Inventory<V, D, M> as std::fmt::Display>::fmt$')
    fr = prog.find(r'^<libherokubuildpack::inventory::Inventory<V, D, M> as std::str::FromStr>::from_str$')
    ok = len(disp) == 1 and any(c.name == 'toml::to_string' for c in disp[0].calls) and len(fr) == 1 and any(c.name in ('toml::from_str', 'toml::de::from_str') for c in fr[0].calls)
    rep.check(ok, 'R4', 'inventory/codec', w(disp[0]) if disp else '-', 'Display = toml::to_string(self), FromStr = toml::from_str(s)', 'inventory codec pair changed')
    # ---- R5 ------------------------------------------------------------------------------------------
    for algo, name in (('sha2::Sha256', 'sha256'), ('sha2::Sha512', 'sha512')):
        # sha2 re-exports CoreWrapper types; match by the impl's self type rendering
        impls = [i for i in prog.impls if i['trait'] == CK + 'Digest' and i['crate'] == 'libherokubuildpack']
        nc = [f for f in prog.fns.values() if f.impl_trait == CK + 'Digest' and f.path.endswith('::name_compatible')]
        found = False
        for f in nc:
            v = strip(sl.local(f, 0))
            if v[0] == 'call' and v[1].endswith('::eq') and strip(v[2][1]) == ('const', name):
                lc = prog.fns.get(f.path[:-len('name_compatible')] + 'length_compatible')
                lv = strip(sl.local(lc, 0)) if lc else ('unknown',)
                found = lv[0] == 'bin' and lv[1] == 'Eq' and strip(lv[2])[0] == 'param' and strip(lv[3])[0] == 'call' and strip(lv[3])[1].endswith('output_size')
                rep.analysed(f)
        rep.check(found, 'R5', name, 'libherokubuildpack/src/inventory/sha2.rs', '"%s" with its digest\'s output_size()' % name, 'no Digest impl pairing "%s" with output_size()' % name)
