"""C04 — applying a layer environment follows the CNB modification rules.

Decided structurally:
  R1 scope table       per Scope variant the ordered list of deltas applied: All->[all];
                       Build->[all, build, layer_paths_build]; Launch->[all, launch, layer_paths_launch];
                       Process(p)->[all, process[p] if present]; folded left-to-right with the running env
  R2 behaviour order   the rank table in Ord for ModificationBehavior sorts the variants in the
                       lexicographic order of their file suffixes (the lifecycle applies files by name)
  R3 frame             apply takes &self and &Env and returns an owned Env; no interior mutability in
                       Env / LayerEnv / LayerEnvDelta
  R4 ordered entries   entries live in a BTreeMap keyed by (behaviour, name); insert is the only writer
  R5 arm shapes        per behaviour: override = unguarded insert of the value; default = insert guarded by
                       !contains_key; append = prev [+ delim if prev non-empty] + value; prepend = value
                       [+ delim + prev if prev non-empty]; delimiter = no insert; delimiter looked up
                       under (Delimiter, same name)
Not decided: the resulting byte strings for all value combinations (value level).
"""
from . import layer_env_common as L
from .lib.guards import conditions
from .lib.paths import strip
from .lib.value import vstr, walk
from .lib.tables import field_accesses

SPEC_SCOPE = {'All': ['all'], 'Build': ['all', 'build', 'layer_paths_build'], 'Launch': ['all', 'launch', 'layer_paths_launch'],
              'Process': ['all', 'process[scope.process]?']}


def sym(f, v):
    """classify a value inside LayerEnvDelta::apply"""
    v = strip(v)
    if v[0] == 'concat':   # the string being built: classify what it was before the pushes
        v = strip(v[1])
    coll, proj = L.loop_element(v)
    if coll is not None and L.self_field(f, coll) == 'entries':
        return {('0', '1'): 'NAME', ('1',): 'VALUE', ('0', '0'): 'BEHAVIOUR'}.get(proj, 'ELEM' + str(proj))
    if v[0] == 'call':
        n = v[1]
        if n == 'std::ffi::OsString::new':
            return 'NEW'
        if n.endswith(('unwrap_or_default', 'map_or_else', 'unwrap_or_else', 'map_or')) and v[2] and n.startswith('std::option::Option::'):
            # the previous value, empty when unset: get(NAME).cloned().unwrap_or_default() and its equivalents
            g = strip(v[2][0])
            rest = [strip(x) for x in v[2][1:]]
            fresh = lambda x: (x[0] == 'fnitem' and x[1].endswith(('OsString::new', 'Default>::default', 'Default::default'))) or \
                (x[0] == 'call' and x[1].endswith(('OsString::new', 'Default::default')))
            keep = lambda x: x[0] == 'fnitem' and x[1].endswith(('Clone>::clone', 'Clone::clone', 'ToOwned>::to_owned', 'to_os_string', 'to_owned'))
            ok_rest = (not rest) or (len(rest) == 2 and fresh(rest[0]) and keep(rest[1])) or (len(rest) == 1 and fresh(rest[0]))
            if ok_rest and g[0] == 'call' and g[1] == 'libcnb::env::Env::get' and sym(f, g[2][1]) == 'NAME':
                return 'PREV'
        if n == L.DELIM_FOR and sym(f, v[2][1]) == 'NAME':
            return 'DELIM'
    return vstr(v)[:60]


def guard_str(g, cd):
    """canonical rendering of a boolean guard inside LayerEnvDelta::apply: equivalent spellings give the same string
    (`!v.is_empty()` / `v.len() != 0`; `!env.contains_key(n)` / `env.get(n).is_none()`)"""
    if cd.kind == 'variant' and cd.enum == 'std::option::Option' and cd.subject is not None:
        sv = strip(cd.subject)
        if sv[0] == 'call' and sv[1] == 'libcnb::env::Env::get' and len(cd.outcome) == 1:
            return 'contains_key(%s)==%s' % (sym(g, sv[2][1]), next(iter(cd.outcome)) == 'Some')
        return None
    if cd.kind != 'bool':
        return None
    v, oc = cd.value, cd.outcome
    if v[0] == 'bin' and v[1] in ('Ne', 'Eq', 'Gt') and strip(v[3]) == ('const', 0) and strip(v[2])[0] == 'call' and strip(v[2])[1].endswith('::len'):
        empty = oc if v[1] == 'Eq' else (not oc)
        return 'is_empty(%s)==%s' % (sym(g, strip(v[2])[2][0]), empty)
    if v[0] != 'call':
        return None
    n = v[1].split('::')[-1]
    if n in ('is_none', 'is_some') and v[1].startswith('std::option::Option::'):
        inner = strip(v[2][0])
        if inner[0] == 'call' and inner[1] == 'libcnb::env::Env::get':
            present = oc if n == 'is_some' else (not oc)
            return 'contains_key(%s)==%s' % (sym(g, inner[2][1]), present)
    if n in ('is_empty', 'contains_key'):
        return '%s(%s)==%s' % (n, sym(g, v[2][0 if n == 'is_empty' else 1]), oc)
    return '%s==%s' % (v[1], oc)


def run(ctx, rep):
    prog, sl = ctx.prog, ctx.slicer
    L.resolve_roles(prog, sl)
    rep.rule('R1', 'Scope -> ordered delta list table of LayerEnv::apply, folded in order')
    rep.rule('R2', 'Ord for ModificationBehavior ranks = lexicographic order of the file suffixes')
    rep.rule('R3', 'apply cannot modify its inputs (shared references, owned result, no interior mutability)')
    rep.rule('R4', 'entries are kept in an ordered map keyed by (behaviour, name); insert is the only writer')
    rep.rule('R5', 'per-behaviour arm shapes of LayerEnvDelta::apply')
    rep.not_decided = ['resulting byte strings for all value combinations', 'correctness of OsString::push']
    # ---- R1 ----------------------------------------------------------------------------------------
    f, table, info = L.apply_scope_table(prog, sl)
    rep.analysed(f)
    where = '%s:%d' % (f.file, f.line)
    rep.extra['scope_table'] = table
    for variant, want in SPEC_SCOPE.items():
        got = table.get(variant)
        rep.check(got == want, 'R1', 'apply/' + variant, where, '%s -> %s' % (variant, want),
                  'Scope::%s applies deltas %s, the CNB rules require %s' % (variant, got, want))
    for variant in table:
        if variant not in SPEC_SCOPE:
            rep.violated('R1', 'apply/extra/' + str(variant), where, 'unexpected scope arm %s' % variant)
    # folded left to right over the list, starting from the input env. Accepted idioms:
    #   deltas.iter().fold(env.clone(), |env, delta| delta.apply(&env))
    #   let mut r = env.clone(); for delta in deltas { r = delta.apply(&r) }; r
    rv = strip(sl.local(f, 0))
    rev = any(x[0] == 'call' and x[1].split('::')[-1].lower() in ('rev', 'reverse', 'sort', 'sort_by', 'sort_by_key') for x in walk(rv)) or \
        any((c.name or '').split('::')[-1] in ('rev', 'reverse', 'sort', 'sort_by', 'sort_by_key', 'swap', 'rotate_left', 'rotate_right') for c in f.calls)
    is_env = lambda v: strip(v)[0] == 'param' and strip(v)[1] == f.path and strip(v)[2] == 2
    shape = None
    if rv[0] == 'call' and rv[1] == 'std::iter::Iterator::fold' and len(rv[2]) == 3:
        it, init, cl = rv[2]
        cl = strip(cl)
        body_ok = False
        if cl[0] == 'closure' and cl[1] in prog.fns:
            body = prog.fns[cl[1]]
            bv = strip(sl.local(body, 0))
            body_ok = (bv[0] == 'call' and bv[1] == L.DAPPLY and strip(bv[2][0])[0] == 'param' and strip(bv[2][0])[2] == 2
                       and strip(bv[2][1])[0] == 'param' and strip(bv[2][1])[2] == 1)
        if is_env(init) and body_ok:
            shape = 'fold'
    elif rv[0] == 'phi':
        alts = [strip(a) for a in rv[1]]
        steps = [a for a in alts if a[0] == 'call' and a[1] == L.DAPPLY]
        inits = [a for a in alts if is_env(a)]
        if len(steps) == 1 and len(inits) == 1 and len(alts) == 2:
            coll, proj = L.loop_element(steps[0][2][0])
            calls = [c for c in f.calls if c.name == L.DAPPLY]
            if coll is not None and len(calls) == 1 and f.in_loop(calls[0].bb):
                shape = 'loop'
    rep.check(shape is not None and not rev, 'R1', 'apply/fold', where, 'deltas applied one after the other in list order, starting from the input env (%s)' % shape,
              'deltas are not folded left-to-right from the input env: ' + vstr(rv)[:160])
    # ---- R2 ----------------------------------------------------------------------------------------
    ifn, ranks = L.behaviour_index_table(prog, sl)
    wd, ws, winfo = L.writer_suffix_table(prog, sl)
    if ifn is None or len(ranks) != 5:
        rep.unproven('R2', 'rank-table', 'libcnb/src/layer_env.rs', 'rank table of Ord for ModificationBehavior not recognised: %s' % ranks)
    else:
        rep.analysed(ifn)
        by_rank = sorted(ranks, key=lambda v: ranks[v])
        by_suffix = sorted(ws, key=lambda v: ws[v])
        rep.check(by_rank == by_suffix and len(set(ranks.values())) == 5, 'R2', 'rank-table', '%s:%d' % (ifn.file, ifn.line),
                  'rank order %s = suffix order' % by_rank,
                  'behaviours are applied in rank order %s but files are applied in suffix order %s' % (by_rank, by_suffix))
        cmpf = prog.fn('<libcnb::layer_env::ModificationBehavior as std::cmp::Ord>::cmp')
        rv = strip(sl.local(cmpf, 0))
        # b.cmp(a).reverse() is a.cmp(b)
        while rv[0] == 'call' and rv[1].endswith('Ordering::reverse') and len(rv[2]) == 1 and strip(rv[2][0])[0] == 'call' \
                and strip(rv[2][0])[1].endswith('::cmp') and len(strip(rv[2][0])[2]) == 2:
            inner = strip(rv[2][0])
            rv = ('call', inner[1], (inner[2][1], inner[2][0]), inner[3] if len(inner) > 3 else None)
        good = (rv[0] == 'call' and rv[1].endswith('::cmp') and len(rv[2]) == 2 and
                all(strip(a)[0] == 'call' and strip(a)[1] == ifn.path for a in rv[2]) and
                strip(strip(rv[2][0])[2][0])[2] == 0 and strip(strip(rv[2][1])[2][0])[2] == 1)
        rep.check(good, 'R2', 'cmp', '%s:%d' % (cmpf.file, cmpf.line), 'cmp = rank(self).cmp(rank(other))',
                  'cmp is not rank(self).cmp(rank(other)): ' + vstr(rv)[:120])
    # ---- R3 ----------------------------------------------------------------------------------------
    sig_ok = f.args == ['&libcnb::layer_env::LayerEnv', 'libcnb::layer_env::Scope', '&libcnb::env::Env'] and f.ret == 'libcnb::env::Env'
    rep.check(sig_ok, 'R3', 'signature', where, 'apply(&self, Scope, &Env) -> Env', 'apply signature changed: %s -> %s' % (f.args, f.ret))
    for adt in ('libcnb::env::Env', 'libcnb::layer_env::LayerEnv', 'libcnb::layer_env::LayerEnvDelta'):
        a = prog.adt(adt)
        bad = [fl['name'] for v in a['variants'] for fl in v['fields']
               if any(t in fl['ty'] for t in ('Cell<', 'RefCell<', 'Mutex<', 'RwLock<', 'Atomic', 'UnsafeCell', '*mut', 'Rc<', 'Arc<'))]
        rep.check(not bad, 'R3', 'no-interior-mutability/' + adt.split('::')[-1], '%s:%d' % (a['file'], a['line']),
                  'no interior mutability', 'fields with interior mutability / sharing: %s' % bad)
    # ---- R4 ----------------------------------------------------------------------------------------
    d = prog.adt('libcnb::layer_env::LayerEnvDelta')
    ety = [fl['ty'] for v in d['variants'] for fl in v['fields'] if fl['name'] == 'entries']
    rep.check(bool(ety) and ety[0].startswith('std::collections::BTreeMap<(libcnb::layer_env::ModificationBehavior, std::ffi::OsString)'),
              'R4', 'container', '%s:%d' % (d['file'], d['line']), 'entries: BTreeMap<(behaviour, name), value>',
              'entries are not kept in an ordered map keyed by (behaviour, name): %s' % ety)
    writers = sorted({fn.path for fn, bi, how in field_accesses(prog, 'entries', 'libcnb::layer_env::LayerEnvDelta')
                      if how in ('refmut', 'write') and not fn.derived})
    rep.check(writers == [L.INSERT], 'R4', 'single-writer', '%s:%d' % (d['file'], d['line']),
              'LayerEnvDelta::insert is the only writer of entries', 'entries are mutated by %s' % writers)
    arm_rules(ctx, rep)


class _ArmFilter:
    """forwards only the instances whose subject names one of the wanted arms"""

    def __init__(self, rep, only):
        self._rep, self._only = rep, only

    def _want(self, subject):
        return any(subject.endswith('/' + a) or ('/' + a + '/') in subject for a in self._only)

    def check(self, cond, rule, subject, *a, **k):
        return self._rep.check(cond, rule, subject, *a, **k) if self._want(subject) else cond

    def unproven(self, rule, subject, *a, **k):
        if self._want(subject):
            self._rep.unproven(rule, subject, *a, **k)

    def __getattr__(self, n):
        return getattr(self._rep, n)


def arm_rules(ctx, rep, rule='R5', only=None):
    """per-behaviour arm shapes of LayerEnvDelta::apply (shared with C10 for the Prepend / Delimiter arms)"""
    prog, sl = ctx.prog, ctx.slicer
    L.resolve_roles(prog, sl)
    if only is not None:
        rep = _ArmFilter(rep, only)
    g = prog.fn(L.DAPPLY)
    rep.analysed(g)
    gw = '%s:%d' % (g.file, g.line)
    arms = {}
    rpo = g._rpo()
    for c in g.calls:
        if c.indirect or c.name not in ('std::ffi::OsString::push', 'libcnb::env::Env::insert'):
            continue
        conds = conditions(g, c.bb, sl)
        var = [cd for cd in conds if cd.kind == 'variant' and cd.enum == L.MB]
        if not var or len(var[-1].outcome) != 1:
            rep.unproven(rule, 'unclassified/' + c.name, c.where(), 'mutation outside a behaviour arm')
            continue
        arm = next(iter(var[-1].outcome))
        bs = sym(g, var[-1].subject)
        if bs != 'BEHAVIOUR':
            rep.unproven(rule, arm + '/dispatch', c.where(), 'arm is selected on %s, not on the entry\'s behaviour' % bs)
        guards = []
        for cd in conds:
            gs = guard_str(g, cd)
            if gs is not None:
                guards.append(gs)
        depth = rpo.index(c.bb) if c.bb in rpo else 10 ** 6
        if c.name.endswith('push'):
            arms.setdefault(arm, []).append((depth, 'push', sym(g, sl.operand(g, c.args[0])), sym(g, sl.operand(g, c.args[1])), tuple(guards)))
        else:
            arms.setdefault(arm, []).append((depth, 'insert', sym(g, sl.operand(g, c.args[1])), sym(g, sl.operand(g, c.args[2])), tuple(guards)))
    shapes = {a: [x[1:] for x in sorted(v, key=lambda x: x[0])] for a, v in arms.items()}
    rep.extra['arm_shapes'] = {a: [list(map(str, s)) for s in v] for a, v in shapes.items()}
    NE = 'is_empty(PREV)==False'
    # the value finally inserted, as a concatenation: [base] + pushed parts (each with its guards). The accumulator
    # may start as a fresh OsString (NEW, contributes nothing), as the previous value or as a clone of the entry value.
    concat = {}
    for arm, items in shapes.items():
        ins = [x for x in items if x[0] == 'insert']
        if len(ins) != 1:
            concat[arm] = ('?', '%d inserts' % len(ins))
            continue
        acc = ins[0][2]
        seq = [] if acc == 'NEW' else [(acc, ())]
        for kind, recv, val, guards in items:
            if kind == 'push':
                if recv != acc:
                    seq.append(('push-on-other:' + str(recv), guards))
                else:
                    seq.append((val, guards))
        concat[arm] = (ins[0][1], tuple(seq), ins[0][3])
    rep.extra['arm_values'] = {a: str(v) for a, v in concat.items()}
    want = {
        'Override': [('NAME', (('VALUE', ()),), ())],
        'Default': [('NAME', (('VALUE', ()),), ('contains_key(NAME)==False',))],
        'Append': [('NAME', (('PREV', ()), ('DELIM', (NE,)), ('VALUE', ())), ())],
        'Prepend': [('NAME', (('VALUE', ()), ('DELIM', (NE,)), ('PREV', (NE,))), ()),
                    ('NAME', (('VALUE', ()), ('DELIM', (NE,)), ('PREV', ())), ())],
    }
    for arm, w in want.items():
        got = concat.get(arm)
        rep.check(got in w, rule, 'shape/' + arm, gw, '%s: %s' % (arm, w[0]), '%s arm computes %s, the CNB rule is %s' % (arm, got, w[0]))
    # the insert of an arm happens on EVERY path through the arm (an early `continue` under a compound condition is
    # not visible as a dominating guard): from the arm's entry no path reaches the next iteration without the insert,
    # except — for Default — the `contains_key == true` edge
    from .lib.guards import always_through
    from .lib.effects import find_loops
    loops = [L_ for L_ in find_loops(g, sl)]
    for arm in ('Override', 'Default', 'Append', 'Prepend'):
        ins = [c for c in g.calls if c.name == 'libcnb::env::Env::insert' and
               any(cd.kind == 'variant' and cd.enum == L.MB and cd.outcome == frozenset({arm}) for cd in conditions(g, c.bb, sl))]
        if len(ins) != 1 or not loops:
            continue
        c = ins[0]
        armc = [cd for cd in conditions(g, c.bb, sl) if cd.kind == 'variant' and cd.enum == L.MB][-1]
        loop = [L_ for L_ in loops if c.bb in L_.body]
        if not loop:
            rep.unproven(rule, 'always/' + arm, c.where(), 'insert is not inside the entry loop')
            continue
        skip = []
        if arm == 'Default':
            for cd in conditions(g, c.bb, sl):
                if (guard_str(g, cd) or '').startswith('contains_key(NAME)=='):
                    t = g.blocks[cd.sw_bb]['t']
                    for tb in set([b for _, b in t['targets']] + [t['else']]):
                        if tb != cd.target:
                            skip.append((cd.sw_bb, tb))
        ends = [loop[0].header] + list(loop[0].exit_bb) + g.return_blocks()
        ok = always_through(g, armc.target, c.bb, ends, skip)
        rep.check(ok, rule, 'always/' + arm, c.where(), '%s: the variable is updated on every path through the arm' % arm,
                  '%s entries can be skipped: some path through the arm reaches the next entry without the insert (e.g. an early `continue`)' % arm)
    rep.check('Delimiter' not in shapes, rule, 'shape/Delimiter', gw, 'Delimiter entries change no variable',
              'Delimiter arm mutates the environment: %s' % shapes.get('Delimiter'))
    # delimiter lookup
    df = prog.fn(L.DELIM_FOR)
    rep.analysed(df)
    rv = strip(sl.local(df, 0))
    good = False
    if rv[0] == 'call' and rv[1].endswith('unwrap_or_default'):
        gv = strip(rv[2][0])
        if gv[0] == 'call' and gv[1].endswith('::get') and L.self_field(df, gv[2][0]) == 'entries':
            kv = strip(gv[2][1])
            good = (kv[0] == 'tuple' and strip(kv[1][0])[0] == 'agg' and strip(kv[1][0])[2] == 'Delimiter'
                    and strip(kv[1][1])[0] == 'param' and strip(kv[1][1])[2] == 1)
    rep.check(good, rule, 'delimiter-lookup', '%s:%d' % (df.file, df.line), 'delimiter = entries[(Delimiter, name)] or empty',
              'delimiter lookup is not entries[(Delimiter, name)].unwrap_or_default(): ' + vstr(rv)[:140])
