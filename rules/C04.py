"""C04 — applying a layer environment follows the CNB modification rules.

Decided structurally, by evaluating the two apply functions once per case of the rule table (C04_helpers) instead of
recognising one spelling of them:
  R1 scope table       per Scope variant the ordered list of deltas applied: All->[all];
                       Build->[all, build, layer_paths_build]; Launch->[all, launch, layer_paths_launch];
                       Process(p)->[all, process[p] if present]; folded left-to-right with the running env.
                       LayerEnv::apply is sliced with the scope fixed (definitions / pushes of other arms vanish, private
                       helpers inlined); the result must be a fold / loop / nest of delta applications from the input env
                       over an ordered collection (array, vec + push/extend, once/chain, Option, helper result).
                       In-place applications (`d.apply_in_place(&mut acc)`, straight-line, under `if let Some`, in a loop,
                       or inside a private helper that is handed `&mut acc`) are put into the same functional form
                       (PSlicer.env_steps) — refused when anything reads the accumulator before a later update; apply
                       calling itself for another literal scope (`self.apply(Scope::All, env)`) contributes that scope's
                       list.  An operand that is a delta without entries kept as a null object (`LayerEnvDelta::new()` in
                       a local nothing is inserted into) contributes no delta — applying it is the identity by R5 / R6 —
                       and `map.get(p).unwrap_or(&empty)` is the delta under p when present (ScopeEval.labels).
                       A list that cannot be read off is UNPROVEN, a different list VIOLATED
  R2 behaviour order   cmp, with its private rank helper made transparent, is rank(self).cmp(rank(other)) for one
                       constant table (or the discriminants), and the ranks sort the variants in the lexicographic
                       order of their file suffixes (the lifecycle applies files by name); the suffixes are read off
                       the file name of the writer's WRITE effect — also when the name is an element of a list of
                       planned files computed first (C04_helpers.planned_suffix_table), and when behaviour -> suffix is a
                       lookup in a literal table of (behaviour, suffix) rows instead of a match
                       (C04_helpers.table_lookup_select: distinct literal keys, derived equality, total when a fallback
                       is ignored; constant text between name and suffix counts as part of the suffix)
  R3 frame             apply takes &self and &Env and returns an owned Env; no interior mutability in
                       Env / LayerEnv / LayerEnvDelta
  R4 ordered entries   entries live in a BTreeMap keyed by (behaviour, name); insert is the only writer
  R5 arm shapes        for every (behaviour) x (variable unset / empty / non-empty) x (delimiter entry present / absent):
                       the inserts performed on the feasible paths of one entry's application are exactly the rule —
                       override: NAME := VALUE; default: NAME := VALUE only when unset; append: PREV [+ DELIM] + VALUE;
                       prepend: VALUE [+ DELIM + PREV] (delimiter only when PREV is non-empty, DELIM = the delta's
                       (Delimiter, same name) entry or nothing); delimiter: no insert — on every path (always/<arm>);
                       no path of one entry's application leaves the entry loop (`break`): the entries that sort later
                       would not be applied
  R6 running env       every Env that is read or written while a delta is applied (in the core function, its closures
                       and the private helpers it hands an environment to) is the one environment being built: it
                       starts as the (clone of the) input env, and is what is returned.  Decided on where a reference
                       comes from (MIR local / parameter / captured variable), because the value slicer sees through
                       clone(): `env.get(name)` and `result_env.get(name)` are equal values but different objects once
                       an earlier entry of the same delta has been applied.  A copy of the input env returned on a path
                       taken only when the delta has no entries (`if self.entries.is_empty() { return env.clone() }`)
                       is the environment the zero entries were applied to.  When the per-entry loop itself was not
                       understood (R5 says why), a second environment is reported UNPROVEN, not VIOLATED
  R7 env model         the model R5 evaluates the rules over is what libcnb/src/env.rs implements: Env::get is the
                       plain lookup (None iff unset), Env::contains_key is presence (an empty string is set),
                       Env::insert stores the value under the key on every path, Clone is a faithful copy
  R8 insert routing    LayerEnv::insert, evaluated per Scope variant like R1, hands (behaviour, name, value) unchanged
                       to the delta that LayerEnv::apply folds for that scope (All->all, Build->build, Launch->launch,
                       Process(p)->process[p], created empty when missing and kept when present); LayerEnvDelta::insert
                       is entries[(behaviour, name)] = value; chainable_insert = insert, then self; apply_to_empty =
                       apply to an environment without variables
Spelling independence (C04_helpers): the per-delta application is a family of ownership variants (apply(&env) =
apply_owned(env.clone()) = { let mut r = env.clone(); apply_in_place(&mut r); r }, delta_family — the bridges are
verified on which environment object is handed on and handed back); the environment may be threaded through by-value
helpers in the entry loop / fold (`env = self.apply_entry(env, ..)`: ArmCase.is_env on values, EnvObjects on
objects); the entry loop may range over an order-preserving filter / map view of the
entries nested in a loop over a literal behaviour table that is sorted like the map and never left early (EntryView),
or over a view whose stages (filter / map / filter_map, lazy or collected first) are evaluated per case — whether an
entry of the case is visited at all and *what the loop element is* for it (`filter_map(|((b, n), v)| match b { Override =>
Some(Op::Set { n, v }), .., Delimiter => None })`: the literal operation is substituted for the element, so a later
`match op` in a private `execute` is decided like the match on the behaviour; EntryView.bind_case / ArmCase.refine) —
provided the stages do not consult the environment (they run before the entries are applied);
tested values that merge several arms are re-sliced under the case (Spec.edge_state); a variable may be updated in
place through `&mut` its stored string (map.entry(k).or_default() / or_insert_with, pushes, mem::take) — what the
string holds when the entry has been applied is what an insert would have stored (ArmCase.slot).
Staged application (C04_helpers.Overlay): the entry loop may write no environment at all but stage the new values in a
name -> string map of its own that starts empty, is only read with get / contains_key and changed with insert, and is
written out — every (key, value), unconditionally, behind the entry loop and before every return — into the copy of the
input env that is returned.  The environment built so far is then the input env overlaid with that map: every set case
is evaluated twice (the variable's value is staged / is in the input env: ArmCase.where), a lookup in the staging map and
a lookup in the input env are decided separately (a staged variable's value in the input env is stale = unknown), so
`staged.get(k).or_else(|| env.get(k))`, `.or(..)`, a match / if-let chain and `contains_key` on both layers are the
same lookup, and a rule that consults one layer only is a shape violation.
Not decided: the resulting byte strings for all value combinations (value level).
"""
from . import layer_env_common as L
from . import C04_helpers as H
from .lib.paths import strip
from .lib.value import vstr, walk
from .lib.tables import field_accesses

SPEC_SCOPE = {'All': ['all'], 'Build': ['all', 'build', 'layer_paths_build'], 'Launch': ['all', 'launch', 'layer_paths_launch'],
              'Process': ['all', 'process[scope.process]?']}


rank_table = H.rank_table      # (moved to the helpers: the entry loop analysis needs the ranks as well)


def run(ctx, rep):
    prog, sl = ctx.prog, ctx.slicer
    L.resolve_roles(prog, sl)
    rep.rule('R1', 'Scope -> ordered delta list table of LayerEnv::apply, folded in order')
    rep.rule('R2', 'Ord for ModificationBehavior ranks = lexicographic order of the file suffixes')
    rep.rule('R3', 'apply cannot modify its inputs (shared references, owned result, no interior mutability)')
    rep.rule('R4', 'entries are kept in an ordered map keyed by (behaviour, name); insert is the only writer')
    rep.rule('R5', 'per-behaviour arm shapes of LayerEnvDelta::apply')
    rep.not_decided = ['resulting byte strings for all value combinations', 'correctness of OsString::push']
    # ---- R1 ----------------------------------------------------------------------------------------
    # one evaluation of LayerEnv::apply per Scope variant (C04_helpers.ScopeEval): with the scope fixed, the returned
    # value must be a left fold of the delta application over an ordered collection, starting from the input env —
    #   deltas.iter().fold(env.clone(), |env, delta| delta.apply(&env))
    #   let mut r = env.clone(); for delta in deltas { r = delta.apply(&r) }; r
    #   let mut r = self.all.apply(env); for delta in <helper / Option chain> { r = delta.apply(&r) }; r
    # are the same list of deltas; a delta looked up under the process name counts as `process[scope.process]?`
    try:
        f, table, why, shapes = H.scope_tables(prog)
    except Exception as e:      # an unexpected program shape: every R1 instance fails closed, the other rules still run
        f = prog.fn(L.APPLY)
        table, shapes = {}, {}
        why = {v: 'evaluation failed: %s: %s' % (type(e).__name__, str(e)[:80]) for v in SPEC_SCOPE}
    rep.analysed(f)
    where = '%s:%d' % (f.file, f.line)
    rep.extra['scope_table'] = table
    for variant, want in SPEC_SCOPE.items():
        got = table.get(variant)
        if got is None:
            # not a VIOLATED: the list of deltas could not be read off this spelling (the reason says what was met)
            rep.unproven('R1', 'apply/' + variant, where, 'Scope::%s: the ordered list of deltas applied was not determined (%s); the CNB rules require %s' %
                         (variant, why.get(variant) or 'not evaluated', want))
            continue
        rep.check(got == want, 'R1', 'apply/' + variant, where, '%s -> %s' % (variant, want),
                  'Scope::%s applies deltas %s, the CNB rules require %s%s' % (variant, got, want, (' (%s)' % why.get(variant)) if why.get(variant) else ''))
    for variant in table:
        if variant not in SPEC_SCOPE:
            rep.violated('R1', 'apply/extra/' + str(variant), where, 'unexpected scope arm %s' % variant)
    rv = strip(sl.local(f, 0))
    rev = any(x[0] == 'call' and x[1].split('::')[-1].lower() in H.ORDER_CHANGING for x in walk(sl.inline_deep(rv, keep=tuple(sorted(H.delta_family(prog)[1]) or (L.DAPPLY,))))) or \
        bool(H.order_changing_calls(prog, f))
    folded = all(table.get(v) is not None for v in SPEC_SCOPE)
    if not folded and not rev:
        rep.unproven('R1', 'apply/fold', where, 'not recognised as deltas folded left-to-right from the input env: %s' %
                     ('; '.join(sorted({str(w) for w in why.values() if w})) or vstr(rv)[:160]))
    else:
        rep.check(folded and not rev, 'R1', 'apply/fold', where,
                  'deltas applied one after the other in list order, starting from the input env (%s)' % '/'.join(sorted({str(x) for x in shapes.values() if x}) or ['nested']),
                  'deltas are not folded left-to-right from the input env: %s' % ('; '.join(sorted({str(w) for w in why.values() if w})) or 'the order of the collection is changed'))
    # ---- R2 ----------------------------------------------------------------------------------------
    # cmp, with the private rank helper (a nested fn, a method on the enum, ..) made transparent, must be
    # rank(self).cmp(&rank(other)) for one constant table rank: variant -> integer
    wd, ws, winfo = H.suffix_table(prog, sl)
    cmpf = prog.fn('<libcnb::layer_env::ModificationBehavior as std::cmp::Ord>::cmp')
    ifn, ranks, good, shown = rank_table(prog, sl, cmpf)
    if len(ranks) != 5:
        rep.unproven('R2', 'rank-table', 'libcnb/src/layer_env.rs', 'rank table of Ord for ModificationBehavior not recognised: %s' % ranks)
    elif len(ws) != 5:
        rep.unproven('R2', 'rank-table', 'libcnb/src/layer_env.rs', 'the file suffixes the per-directory writer gives the five behaviours were not '
                     'recognised (%s), so the rank order %s cannot be compared with the order of the file names' % (ws, sorted(ranks, key=lambda v: ranks[v])))
    else:
        rep.analysed(ifn or cmpf)
        at = ifn or cmpf
        by_rank = sorted(ranks, key=lambda v: ranks[v])
        by_suffix = sorted(ws, key=lambda v: ws[v])
        rep.check(by_rank == by_suffix and len(set(ranks.values())) == 5, 'R2', 'rank-table', '%s:%d' % (at.file, at.line),
                  'rank order %s = suffix order' % by_rank,
                  'behaviours are applied in rank order %s but files are applied in suffix order %s' % (by_rank, by_suffix))
        rep.check(good, 'R2', 'cmp', '%s:%d' % (cmpf.file, cmpf.line), 'cmp = rank(self).cmp(rank(other))',
                  'cmp is not rank(self).cmp(rank(other)): ' + shown)
    # ---- R3 ----------------------------------------------------------------------------------------
    sig_ok = f.args == ['&libcnb::layer_env::LayerEnv', 'libcnb::layer_env::Scope', '&libcnb::env::Env'] and f.ret == 'libcnb::env::Env'
    rep.check(sig_ok, 'R3', 'signature', where, 'apply(&self, Scope, &Env) -> Env', 'apply signature changed: %s -> %s' % (f.args, f.ret))
    for adt in ('libcnb::env::Env', 'libcnb::layer_env::LayerEnv', 'libcnb::layer_env::LayerEnvDelta'):
        a = prog.adt(adt)
        bad = [fl['name'] for v in a['variants'] for fl in v['fields']
               if any(t in fl['ty'] for t in ('Cell<', 'RefCell<', 'Mutex<', 'RwLock<', 'Atomic', 'UnsafeCell', '*mut', 'Rc<', 'Arc<'))]
        rep.check(not bad, 'R3', 'no-interior-mutability/' + adt.split('::')[-1], '%s:%d' % (a['file'], a['line']),
                  'no interior mutability', 'fields with interior mutability / sharing: %s' % bad)
    # ---- R4 ----------------------------------------------------------------------------------------
    d = prog.adt('libcnb::layer_env::LayerEnvDelta')
    ety = [fl['ty'] for v in d['variants'] for fl in v['fields'] if fl['name'] == 'entries']
    rep.check(bool(ety) and ety[0].startswith('std::collections::BTreeMap<(libcnb::layer_env::ModificationBehavior, std::ffi::OsString)'),
              'R4', 'container', '%s:%d' % (d['file'], d['line']), 'entries: BTreeMap<(behaviour, name), value>',
              'entries are not kept in an ordered map keyed by (behaviour, name): %s' % ety)
    writers = sorted({fn.path for fn, bi, how in field_accesses(prog, 'entries', 'libcnb::layer_env::LayerEnvDelta')
                      if how in ('refmut', 'write') and not fn.derived})
    rep.check(writers == [L.INSERT], 'R4', 'single-writer', '%s:%d' % (d['file'], d['line']),
              'LayerEnvDelta::insert is the only writer of entries', 'entries are mutated by %s' % writers)
    arm_rules(ctx, rep)
    running_env_rule(ctx, rep)
    env_model_rule(ctx, rep)
    routing_rule(ctx, rep)


def routing_rule(ctx, rep):
    """R8: "entries of scope X" are what LayerEnv::insert was given for X.  For every Scope variant (LayerEnv::insert
    evaluated with the scope fixed, like R1) the (behaviour, name, value) handed in is stored, unchanged and on every
    path, in the delta R1 shows LayerEnv::apply to fold for that scope — for a process: in the delta kept under the
    process name, which is created empty when missing and kept when present.  LayerEnvDelta::insert stores
    entries[(behaviour, name)] = value; chainable_insert is insert-then-self; apply_to_empty is apply to an
    environment without variables."""
    rep.rule('R8', 'LayerEnv::insert stores an entry in the delta LayerEnv::apply reads for its scope; chainable_insert / apply_to_empty delegate')
    subjects = ['insert/All', 'insert/Build', 'insert/Launch', 'insert/Process', 'delta-insert', 'chainable-insert', 'apply-to-empty']
    try:
        rows = H.insert_routing(ctx.prog, ctx.slicer)
    except Exception as e:      # fail closed
        rows = [(s, 'unproven', 'libcnb/src/layer_env.rs', 'analysis failed: %s: %s' % (type(e).__name__, str(e)[:100])) for s in subjects]
    for subject, status, where, msg in rows:
        getattr(rep, status)('R8', subject, where, msg)
    got = {r[0] for r in rows}
    for s in subjects:
        if s not in got:
            rep.unproven('R8', s, 'libcnb/src/layer_env.rs', 'not analysed (the Scope variant / function was not found)')
    for p in (H.LE_INSERT, H.LE_CHAIN, H.LE_EMPTY, L.INSERT):
        if p in ctx.prog.fns:
            rep.analysed(ctx.prog.fns[p])


def env_model_rule(ctx, rep):
    """R7: R5 evaluates the per-entry rules over a model of the environment — get(NAME) is None exactly when the
    variable is unset, contains_key(NAME) is "set" (also to the empty string), insert(k, v) stores v under k whatever
    was there and whatever v is, and the application starts from a faithful copy.  Those are obligations on the
    bodies in libcnb/src/env.rs, decided on the normal forms of what they return / the one write they perform."""
    rep.rule('R7', 'Env::insert / get / contains_key / Clone are the plain map operations the per-entry rules are stated over')
    try:
        rows = H.env_primitives(ctx.prog, ctx.slicer)
    except Exception as e:      # fail closed
        rows = [(s, 'unproven', 'libcnb/src/env.rs', 'analysis failed: %s: %s' % (type(e).__name__, str(e)[:100]))
                for s in ('env-insert', 'env-get', 'env-contains-key', 'env-clone')]
    for subject, status, where, msg in rows:
        getattr(rep, status)('R7', subject, where, msg)
    for p in (H.ENV_INSERT, H.ENV_GET, H.ENV_CONTAINS):
        if p in ctx.prog.fns:
            rep.analysed(ctx.prog.fns[p])


def running_env_rule(ctx, rep):
    """R6: the rules of R5 are stated about "the environment built so far".  The value slicer cannot tell that
    environment from the input env it was cloned from, so which *object* every read and write inside the per-delta
    application is applied to is decided here, from where the reference comes from: one accumulator that starts as
    the (clone of the) input env, is handed to every Env method / helper / closure, and is what is returned."""
    prog = ctx.prog
    rep.rule('R6', 'the per-entry rules read and write the one environment being built (not the input env), which is what is returned')
    try:
        g, problems, acc = H.running_env(prog)
    except Exception as e:      # fail closed
        g = prog.fn(L.DAPPLY)
        problems, acc = [('unproven', '%s:%d' % (g.file, g.line), 'analysis failed: %s: %s' % (type(e).__name__, str(e)[:100]))], '?'
    gw = '%s:%d' % (g.file, g.line)
    bad = [p for p in problems if p[0] == 'violated']
    und = [p for p in problems if p[0] != 'violated']
    if bad:
        rep.violated('R6', 'running-env', bad[0][1], '; '.join(p[2] for p in bad[:3]))
    elif und:
        rep.unproven('R6', 'running-env', und[0][1], '; '.join(p[2] for p in und[:3]))
    else:
        rep.holds('R6', 'running-env', gw, 'every environment read / written while a delta is applied is the %s, which is returned' % acc)


class _ArmFilter:
    """forwards only the instances whose subject names one of the wanted arms"""

    def __init__(self, rep, only):
        self._rep, self._only = rep, only

    def _want(self, subject):
        return any(subject.endswith('/' + a) or ('/' + a + '/') in subject for a in self._only)

    def check(self, cond, rule, subject, *a, **k):
        return self._rep.check(cond, rule, subject, *a, **k) if self._want(subject) else cond

    def unproven(self, rule, subject, *a, **k):
        if self._want(subject):
            self._rep.unproven(rule, subject, *a, **k)

    def __getattr__(self, n):
        return getattr(self._rep, n)


def _show(ev):
    if ev == ():
        return 'no insert'
    out = []
    for e in ev:
        if e[0] == 'insert':
            out.append('%s := %s' % ('+'.join(e[1]) or '""', '+'.join(e[2]) or '""'))
        else:
            out.append(' '.join(str(x) for x in e))
    return ', then '.join(out)


def arm_rules(ctx, rep, rule='R5', only=None):
    """per-behaviour arm shapes of LayerEnvDelta::apply (shared with C10 for the Prepend / Delimiter arms).

    One iteration of the entry loop is evaluated once per case (behaviour of the entry) x (variable unset / empty /
    non-empty in the environment built so far) x (delimiter entry for the variable present / absent) — see
    C04_helpers: branch conditions the case decides are decided (on Option / boolean / string normal forms, through
    private helpers, closures handed to combinators and match guards), everything else is explored on both edges.  Each
    case yields the set of insert sequences over all remaining paths, which must be exactly the CNB rule:
        shape/<arm>       no path inserts anything else than the rule's value under the entry's name
        always/<arm>      where the rule inserts, no path gets to the next entry without the insert
        delimiter-lookup  the delimiter joined in is the delta's own (Delimiter, same name) entry, nothing when absent"""
    prog, sl = ctx.prog, ctx.slicer
    L.resolve_roles(prog, sl)
    if only is not None:
        rep = _ArmFilter(rep, only)
    try:
        g, res, seen, info = H.arm_cases(prog)
    except Exception as e:      # fail closed: every arm instance is reported unproven below
        g, res, seen = prog.fn(L.DAPPLY), None, set()
        info = {'loops': [], 'why': 'evaluation of the delta application failed: %s: %s' % (type(e).__name__, str(e)[:100])}
    rep.analysed(g)
    gw = '%s:%d' % (g.file, g.line)
    rules_txt = {'Override': 'NAME := VALUE, always', 'Default': 'NAME := VALUE only when the variable is unset',
                 'Append': 'NAME := PREV [+ DELIM] + VALUE, delimiter only when PREV is non-empty',
                 'Prepend': 'NAME := VALUE [+ DELIM + PREV], delimiter only when PREV is non-empty', 'Delimiter': 'no variable changes'}
    if res is None:
        rep.unproven(rule, 'unclassified/' + H.ENV_INSERT, gw, info.get('why') or 'the per-entry loop of the delta application was not found: %d loops / '
                     'for_each / fold over self.entries insert into the environment' % len(info['loops']))
        for arm in ('Override', 'Default', 'Append', 'Prepend', 'Delimiter'):
            rep.unproven(rule, 'shape/' + arm, gw, '%s arm not analysed (no entry loop); the CNB rule is %s' % (arm, rules_txt[arm]))
        rep.unproven(rule, 'delimiter-lookup', gw, 'delimiter lookup not analysed (no entry loop)')
        return
    for fpath in sorted({fp for fp, _ in seen}):
        if fpath in prog.fns:
            rep.analysed(prog.fns[fpath])
    extra = {}
    pdesc = {'unset': 'unset', 'empty': 'set to the empty string', 'nonempty': 'set to a non-empty value'}
    for arm in H.BEHAVIOURS:
        bad_shape, bad_always = [], []
        for p in H.PREV_STATES:
            for d in H.DELIM_STATES:
                evs = res[(arm, p, d)]
                exp = H.spec_case(arm, p, d)
                want = (('insert', ('NAME',), exp),) if exp is not None else ()
                extra['%s/%s/%s' % (arm, p, d)] = sorted(_show(e) for e in evs)
                case = 'variable %s, delimiter entry %s' % (pdesc[p], 'present' if d == 'set' else 'absent')
                wrong = sorted(_show(e) for e in evs if e != () and e != want)
                if wrong:
                    bad_shape.append('%s: %s instead of %s' % (case, ' | '.join(wrong), _show(want)))
                elif not evs:
                    bad_shape.append('%s: no path through the arm reaches the next entry' % case)
                elif exp is not None and want not in evs:
                    bad_shape.append('%s: nothing is inserted instead of %s' % (case, _show(want)))
                if exp is not None and () in evs:
                    bad_always.append(case)
        rep.check(not bad_shape, rule, 'shape/' + arm, gw, '%s: %s' % (arm, rules_txt[arm]),
                  '%s arm does not follow the CNB rule (%s): %s' % (arm, rules_txt[arm], '; '.join(bad_shape[:3])))
        if arm != 'Delimiter':
            rep.check(not bad_always, rule, 'always/' + arm, gw, '%s: the variable is updated on every path through the arm' % arm,
                      '%s entries can be skipped: some path through the arm reaches the next entry without the insert (e.g. an early '
                      '`continue`) with %s' % (arm, '; '.join(bad_always[:2])))
    rep.extra['arm_values'] = extra
    # every insert into an environment that the delta application can reach was met by the case evaluation
    for fp, bb in sorted(H.all_insert_sites(prog, info['engine']) - seen):
        c = prog.fns[fp].call_at(bb)
        rep.unproven(rule, 'unclassified/' + H.ENV_INSERT, c.where() if c else gw, 'mutation outside the per-entry dispatch of the delta application')
    # delimiter lookup: joined in exactly when the delta has a (Delimiter, same name) entry
    bad = []
    for arm in ('Append', 'Prepend'):
        for d in H.DELIM_STATES:
            for ev in res[(arm, 'nonempty', d)]:
                vals = [e[2] for e in ev if e and e[0] == 'insert']
                has = any('DELIM' in v for v in vals)
                odd = any(x.startswith('?') for v in vals for x in v)
                if ev != () and (has != (d == 'set') or odd):
                    bad.append('%s, delimiter entry %s: %s' % (arm, 'present' if d == 'set' else 'absent', _show(ev)))
    rep.check(not bad, rule, 'delimiter-lookup', gw, 'delimiter = entries[(Delimiter, name)] or empty',
              'the delimiter joined in is not entries[(Delimiter, name)] / empty when absent: ' + '; '.join(bad[:3]))
