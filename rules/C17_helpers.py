"""Helpers of rule C17: obligations stated on interprocedural effects and value normal forms.

Part A (forwarding): the configuration -> command-struct forwarding is read off `Effects.expand` with the builder
methods in the vocabulary, so a setter call counts wherever it is made (the entry function, a private helper, a
closure handed to `for_each`, a `for` loop), with its arguments expressed in the entry function's terms.
  * loop context of an effect: MIR loops around any level of its call chain, or an iterator consumer (`for_each`)
    whose closure is the next level; the iterated expression is decomposed with the iterator algebra (lib/iters)
  * "every iteration / every run reaches the call": a path statement over the CFGs of the chain levels, not a
    particular `match` shape

Part B (argv): the argv of a `From<X> for Command` conversion is the ordered list of contributions made through
`Command::arg / args` — directly, through private helpers / closures, row by row for loops over literal tables, or
through a `Vec` that is filled with `push` / `extend` and handed to `Command::args` whole.  Iterated arguments
(`args(iter.flat_map(..))`, `extend(flag.then(..))`, `Option::into_iter`) are decomposed into their elements.
"""
import functools

from .lib import iters
from .lib.effects import Effects, Eff, Link, guards_of
from .lib.guards import conditions
from .lib.mir import op_place
from .lib.paths import strip
from .lib.value import canon, subst, vstr, walk

IT = iters.IT
VEC_INIT_EMPTY = ('std::vec::Vec::<T>::new', 'std::vec::Vec::<T>::with_capacity')
VEC_INIT_ARRAY = ('std::boxed::box_assume_init_into_vec_unsafe', 'std::slice::<impl [T]>::into_vec')


# ---------------------------------------------------------------------------------------------------------------
# generic: chain levels, program order, loops, paths
# ---------------------------------------------------------------------------------------------------------------
def levels(e):
    """[(Call, mapping of the function containing it)] from the entry function down to the effect's own call"""
    return [(l.call, l.mapping or {}) for l in e.chain if isinstance(l, Link)] + [(e.call, e.mapping or {})]


def fix_mapping(E, e):
    """CALLBACK effects come without the parameter bindings of the function they are in: rebuild them from the last
    link of the chain (workaround; lib/effects sets Eff.mapping for vocabulary effects only)"""
    if e.mapping is None and e.call is not None:
        links = [l for l in e.chain if isinstance(l, Link)]
        g = e.call.fn
        if links and g.kind != 'Closure' and g in E.prog.callee_fns(links[-1].call):
            e.mapping = E.call_mapping(links[-1].call.fn, links[-1].call, g, links[-1].mapping or {})
        elif not links:
            e.mapping = {}
    return e


def _order_cmp(fn):
    rpo = fn._rpo()
    pos = {b: i for i, b in enumerate(rpo)}
    reach = {}

    def r(b):
        if b not in reach:
            reach[b] = fn.reachable(b)
        return reach[b]

    def cmp(a, b):
        if a == b:
            return 0
        ab, ba = b in r(a), a in r(b)
        if ab and not ba:
            return -1
        if ba and not ab:
            return 1
        return -1 if pos.get(a, 10 ** 6) < pos.get(b, 10 ** 6) else 1
    return cmp


def program_order(effs):
    """effects sorted by execution order: level by level, a block that can reach another one (and not vice versa)
    comes first; blocks of one loop body / of alternative branches keep reverse post-order.  Stable, so the rows of
    an unrolled table keep their order."""
    cmps = {}

    def cmp(x, y):
        lx, ly = levels(x), levels(y)
        for (cx, _), (cy, _) in zip(lx, ly):
            if cx.fn.path != cy.fn.path:
                return 0
            if cx.bb != cy.bb:
                f = cx.fn
                if f.path not in cmps:
                    cmps[f.path] = _order_cmp(f)
                return cmps[f.path](cx.bb, cy.bb)
        return 0
    return sorted(effs, key=functools.cmp_to_key(cmp))


def _consumer_closure_level(E, e, i):
    """level i of e's chain is an iterator consumer (`for_each`, `try_for_each`) whose closure is level i + 1:
    the iterated expression in entry terms, else None"""
    lv = levels(e)
    c, m = lv[i]
    if c.indirect or c.decl not in iters.CONSUME_EACH or i + 1 >= len(lv) or not c.args:
        return None
    if lv[i + 1][0].fn.kind != 'Closure':
        return None
    return E.subst(E.slicer.operand(c.fn, c.args[0]), m)


def loop_contexts(E, e):
    """loops an effect runs in: [(level index, 'mir' | 'consumer', Loop | None, iterated expression in entry terms)]
    outermost first"""
    out = []
    lv = levels(e)
    for i, (c, m) in enumerate(lv):
        f = c.fn
        ls = [L for L in E.loops(f) if c.bb in L.body and c.bb != L.header]
        ls.sort(key=lambda L: -len(L.body))
        for L in ls:
            coll = E.subst(L.collection, m) if L.collection is not None else None
            out.append((i, 'mir', L, coll))
        if i + 1 < len(lv):
            x = _consumer_closure_level(E, e, i)
            if x is not None:
                out.append((i, 'consumer', None, x))
    return out


def _good_blocks(E, effs, depth, fn):
    """blocks of fn (level `depth` of the effects' chains) in which one of the effects certainly happens"""
    by_bb = {}
    for e in effs:
        lv = levels(e)
        if depth < len(lv) and lv[depth][0].fn.path == fn.path:
            by_bb.setdefault(lv[depth][0].bb, []).append(e)
    good = set()
    for bb, es in by_bb.items():
        if any(len(levels(e)) == depth + 1 for e in es):
            good.add(bb)
            continue
        # the call at bb enters a workspace function (not an iterator consumer, whose closure may run zero times)
        c = levels(es[0])[depth][0]
        if not c.indirect and c.decl and c.decl.startswith('std::iter::'):
            continue
        subs = {}
        for e in es:
            subs.setdefault(levels(e)[depth + 1][0].fn.path, []).append(e)
        for gp, ses in subs.items():
            g = E.prog.fns.get(gp)
            if g is not None and g.kind != 'Closure' and on_every_return(E, ses, depth + 1, g):
                good.add(bb)
                break
    return good


def on_every_return(E, effs, depth, fn):
    """every normally returning execution of fn runs one of the effects (fn is level `depth` of their chains)"""
    good = _good_blocks(E, effs, depth, fn)
    if not good:
        return False
    seen = fn.reachable(0, stop=good)
    return not any(b in seen and b not in good for b in fn.return_blocks())


def on_every_iteration(E, effs, ctx):
    """every iteration of the loop `ctx` (an entry of loop_contexts shared by the effects) runs one of the effects"""
    i, kind, L, _ = ctx
    if kind == 'consumer':
        g = levels(effs[0])[i + 1][0].fn
        return on_every_return(E, effs, i + 1, g)
    fn = L.fn
    good = _good_blocks(E, effs, i, fn)
    if not good:
        return False
    # from the loop head, back to the loop head, without leaving the body: must pass a good block
    work = [s for s in fn.succs(L.header) if s in L.body]
    seen = set()
    while work:
        b = work.pop()
        if b in seen or b in good:
            continue
        seen.add(b)
        if b == L.header:
            return False
        work.extend(s for s in fn.succs(b) if s in L.body)
    return True


def always_before(E, e, upto, other):
    """on every execution that reaches effect `other`, the construct of effect `e` at level `upto` (a loop head, a
    consumer call, or e's own call when upto is the last level) has been passed: at the first level where the two
    chains part, e's block dominates other's block; below that level e's chain is on every returning path"""
    le, lo = levels(e), levels(other)
    d = 0
    while d < len(le) and d < len(lo) and le[d][0].fn.path == lo[d][0].fn.path and le[d][0].bb == lo[d][0].bb:
        d += 1
    if d >= len(le) or d >= len(lo) or le[d][0].fn.path != lo[d][0].fn.path:
        return False
    f = le[d][0].fn

    def anchor(level):
        c = le[level][0]
        if level == upto[0] and upto[1] is not None:
            return upto[1].header
        return c.bb
    if d > upto[0]:
        return False
    if not f.dominates(anchor(d), lo[d][0].bb) or anchor(d) == lo[d][0].bb:
        return False
    for k in range(d + 1, upto[0] + 1):
        g = le[k][0].fn
        if g.kind == 'Closure':
            return False
        a = anchor(k)
        seen = g.reachable(0, stop={a})
        if any(b in seen and b != a for b in g.return_blocks()):
            return False
    return True


# ---------------------------------------------------------------------------------------------------------------
# values: configuration fields, loop elements, alternatives
# ---------------------------------------------------------------------------------------------------------------
class Cfg:
    """the configuration parameter of an entry function"""

    def __init__(self, fn, index, fields):
        self.fn, self.index, self.fields = fn, index, fields

    def is_cfg(self, v):
        v = strip(v)
        return v[0] == 'param' and v[1] == self.fn.path and v[2] == self.index

    def exact(self, v):
        """field name when v *is* config.<field> (modulo unwrap / borrow)"""
        v = strip(v)
        if v[0] == 'field' and v[2] in self.fields and self.is_cfg(v[1]):
            return v[2]
        return None

    def within(self, v):
        """first config field mentioned anywhere in v"""
        for x in walk(v):
            if x[0] == 'field' and x[2] in self.fields and self.is_cfg(x[1]):
                return x[2]
        return None

    def all_within(self, v):
        return {x[2] for x in walk(v) if x[0] == 'field' and x[2] in self.fields and self.is_cfg(x[1])}


def whole_collection(sl, x, cfg, mapped=False):
    """field name when iterating x visits every element of config.<field> once, unchanged and in the collection's
    own order (`&c`, `c.iter()`, `.copied()`, `.cloned()`, collected copies ...); None for filtered, zipped or
    reversed iterations, and — unless `mapped` — for iterations that transform the elements"""
    if x is None:
        return None
    if any(y[0] == 'call' and y[1].endswith('::rev') for y in walk(x)):
        return None
    al = iters.alts(sl, x)
    if len(al) != 1:
        return None
    elem, fa, filtered = al[0]
    if filtered or fa is None:
        return None
    if not mapped and canon(elem) != canon(iters.elem_of(fa)):
        return None
    return cfg.exact(fa)


def element_of(sl, v, cfg):
    """(field, projections) when v is a projection of the loop element of config.<field>: `elem`, `elem.0`, `elem.1`"""
    v = strip(v)
    proj = []
    while v[0] == 'field':
        proj.append(v[2])
        v = strip(v[1])
    if v[0] == 'call' and v[1] == IT + 'next' and v[2]:
        fld = whole_collection(sl, v[2][0], cfg)
        if fld is not None:
            return fld, tuple(reversed(proj))
    return None


def literal_sequence(prog, sl, v):
    """elements of a literal sequence value: an array, or `vec![..]` (read at the site that builds the vector)"""
    v = strip(v)
    if v[0] == 'array':
        return list(v[1])
    if v[0] == 'call' and v[1] in VEC_INIT_ARRAY and len(v) == 4 and v[3]:
        g = prog.fns.get(v[3][0])
        c = g.call_at(v[3][1]) if g is not None else None
        if c is not None and c.dest and len(c.dest) == 1:
            return _vec_initial(sl, g, c.dest[0])
    return None


def alternatives(v, opaque=(), limit=64):
    """the phi-free alternatives of a value: phis are distributed over the enclosing constructors (the arguments
    of calls named in `opaque` are left alone)"""
    if not isinstance(v, tuple) or not v or not isinstance(v[0], str):
        return [v]
    if v[0] == 'phi':
        out = []
        for x in v[1]:
            for a in alternatives(x, opaque, limit):
                if a not in out:
                    out.append(a)
        return out[:limit]
    if v[0] in ('const', 'param', 'fnitem', 'constitem', 'unknown', 'closure_env', 'upvar', 'closure'):
        return [v]
    if v[0] == 'call' and v[1] in opaque:
        return [v]
    combos = [()]
    for x in v:
        if isinstance(x, tuple) and x and isinstance(x[0], str):
            xs = alternatives(x, opaque, limit)
        elif isinstance(x, tuple):
            # a tuple of sub-values (call arguments, aggregate fields)
            xs = [()]
            for y in x:
                ys = alternatives(y, opaque, limit) if isinstance(y, tuple) else [y]
                xs = [a + (b,) for a in xs for b in ys][:limit]
        else:
            xs = [x]
        combos = [a + (b,) for a in combos for b in xs][:limit]
    return combos


def lift_to(prog, sl, entry, v, depth=4, share=None):
    """values equal to v with the parameters of private helpers replaced by what their call sites (reached from
    `entry`) pass in: a decision taken inside `check_result(&config.expected, ..)` is a decision on config.expected"""
    foreign = [x[1] for x in walk(v) if x[0] == 'param' and x[1] != entry.path]
    if not foreign or depth <= 0:
        return [v]
    h = foreign[0]
    E = Effects(prog, sl, vocab={h: ('SITE', None)})
    if share is not None:
        E._loops, E._sites, E._conds = share._loops, share._sites, share._conds    # per-function caches
    out = []
    for e in E.expand(entry, 'may'):
        if e.kind == 'SITE' and e.call is not None and e.call.name == h:
            m = {(h, i): a for i, a in enumerate(e.args or ())}
            out.extend(lift_to(prog, sl, entry, subst(v, m, sl), depth - 1, share))
    return out or [v]


# ---------------------------------------------------------------------------------------------------------------
# Part B: argv model of `impl From<X> for Command`
# ---------------------------------------------------------------------------------------------------------------
from .lib.cmdmodel import Item, classify as _classify, _field_of_param0  # noqa: E402

CMD = 'std::process::Command::'


def sink_kind(c):
    if c.indirect:
        return None
    for n in (c.res, c.decl):
        if not n:
            continue
        if n in (CMD + 'new', CMD + 'arg', CMD + 'args'):
            return n[len(CMD):].upper()
        if n in ('std::vec::Vec::<T, A>::push', 'std::vec::Vec::<T>::push'):
            return 'PUSH'
        if n in ('std::vec::Vec::<T, A>::extend_from_slice', 'std::vec::Vec::<T, A>::append'):
            return 'EXTEND'
    if c.decl == 'std::iter::Extend::extend' and (c.res or '').startswith('<std::vec::Vec<'):
        return 'EXTEND'
    return None


class SinkEffects(Effects):
    """Effects whose vocabulary is the argv sinks (Command::new/arg/args, Vec::push/extend); `Extend::extend` is an
    iterator consumer for the library, so the sinks are intercepted before the generic expansion (local workaround)"""

    def _expand_call1(self, fn, c, forall, mode, mapping, chain, stack, out):
        k = sink_kind(c)
        if k is None:
            return Effects._expand_call1(self, fn, c, forall, mode, mapping, chain, stack, out)
        args = tuple(self.subst(self.slicer.operand(fn, a), mapping) for a in c.args)
        ef = Eff(k, None, c, chain, mode == 'must', self.subst(forall, mapping) if forall is not None else None, args)
        ef.mapping = mapping
        out.append(ef)


def _through_moves(fn, pl, refs=True):
    """local behind a place, following whole-local moves / copies / borrows"""
    seen = set()
    while pl is not None and len([p for p in pl[1:] if p != '*']) == 0 and pl[0] not in seen:
        seen.add(pl[0])
        defs = fn.whole_defs(pl[0])
        if len(defs) == 1 and defs[0][0] == 'stmt':
            rv = defs[0][3]
            if rv['r'] == 'use' and op_place(rv['o']) is not None:
                pl = op_place(rv['o'])
                continue
            if refs and rv['r'] == 'ref':
                pl = rv['p']
                continue
        return pl[0]
    return None


def _vec_local(fn, operand):
    """local of type Vec behind an operand (`&mut v`, `move v`, `&v`), or None"""
    pl = op_place(operand)
    if pl is None:
        return None
    m = _through_moves(fn, pl)
    if m is None or m <= fn.argc:
        return None
    return m if fn.local_ty(m).startswith('std::vec::Vec<') else None


def _vec_initial(sl, fn, m):
    """values the vector local m starts with ([] for Vec::new(), the literal's elements for vec![..]), or None"""
    defs = fn.whole_defs(m)
    if len(defs) != 1:
        return None
    d = defs[0]
    if d[0] == 'call':
        c = d[3]
        if c.indirect:
            return None
        if c.is_(*VEC_INIT_EMPTY):
            return []
        if c.is_(*VEC_INIT_ARRAY) and c.args:
            v = strip(sl.operand(fn, c.args[0]))
            if v[0] == 'array':
                return list(v[1])
            box = _through_moves(fn, op_place(c.args[0]), refs=False)
            arrays = []
            for b in fn.blocks:
                for s in b['s']:
                    if s[0] == '=' and len(s[1]) > 1 and s[2]['r'] == 'agg' and s[2].get('kind') == 'array' and _derives(fn, s[1][0], box):
                        arrays.append(s[2])
            if len(arrays) == 1:
                return [sl.operand(fn, o) for o in arrays[0]['ops']]
            return None
    v = strip(sl.local(fn, m))
    if v[0] == 'array':
        return list(v[1])
    return None


def _derives(fn, local, box, depth=6):
    """local is a pointer computed from the box local (the destination of the array literal of `vec![..]`)"""
    while depth > 0:
        depth -= 1
        if local == box:
            return True
        defs = fn.whole_defs(local)
        if len(defs) != 1 or defs[0][0] != 'stmt':
            return False
        rv = defs[0][3]
        if rv['r'] in ('use', 'cast') and op_place(rv['o']) is not None:
            local = op_place(rv['o'])[0]
        elif rv['r'] in ('ref', 'rawptr', 'cfd'):
            local = rv['p'][0]
        else:
            return False
    return False


def _vec_other_writers(fn, m):
    """calls that take `&mut m` and are not push / extend: they may reorder or drop elements"""
    bad = []
    tmps = set()
    for b in fn.blocks:
        for s in b['s']:
            if s[0] == '=' and s[2]['r'] == 'ref' and s[2].get('mut') and s[2]['p'][0] == m:
                if len(s[1]) == 1 and [p for p in s[2]['p'][1:] if p != '*'] == []:
                    tmps.add(s[1][0])
                else:
                    bad.append('a mutable borrow of part of the vector')
    for c in fn.calls:
        for ai, a in enumerate(c.args):
            pl = op_place(a)
            if pl and pl[0] in tmps:
                if not (ai == 0 and sink_kind(c) in ('PUSH', 'EXTEND')):
                    bad.append(c.name or 'indirect call')
    return bad


def _struct_field_types(prog, fn):
    ty = fn.args[0] if fn.args else None
    try:
        adt = prog.adt(ty)
    except Exception:
        return {}
    return {x['name']: x['ty'] for x in adt['variants'][0]['fields']}


def _is_elem_chain(elem, fa):
    """elem is `unwrap(next(..unwrap(next(fa))..))`: the collection's own elements (possibly one level of flattening)"""
    e = iters.elem_of(fa)
    for _ in range(3):
        if canon(elem) == canon(e):
            return True
        e = iters.elem_of(e)
    return False


class _Contribution:
    def __init__(self, value, loop, guards, splat=False, note=None):
        self.value, self.loop, self.guards, self.splat, self.note = value, loop, guards, splat, note


def elements(sl, fn, v, ftypes):
    """the argv words an iterable argument contributes, in order: [_Contribution]"""
    v0 = strip(v)
    if v0[0] == 'array':
        return [_Contribution(x, None, []) for x in v0[1]]
    out = []
    al = iters.alts(sl, v0)
    for elem, fa, filtered in al:
        guards = []
        loop = None
        note = 'a filtered iteration' if filtered else None
        splat = False
        if fa is not None:
            f0 = strip(fa)
            if f0[0] == 'call' and f0[1] in ('core::bool::<impl bool>::then', 'core::bool::<impl bool>::then_some') and len(f0[2]) == 2:
                # `flag.then(|| word)` as an iterable: the word, if the flag is set
                if _is_elem_chain(elem, fa):
                    w = sl.apply_closure(f0[2][1], ()) if f0[1].endswith('::then') else f0[2][1]
                    if w is not None:
                        elem = w
                fld = _field_of_param0(f0[2][0], fn)
                if fld is not None:
                    guards.append((fld, True))
                else:
                    note = 'a word under an unrecognised condition'
            else:
                fld = _field_of_param0(fa, fn)
                if fld is None:
                    note = note or 'elements of an iterable that is not a field of the command struct'
                elif ftypes.get(fld, '').startswith('std::option::Option<') and not _is_nested_collection(ftypes.get(fld, '')):
                    guards.append((fld, ['Some']))
                elif len(al) == 1 and _is_elem_chain(elem, fa):
                    splat = True
                    if ftypes.get(fld, '').startswith('std::option::Option<'):
                        guards.append((fld, ['Some']))
                else:
                    loop = fld
        out.append(_Contribution(elem, loop, guards, splat, note))
    return out


def _is_nested_collection(ty):
    return ty.startswith('std::option::Option<std::vec::Vec<') or ty.startswith('std::option::Option<std::collections::')


def classify(sl, fn, v):
    e = _classify(fn, v)
    if e[0] == 'other':
        iv = sl.inline_deep(v)
        if iv != v:
            e = _classify(fn, iv)
    return e


def argv_model(prog, sl, fn):
    """-> (program, [Item]) for a `From<X> for Command` function; see the module docstring"""
    E = SinkEffects(prog, sl)
    ftypes = _struct_field_types(prog, fn)
    effs = program_order([e for e in E.expand(fn, 'may') if e.call is not None and e.kind in ('NEW', 'ARG', 'ARGS', 'PUSH', 'EXTEND')])
    program = None
    vec_effs = {}
    main = []
    for e in effs:
        if e.kind == 'NEW':
            v = strip(e.args[0])
            program = v[1] if v[0] == 'const' else vstr(v)
        elif e.kind in ('PUSH', 'EXTEND'):
            vec_effs.setdefault((e.call.fn.path, _vec_local(e.call.fn, e.call.args[0])), []).append(e)
        else:
            main.append(e)

    def context(e):
        """(guards on struct fields, loop field, note)"""
        guards = []
        for cd, views, subj in guards_of(E, e):
            if cd.kind == 'bool':
                fld = _field_of_param0(views[0][0], fn)
                if fld is not None:
                    guards.append((fld, cd.outcome))
            elif cd.kind == 'variant' and cd.enum == 'std::option::Option' and subj is not None:
                s0 = strip(subj)
                if s0[0] == 'call' and s0[1] == IT + 'next':
                    continue        # loop progress (`next()` is Some inside / None after a loop), not a condition on a field
                fld = _field_of_param0(subj, fn)
                if fld is not None:
                    guards.append((fld, sorted(cd.outcome)))
        loops = []
        note = None
        for i, kind, L, coll in loop_contexts(E, e):
            if coll is None:
                note = 'inside a loop over an unknown iterator'
                continue
            if kind == 'mir' and not iters.trivial(iters.alts(sl, coll), coll):
                coll = e.forall      # unrolled row by row: the row's own collection, if any
                if coll is None:
                    continue
            fld = _field_of_param0(coll, fn)
            if fld is None:
                note = 'inside a loop over %s' % vstr(coll)[:60]
            elif ftypes.get(fld, '').startswith('std::option::Option<') and not _is_nested_collection(ftypes.get(fld, '')):
                guards.append((fld, ['Some']))
            else:
                loops.append(fld)
        loop = loops[-1] if loops else None
        if len(set(loops)) > 1:
            note = 'inside nested loops over %s' % loops
        guards = [g for g in guards if not (loop and g[0] == loop and g[1] == ['Some'])]
        return guards, loop, note

    def contributions(e, payload, iterable):
        guards, loop, note = context(e)
        kind = 'args' if iterable else 'arg'
        if not iterable:
            cs = [_Contribution(payload, None, [])]
        else:
            cs = elements(sl, fn, payload, ftypes)
        items = []
        for c in cs:
            if c.splat:
                el = _classify(fn, c.value)
                el = ('field', el[1], 'splat', None) if el[0] == 'field' else el
            else:
                el = classify(sl, fn, c.value)
            n = c.note or note
            if n:
                el = ('other', '%s (%s)' % (vstr(strip(c.value))[:60], n))
            lp = c.loop or loop
            if c.loop and loop and c.loop != loop:
                el = ('other', '%s (nested loops over %s, %s)' % (vstr(strip(c.value))[:40], loop, c.loop))
            gs = guards + [g for g in c.guards if g not in guards]
            gs = [g for g in gs if not (lp and g[0] == lp and g[1] == ['Some'])]
            if items and items[-1].loop == lp and items[-1].conds == gs:
                items[-1].elems.append(el)
            else:
                items.append(Item(kind, [el], gs, lp, e.call))
        return items

    items = []
    spliced = set()
    for e in main:
        if e.kind == 'ARG':
            items.extend(contributions(e, e.args[1], False))
            continue
        m = _vec_local(e.call.fn, e.call.args[1]) if len(e.call.args) > 1 else None
        key = (e.call.fn.path, m)
        if m is not None and (key in vec_effs or _vec_initial(sl, e.call.fn, m) is not None):
            # a vector filled with push / extend and handed over whole: its contributions, at this position
            spliced.add(key)
            g = e.call.fn
            init = _vec_initial(sl, g, m)
            mp = e.mapping or {}
            if init is None:
                items.append(Item('args', [('other', 'initial contents of the vector %s' % (g.local_name(m) or m))], [], None, e.call))
            elif init:
                items.extend(contributions(e, ('array', tuple(E.subst(x, mp) for x in init)), True))
            for w in _vec_other_writers(g, m):
                items.append(Item('args', [('other', 'the vector %s is also modified by %s' % (g.local_name(m) or m, w))], [], None, e.call))
            for pe in vec_effs.get(key, []):
                items.extend(contributions(pe, pe.args[1], pe.kind == 'EXTEND'))
            # the hand-over itself may be conditional / in a loop
            guards, loop, note = context(e)
            if guards or loop or note:
                items.append(Item('args', [('other', 'the vector is handed to Command::args conditionally')], guards, loop, e.call))
            continue
        items.extend(contributions(e, e.args[1], True))
    for key, es in vec_effs.items():
        if key not in spliced and any('std::string::String' in (e.call.fn.local_ty(key[1]) if key[1] is not None else 'std::string::String') or True for e in es):
            # words collected in a vector that never reaches Command::args as a whole
            if key[1] is None or _word_vector(prog.fns[key[0]], key[1]):
                items.append(Item('args', [('other', 'words pushed onto a vector that is not handed to Command::args as a whole')], [], None, es[0].call))
    return program, items


def _word_vector(fn, m):
    ty = fn.local_ty(m)
    return any(t in ty for t in ('String', 'str', 'OsStr', 'Path'))
