"""Helpers of rule C17: obligations stated on interprocedural effects and value normal forms.

Part A (forwarding): the configuration -> command-struct forwarding is read off `Effects.expand` with the builder
methods in the vocabulary, so a setter call counts wherever it is made (the entry function, a private helper, a
closure handed to `for_each`, a `for` loop), with its arguments expressed in the entry function's terms.
  * loop context of an effect: MIR loops around any level of its call chain, or an iterator consumer (`for_each`)
    whose closure is the next level; the iterated expression is decomposed with the iterator algebra (lib/iters)
  * "every iteration / every run reaches the call": a path statement over the CFGs of the chain levels, not a
    particular `match` shape

Part B (argv): the argv of a `From<X> for Command` conversion is the ordered list of contributions made through
`Command::arg / args` — directly, through private helpers / closures, row by row for loops over literal tables, or
through a `Vec` that is filled with `push` / `extend` and handed to `Command::args` whole.  Iterated arguments
(`args(iter.flat_map(..))`, `extend(flag.then(..))`, `Option::into_iter`) are decomposed into their elements.
"""
import functools
import re as _re

from .lib import iters
from .lib.effects import Effects, Eff, Link, guards_of
from .lib.guards import conditions
from .lib.mir import op_place
from .lib.paths import strip
from .lib.value import canon, subst, vstr, walk

IT = iters.IT
VEC_INIT_EMPTY = ('std::vec::Vec::<T>::new', 'std::vec::Vec::<T>::with_capacity')
VEC_INIT_ARRAY = ('std::boxed::box_assume_init_into_vec_unsafe', 'std::slice::<impl [T]>::into_vec')


# ---------------------------------------------------------------------------------------------------------------
# generic: chain levels, program order, loops, paths
# ---------------------------------------------------------------------------------------------------------------
def levels(e):
    """[(Call, mapping of the function containing it)] from the entry function down to the effect's own call"""
    return [(l.call, l.mapping or {}) for l in e.chain if isinstance(l, Link)] + [(e.call, e.mapping or {})]


def fix_mapping(E, e):
    """CALLBACK effects come without the parameter bindings of the function they are in: rebuild them from the last
    link of the chain (workaround; lib/effects sets Eff.mapping for vocabulary effects only)"""
    if e.mapping is None and e.call is not None:
        links = [l for l in e.chain if isinstance(l, Link)]
        g = e.call.fn
        if links and g.kind != 'Closure' and g in E.prog.callee_fns(links[-1].call):
            e.mapping = E.call_mapping(links[-1].call.fn, links[-1].call, g, links[-1].mapping or {})
        elif not links:
            e.mapping = {}
    return e


def _order_cmp(fn):
    rpo = fn._rpo()
    pos = {b: i for i, b in enumerate(rpo)}
    reach = {}

    def r(b):
        if b not in reach:
            reach[b] = fn.reachable(b)
        return reach[b]

    def cmp(a, b):
        if a == b:
            return 0
        ab, ba = b in r(a), a in r(b)
        if ab and not ba:
            return -1
        if ba and not ab:
            return 1
        return -1 if pos.get(a, 10 ** 6) < pos.get(b, 10 ** 6) else 1
    return cmp


def program_order(effs):
    """effects sorted by execution order: level by level, a block that can reach another one (and not vice versa)
    comes first; blocks of one loop body / of alternative branches keep reverse post-order.  Stable, so the rows of
    an unrolled table keep their order."""
    cmps = {}

    def cmp(x, y):
        lx, ly = levels(x), levels(y)
        for (cx, _), (cy, _) in zip(lx, ly):
            if cx.fn.path != cy.fn.path:
                return 0
            if cx.bb != cy.bb:
                f = cx.fn
                if f.path not in cmps:
                    cmps[f.path] = _order_cmp(f)
                return cmps[f.path](cx.bb, cy.bb)
        return 0
    return sorted(effs, key=functools.cmp_to_key(cmp))


def _consumer_closure_level(E, e, i):
    """level i of e's chain is an iterator consumer (`for_each`, `try_for_each`) whose closure is level i + 1:
    the iterated expression in entry terms, else None"""
    lv = levels(e)
    c, m = lv[i]
    if c.indirect or c.decl not in iters.CONSUME_EACH or i + 1 >= len(lv) or not c.args:
        return None
    if lv[i + 1][0].fn.kind != 'Closure':
        return None
    return E.subst(E.slicer.operand(c.fn, c.args[0]), m)


def loop_contexts(E, e):
    """loops an effect runs in: [(level index, 'mir' | 'consumer', Loop | None, iterated expression in entry terms)]
    outermost first"""
    out = []
    lv = levels(e)
    for i, (c, m) in enumerate(lv):
        f = c.fn
        ls = [L for L in E.loops(f) if c.bb in L.body and c.bb != L.header]
        ls.sort(key=lambda L: -len(L.body))
        for L in ls:
            coll = E.subst(L.collection, m) if L.collection is not None else None
            out.append((i, 'mir', L, coll))
        if i + 1 < len(lv):
            x = _consumer_closure_level(E, e, i)
            if x is not None:
                out.append((i, 'consumer', None, x))
    return out


def _good_blocks(E, effs, depth, fn):
    """blocks of fn (level `depth` of the effects' chains) in which one of the effects certainly happens"""
    by_bb = {}
    for e in effs:
        lv = levels(e)
        if depth < len(lv) and lv[depth][0].fn.path == fn.path:
            by_bb.setdefault(lv[depth][0].bb, []).append(e)
    good = set()
    for bb, es in by_bb.items():
        if any(len(levels(e)) == depth + 1 for e in es):
            good.add(bb)
            continue
        # the call at bb enters a workspace function (not an iterator consumer, whose closure may run zero times)
        c = levels(es[0])[depth][0]
        if not c.indirect and c.decl and c.decl.startswith('std::iter::'):
            continue
        subs = {}
        for e in es:
            subs.setdefault(levels(e)[depth + 1][0].fn.path, []).append(e)
        for gp, ses in subs.items():
            g = E.prog.fns.get(gp)
            if g is not None and g.kind != 'Closure' and on_every_return(E, ses, depth + 1, g):
                good.add(bb)
                break
    return good


def on_every_return(E, effs, depth, fn):
    """every normally returning execution of fn runs one of the effects (fn is level `depth` of their chains)"""
    good = _good_blocks(E, effs, depth, fn)
    if not good:
        return False
    seen = fn.reachable(0, stop=good)
    return not any(b in seen and b not in good for b in fn.return_blocks())


def on_every_iteration(E, effs, ctx):
    """every iteration of the loop `ctx` (an entry of loop_contexts shared by the effects) runs one of the effects"""
    i, kind, L, _ = ctx
    if kind == 'consumer':
        g = levels(effs[0])[i + 1][0].fn
        return on_every_return(E, effs, i + 1, g)
    fn = L.fn
    good = _good_blocks(E, effs, i, fn)
    if not good:
        return False
    # from the loop head, back to the loop head, without leaving the body: must pass a good block
    work = [s for s in fn.succs(L.header) if s in L.body]
    seen = set()
    while work:
        b = work.pop()
        if b in seen or b in good:
            continue
        seen.add(b)
        if b == L.header:
            return False
        work.extend(s for s in fn.succs(b) if s in L.body)
    return True


def always_before(E, e, upto, other):
    """on every execution that reaches effect `other`, the construct of effect `e` at level `upto` (a loop head, a
    consumer call, or e's own call when upto is the last level) has been passed: at the first level where the two
    chains part, e's block dominates other's block; below that level e's chain is on every returning path"""
    le, lo = levels(e), levels(other)
    d = 0
    while d < len(le) and d < len(lo) and le[d][0].fn.path == lo[d][0].fn.path and le[d][0].bb == lo[d][0].bb:
        d += 1
    if d >= len(le) or d >= len(lo) or le[d][0].fn.path != lo[d][0].fn.path:
        return False
    f = le[d][0].fn

    def anchor(level):
        c = le[level][0]
        if level == upto[0] and upto[1] is not None:
            return upto[1].header
        return c.bb
    if d > upto[0]:
        return False
    if not f.dominates(anchor(d), lo[d][0].bb) or anchor(d) == lo[d][0].bb:
        return False
    for k in range(d + 1, upto[0] + 1):
        g = le[k][0].fn
        if g.kind == 'Closure':
            return False
        a = anchor(k)
        seen = g.reachable(0, stop={a})
        if any(b in seen and b != a for b in g.return_blocks()):
            return False
    return True


# ---------------------------------------------------------------------------------------------------------------
# values: configuration fields, loop elements, alternatives
# ---------------------------------------------------------------------------------------------------------------
class Cfg:
    """the configuration parameter of an entry function"""

    def __init__(self, fn, index, fields):
        self.fn, self.index, self.fields = fn, index, fields

    def is_cfg(self, v):
        v = strip(v)
        return v[0] == 'param' and v[1] == self.fn.path and v[2] == self.index

    def exact(self, v):
        """field name when v *is* config.<field> (modulo unwrap / borrow)"""
        v = strip(v)
        if v[0] == 'field' and v[2] in self.fields and self.is_cfg(v[1]):
            return v[2]
        return None

    def within(self, v):
        """first config field mentioned anywhere in v"""
        for x in walk(v):
            if x[0] == 'field' and x[2] in self.fields and self.is_cfg(x[1]):
                return x[2]
        return None

    def all_within(self, v):
        return {x[2] for x in walk(v) if x[0] == 'field' and x[2] in self.fields and self.is_cfg(x[1])}


# ---------------------------------------------------------------------------------------------------------------
# push-built vectors: `let mut v = Vec::new(); for x in xs { v.push(g(x)); }` is `xs.into_iter().map(g).collect()`
# ---------------------------------------------------------------------------------------------------------------
# The slicer names such a vector by its creation (`Vec::new()` / `Vec::with_capacity(n)` at a site) and does not see
# what the loop pushes.  `push_built` reads the loop off the MIR of the function that owns the vector and `xalts`
# composes it with the iterator algebra, so that a vector collected by hand is the collection it was filled from —
# wherever it is consumed afterwards (stored by a setter / constructor, iterated by a second loop, handed to a bulk
# setter).  (local workaround; lib/value could give such vectors a `collect` normal form of their own)
def _fn_loops(sl, fn):
    cache = sl.__dict__.setdefault('_c17_loops', {})
    if fn.path not in cache:
        from .lib.effects import find_loops
        cache[fn.path] = find_loops(fn, sl)
    return cache[fn.path]


_EMPTY_CTOR = ('::new', '::default', '::with_capacity')


def _vec_site_local(prog, v, any_collection=False):
    """(fn, local) of the vector created empty by the call value v (`Vec::new()` / `Vec::with_capacity(..)` with its
    site), when that local is created there and nowhere else; with any_collection: of whatever a std constructor of
    an empty value (`BTreeMap::new()`, `String::new()`, `Default::default()`) created"""
    if not (isinstance(v, tuple) and v and v[0] == 'call' and len(v) == 4 and v[3]):
        return None
    if not (v[1] in VEC_INIT_EMPTY or (any_collection and v[1].startswith(('std::', 'core::', 'alloc::')) and v[1].endswith(_EMPTY_CTOR))):
        return None
    g = prog.fns.get(v[3][0])
    c = g.call_at(v[3][1]) if g is not None else None
    if c is None or c.indirect or not c.dest or len(c.dest) != 1 or not (c.is_(*VEC_INIT_EMPTY) or (any_collection and c.is_(v[1]))):
        return None
    m = c.dest[0]
    if len(g.whole_defs(m)) != 1 or g.partial_defs(m) or m <= g.argc:
        return None
    return g, m


def _vec_writers(fn, m, captures=None):
    """(calls that receive a whole `&mut m`, other ways the vector can be written: partial / escaping borrows); closures
    that capture a whole `&mut m` are appended to `captures` (closure local, closure path, upvar indices) when given"""
    tmps, other = set(), []
    for b in fn.blocks:
        for s in b['s']:
            if s[0] == '=' and s[2]['r'] in ('ref', 'rawptr') and s[2]['p'][0] == m and (s[2].get('mut') or s[2]['r'] == 'rawptr'):
                if len(s[1]) == 1 and [p for p in s[2]['p'][1:] if p != '*'] == [] and s[2]['r'] == 'ref':
                    tmps.add(s[1][0])
                else:
                    other.append('a mutable borrow of part of the vector')
    calls = []
    for t in tmps:
        for bi, kind, idx, how, pl in fn.uses_of(t):
            c = fn.call_at(bi) if kind == 'arg' else None
            st = fn.blocks[bi]['s'][idx] if kind == 'stmt' else None
            if st is not None and how == 'm' and len(pl) == 1 and st[2]['r'] == 'agg' and st[2].get('kind') == 'closure' and len(st[1]) == 1 and captures is not None:
                captures.append((st[1][0], st[2]['def'], [i for i, o in enumerate(st[2]['ops']) if op_place(o) == [t]]))
            elif c is None or idx != 0 or how != 'm' or len(pl) != 1:
                other.append('the mutable borrow is kept / passed on')
            else:
                calls.append(c)
        if len(fn.whole_defs(t)) != 1:
            other.append('a reused borrow')
    return calls, other


def vec_untouched(prog, v):
    """the collection created empty by the call value v is never written afterwards (True / False; None = not such a
    value, or not created into a local of its own)"""
    gm = _vec_site_local(prog, strip(v), any_collection=True)
    if gm is None:
        return None
    caps = []
    calls, other = _vec_writers(gm[0], gm[1], caps)
    return not calls and not other and not caps


def push_built(sl, v):
    """v names a vector that is created empty and filled by one `push` in one loop (and written by nothing else), and
    read only after that loop: -> (iterated expression, pushed value, flag) in the terms of the function that owns the
    vector (for a private helper that returns such a vector: in the caller's terms); flag False = one push in every
    iteration and the loop runs to the end | True = some iterations push nothing (a filter) | 'trunc' = the loop can
    be left early on the way to a reader (take_while).  None when v is not such a vector."""
    prog = sl.prog
    v = strip(v)
    if not (isinstance(v, tuple) and v and v[0] == 'call' and len(v) == 4):
        return None
    if v[1] not in VEC_INIT_EMPTY:
        # a private helper whose result is such a vector: the model in the caller's terms
        h = prog.fns.get(v[1])
        if h is None or h.kind == 'Closure' or h.crate != 'libcnb_test' or not h.ret.startswith('std::vec::Vec<') or len(v[2]) != h.argc:
            return None
        inner = push_built(sl, sl.local(h, 0))
        if inner is None:
            return None
        m = {(h.path, i): a for i, a in enumerate(v[2])}
        return subst(inner[0], m, sl), subst(inner[1], m, sl), inner[2]
    cache = sl.__dict__.setdefault('_c17_push', {})
    key = tuple(v[3])
    if key not in cache:
        cache[key] = _push_built(sl, prog, v)
    return cache[key]


def _push_built(sl, prog, v):
    gm = _vec_site_local(prog, v)
    if gm is None:
        return None
    fn, m = gm
    init_bb = v[3][1]
    caps = []
    calls, other = _vec_writers(fn, m, caps)
    if not other and not calls and len(caps) == 1:
        return _pushed_by_consumer(sl, prog, fn, m, init_bb, caps[0])
    if other or caps or len(calls) != 1 or sink_kind(calls[0]) not in ('PUSH', 'EXTEND') or len(calls[0].args) != 2:
        return None
    push = calls[0]
    if sink_kind(push) == 'EXTEND':
        # `let mut v = Vec::new(); v.extend(xs);` — executed at most once, the vector read only afterwards
        if not _once_then_read(fn, m, init_bb, push.bb):
            return None
        coll = sl.operand(fn, push.args[1])
        return coll, iters.elem_of(coll), False
    loops = [L for L in _fn_loops(sl, fn) if push.bb in L.body and push.bb != L.header]
    if len(loops) != 1 or loops[0].collection is None or getattr(loops[0], 'exhaust', None) is None:
        return None
    L = loops[0]
    # created once, before the loop; pushed at most once per iteration
    if init_bb in L.body or init_bb in fn.reachable(L.header):
        return None
    again = set()
    for s in fn.succs(push.bb):
        again |= fn.reachable(s, stop={L.header})
    if push.bb in again:
        return None
    # read only after the loop
    readers = set()
    for bi, kind, idx, how, pl in fn.uses_of(m):
        if kind == 'drop' or how == 'refmut':
            continue
        if bi in L.body or not fn.dominates(L.header, bi):
            return None
        readers.add(bi)
    flag = False
    work, seen = [s for s in fn.succs(L.header) if s in L.body], set()
    while work:
        b = work.pop()
        if b in seen or b == push.bb:
            continue
        seen.add(b)
        if b == L.header:
            flag = True         # an iteration that pushes nothing
            break
        work.extend(s for s in fn.succs(b) if s in L.body)
    for x in set(L.exit_bb or []) - {L.exhaust[1]}:
        if fn.blocks[x].get('cleanup') or fn.blocks[x]['t']['t'] == 'unreachable':
            continue
        if readers & fn.reachable(x):
            flag = 'trunc'      # the loop can be left early and the vector is still read
    return L.collection, sl.operand(fn, push.args[1]), flag


def _once_then_read(fn, m, init_bb, bb):
    """the call at bb runs at most once, after the vector m was created, and every read of m comes after it"""
    again = set()
    for s in fn.succs(bb):
        again |= fn.reachable(s)
    if bb in again or init_bb in again or init_bb == bb:
        return False
    for bi, kind, idx, how, pl in fn.uses_of(m):
        if kind == 'drop' or how == 'refmut':
            continue
        if bi == bb or not fn.dominates(bb, bi):
            return False
    return True


def _pushed_by_consumer(sl, prog, fn, m, init_bb, cap):
    """`xs.into_iter().for_each(|x| v.push(g(x)))`: the closure that captured `&mut v` is the body of a loop over xs"""
    cl_local, cl_path, idxs = cap
    g = prog.fns.get(cl_path)
    if g is None or len(idxs) != 1:
        return None
    uses = fn.uses_of(cl_local)
    if len(uses) != 1 or uses[0][1] != 'arg' or uses[0][2] != 1 or uses[0][3] != 'm':
        return None
    each = fn.call_at(uses[0][0])
    if each is None or each.indirect or each.decl != IT + 'for_each' or len(each.args) != 2:
        return None
    if not _once_then_read(fn, m, init_bb, each.bb):
        return None
    sym = sl.__dict__.get('_c17_sym')
    if sym is None:
        sym = sl.__dict__['_c17_sym'] = type(sl)(prog, sl.max_depth)
        sym.symbolic_upvars = True
    up = ('upvar', g.path, idxs[0])
    touching = []
    for c in g.calls:
        vals = [sym.operand(g, a) for a in c.args]
        if any(x[:3] == up for a in vals for x in walk(a)):
            touching.append((c, vals))
    for b in g.blocks:
        for st in b['s']:
            if st[0] == '=' and st[2]['r'] == 'agg' and any(x[:3] == up for o in st[2]['ops'] for x in walk(sym.operand(g, o))):
                return None         # handed on to something else (an inner closure, a struct)
    if len(touching) != 1:
        return None
    push, vals = touching[0]
    if sink_kind(push) != 'PUSH' or len(vals) != 2 or strip(vals[0])[:3] != up or any(x[:3] == up for x in walk(vals[1])):
        return None
    again = set()
    for s in g.succs(push.bb):
        again |= g.reachable(s)
    if push.bb in again:
        return None
    seen = g.reachable(0, stop={push.bb})
    flag = any(b in seen and b != push.bb for b in g.return_blocks())      # some elements push nothing
    coll = sl.operand(fn, each.args[0])
    clv = strip(sl.operand(fn, each.args[1]))
    mp = {(g.path, 1): iters.elem_of(coll)}
    if clv[0] == 'closure':
        for i, uv in enumerate(clv[2]):
            mp[('upvar', g.path, i)] = uv
    return coll, subst(vals[1], mp, sl), flag


class _WordHelpers:
    """the slicer, with one more normal form for the iterator algebra: a closure whose result is a call of a private
    workspace helper that returns a literal array / vector (`|(k, v)| env_args(k, v)` with `fn env_args(k, v) ->
    [String; 2] { [String::from("--env"), format!("{k}={v}")] }`) returns that literal, in the closure's terms
    (local workaround: lib/iters applies closures but does not look through helpers in their results)"""

    def __init__(self, sl):
        self._sl = sl

    def __getattr__(self, k):
        return getattr(self._sl, k)

    def apply_closure(self, clv, args):
        r = self._sl.apply_closure(clv, args)
        return _word_helper_result(self._sl, r) if r is not None else None


def _word_helper_result(sl, r):
    """r, or — when r is a call of a private workspace helper that returns a literal array / vector of words
    (`env_args(k, v)`) — that literal in the caller's terms"""
    h = strip(r)
    if h[0] == 'call':
        g = sl.prog.fns.get(h[1])
        if g is not None and g.kind != 'Closure' and g.crate == 'libcnb_test' and (g.ret.startswith('[') or g.ret.startswith('std::vec::Vec<')):
            r2 = sl.inline_call(r)
            if r2 is not None and strip(r2)[0] == 'array':
                return r2
    return r


def xalts(sl, v, depth=0):
    """iters.alts with push-built vectors decomposed: the elements of such a vector are the pushed values, ranging
    over what the filling loop ranges over"""
    out = []
    for e, fa, fl in iters.alts(_WordHelpers(sl), v):
        pm = push_built(sl, fa) if (fa is not None and depth < 4) else None
        if pm is None:
            out.append((e, fa, fl))
            continue
        coll, pushed, flag = pm
        own = canon(iters.elem_of(strip(fa)))
        own2 = canon(iters.elem_of(fa))
        for e2, fa2, fl2 in xalts(sl, coll, depth + 1):
            p2 = pushed
            if canon(e2) != canon(iters.elem_of(coll)):
                p2 = subst(pushed, {'__repl__': [(canon(iters.elem_of(coll)), e2)]}, sl)
            e3 = subst(e, {'__repl__': [(own, p2), (own2, p2)]}, sl)
            out.append((e3, fa2, iters._fl(fl, fl2, flag)))
    return out


def range_collection(v):
    """X when v is `0..X.len()`: `for i in 0..xs.len() { .. xs[i] .. }` visits xs like `for x in &xs` (None otherwise)"""
    v = strip(v) if isinstance(v, tuple) and v else v
    if isinstance(v, tuple) and v and v[0] == 'agg' and v[1] == 'std::ops::Range' and len(v[3]) == 2:
        d = dict(v[3])
        s, e = strip(d.get('start', ('unknown',))), strip(d.get('end', ('unknown',)))
        if s == ('const', 0) and e[0] == 'call' and e[1].endswith('::len') and len(e[2]) == 1 \
                and e[1].startswith(('std::vec::Vec', 'std::slice', 'core::slice', 'std::collections::VecDeque')):
            return e[2][0]
    return None


def indexed_element(v):
    """`xs[i]` where i is the loop variable of `for i in 0..xs.len()`: the element of a loop over xs, else None"""
    if not (isinstance(v, tuple) and v and v[0] == 'call' and v[1].endswith('::index') and len(v[2]) == 2):
        return None
    i = v[2][1]
    if not (isinstance(i, tuple) and i and i[0] == 'unwrap' and i[1][0] == 'call' and i[1][1].endswith('::next') and len(i[1][2]) == 1):
        return None
    x = range_collection(i[1][2][0])
    if x is None or canon(strip(x)) != canon(strip(v[2][0])):
        return None
    return iters.elem_of(strip(x))


def whole_collection(sl, x, cfg, mapped=False):
    """field name when iterating x visits every element of config.<field> once, unchanged and in the collection's
    own order (`&c`, `c.iter()`, `.copied()`, `.cloned()`, collected copies ...); None for filtered, zipped or
    reversed iterations, and — unless `mapped` — for iterations that transform the elements"""
    if x is None:
        return None
    x = range_collection(x) or x
    if any(y[0] == 'call' and y[1].endswith('::rev') for y in walk(x)):
        return None
    al = xalts(sl, x)
    if len(al) != 1:
        return None
    elem, fa, filtered = al[0]
    if filtered or fa is None:
        return None
    if not mapped and canon(elem) != canon(iters.elem_of(fa)):
        return None
    return cfg.exact(fa)


def element_of(sl, v, cfg):
    """(field, projections) when v is a projection of the loop element of config.<field>: `elem`, `elem.0`, `elem.1`"""
    v = strip(v)
    proj = []
    while v[0] == 'field':
        proj.append(v[2])
        v = strip(v[1])
    if v[0] == 'call' and v[1] == IT + 'next' and v[2]:
        fld = whole_collection(sl, v[2][0], cfg)
        if fld is not None:
            return fld, tuple(reversed(proj))
    return None


def literal_sequence(prog, sl, v):
    """the leading elements of a literal sequence value: an array; `vec![..]` (read at the site that builds the
    vector); a vector that is created there and then filled by unconditional, straight-line `push`es
    (`let mut v = Vec::new(); v.push(a); v.push(b);` is `vec![a, b]`).  Whatever else is done to the vector must only
    append (push / extend): anything that could reorder or remove makes the value no literal (None)."""
    v = strip(v)
    if v[0] == 'array':
        return list(v[1])
    if v[0] == 'call' and (v[1] in VEC_INIT_ARRAY or v[1] in VEC_INIT_EMPTY) and len(v) == 4 and v[3]:
        g = prog.fns.get(v[3][0])
        c = g.call_at(v[3][1]) if g is not None else None
        if c is not None and c.dest and len(c.dest) == 1:
            m = c.dest[0]
            init = _vec_initial(sl, g, m)
            if init is None or g.partial_defs(m):
                return None
            caps = []
            writers, other = _vec_writers(g, m, caps)
            if other or caps or any(sink_kind(w) not in ('PUSH', 'EXTEND') for w in writers):
                return None
            readers = [u[0] for u in g.uses_of(m) if u[1] != 'drop' and u[3] != 'refmut']
            cmp = _order_cmp(g)
            writers.sort(key=functools.cmp_to_key(lambda a, b: cmp(a.bb, b.bb)))
            seq = list(init)
            for i, w in enumerate(writers):
                after = set()
                for s_ in g.succs(w.bb):
                    after |= g.reachable(s_)
                if sink_kind(w) != 'PUSH' or len(w.args) != 2 or w.bb in after or not all(r != w.bb and g.dominates(w.bb, r) for r in readers):
                    break
                if any(w.bb in g.reachable(x.bb) for x in writers[i + 1:]):
                    break       # another writer may run first
                seq.append(sl.operand(g, w.args[1]))
            return seq or None
    return None


def alternatives(v, opaque=(), limit=64):
    """the phi-free alternatives of a value: phis are distributed over the enclosing constructors (the arguments
    of calls named in `opaque` are left alone)"""
    if not isinstance(v, tuple) or not v or not isinstance(v[0], str):
        return [v]
    if v[0] == 'phi':
        out = []
        for x in v[1]:
            for a in alternatives(x, opaque, limit):
                if a not in out:
                    out.append(a)
        return out[:limit]
    if v[0] in ('const', 'param', 'fnitem', 'constitem', 'unknown', 'closure_env', 'upvar', 'closure'):
        return [v]
    if v[0] == 'call' and v[1] in opaque:
        return [v]
    combos = [()]
    for x in v:
        if isinstance(x, tuple) and x and isinstance(x[0], str):
            xs = alternatives(x, opaque, limit)
        elif isinstance(x, tuple):
            # a tuple of sub-values (call arguments, aggregate fields)
            xs = [()]
            for y in x:
                ys = alternatives(y, opaque, limit) if isinstance(y, tuple) else [y]
                xs = [a + (b,) for a in xs for b in ys][:limit]
        else:
            xs = [x]
        combos = [a + (b,) for a in combos for b in xs][:limit]
    return combos


def lift_to(prog, sl, entry, v, depth=4, share=None):
    """values equal to v with the parameters of private helpers replaced by what their call sites (reached from
    `entry`) pass in: a decision taken inside `check_result(&config.expected, ..)` is a decision on config.expected"""
    foreign = [x[1] for x in walk(v) if x[0] == 'param' and x[1] != entry.path]
    if not foreign or depth <= 0:
        return [v]
    h = foreign[0]
    E = Effects(prog, sl, vocab={h: ('SITE', None)})
    if share is not None:
        E._loops, E._sites, E._conds = share._loops, share._sites, share._conds    # per-function caches
    out = []
    for e in E.expand(entry, 'may'):
        if e.kind == 'SITE' and e.call is not None and e.call.name == h:
            m = {(h, i): a for i, a in enumerate(e.args or ())}
            out.extend(lift_to(prog, sl, entry, subst(v, m, sl), depth - 1, share))
    return out or [v]


# ---------------------------------------------------------------------------------------------------------------
# Part B: argv model of `impl From<X> for Command`
# ---------------------------------------------------------------------------------------------------------------
from .lib.cmdmodel import Item, classify as _classify, _field_of_param0  # noqa: E402

CMD = 'std::process::Command::'


def sink_kind(c):
    if c.indirect:
        return None
    for n in (c.res, c.decl):
        if not n:
            continue
        if n in (CMD + 'new', CMD + 'arg', CMD + 'args'):
            return n[len(CMD):].upper()
        if n in ('std::vec::Vec::<T, A>::push', 'std::vec::Vec::<T>::push'):
            return 'PUSH'
        if n in ('std::vec::Vec::<T, A>::extend_from_slice', 'std::vec::Vec::<T, A>::append'):
            return 'EXTEND'
    if c.decl == 'std::iter::Extend::extend' and (c.res or '').startswith('<std::vec::Vec<'):
        return 'EXTEND'
    return None


_CLOSURE_CALLS = ('std::ops::Fn::call', 'std::ops::FnMut::call_mut', 'std::ops::FnOnce::call_once')


def expand_local_closure_call(E, fn, c, forall, mode, mapping, chain, stack, out):
    """`let mut option = |name, value| { command.args([name, value]); }; option("--env", &pair);` — a call of a closure
    that is defined in the same function runs the closure's body with its parameters bound to the call's arguments,
    like a call of a private helper (lib/effects reports such calls as opaque CALLBACKs; local workaround).
    Returns True when the call was expanded."""
    if c.indirect or c.decl not in _CLOSURE_CALLS or len(c.args) != 2:
        return False
    clv = strip(E.slicer.operand(fn, c.args[0]))
    if clv[0] != 'closure' or E.prog.fns.get(clv[1]) is None:
        return False
    tv = strip(E.slicer.operand(fn, c.args[1]))
    if tv[0] != 'tuple':
        return False
    E._expand_closure(fn, c, clv, list(tv[1]), forall, mode, mapping, chain, stack, out)
    return True


class CallEffects(Effects):
    """Effects that also run closures called where they are defined"""

    def _expand_call1(self, fn, c, forall, mode, mapping, chain, stack, out):
        if expand_local_closure_call(self, fn, c, forall, mode, mapping, chain, stack, out):
            return
        return Effects._expand_call1(self, fn, c, forall, mode, mapping, chain, stack, out)


class SinkEffects(Effects):
    """Effects whose vocabulary is the argv sinks (Command::new/arg/args, Vec::push/extend); `Extend::extend` is an
    iterator consumer for the library, so the sinks are intercepted before the generic expansion (local workaround)"""

    _INTO = _re.compile(r'^<(.+) as std::convert::Into<std::process::Command>>::into$')

    def _from_impl(self, c):
        """`x.into()` with the target type Command is `Command::from(x)` (std's blanket impl): the workspace conversion
        it enters (local workaround; lib/mir.callee_fns does not look through the blanket `Into` impl)"""
        for n in (c.res, c.full, c.name):
            m = self._INTO.match(n or '')
            if m:
                for f in self.prog.fns.values():
                    if f.path.endswith('<impl std::convert::From<%s> for std::process::Command>::from' % m.group(1)):
                        return f
        return None

    def _expand_call1(self, fn, c, forall, mode, mapping, chain, stack, out):
        k = sink_kind(c)
        if k is None and expand_local_closure_call(self, fn, c, forall, mode, mapping, chain, stack, out):
            return
        if k is None:
            g = self._from_impl(c) if not c.indirect and (c.decl or '').endswith('::Into::into') else None
            if g is not None:
                m = self.call_mapping(fn, c, g, mapping)
                out.extend(self.expand(g, mode, None, m, chain + (Link(c, mapping),), stack))
                return
            return Effects._expand_call1(self, fn, c, forall, mode, mapping, chain, stack, out)
        args = tuple(self.subst(self.slicer.operand(fn, a), mapping) for a in c.args)
        ef = Eff(k, None, c, chain, mode == 'must', self.subst(forall, mapping) if forall is not None else None, args)
        ef.mapping = mapping
        out.append(ef)


def _through_moves(fn, pl, refs=True):
    """local behind a place, following whole-local moves / copies / borrows"""
    seen = set()
    while pl is not None and len([p for p in pl[1:] if p != '*']) == 0 and pl[0] not in seen:
        seen.add(pl[0])
        defs = fn.whole_defs(pl[0])
        if len(defs) == 1 and defs[0][0] == 'stmt':
            rv = defs[0][3]
            if rv['r'] == 'use' and op_place(rv['o']) is not None:
                pl = op_place(rv['o'])
                continue
            if refs and rv['r'] == 'ref':
                pl = rv['p']
                continue
        return pl[0]
    return None


def _vec_local(fn, operand):
    """local of type Vec behind an operand (`&mut v`, `move v`, `&v`), or None"""
    pl = op_place(operand)
    if pl is None:
        return None
    m = _through_moves(fn, pl)
    if m is None or m <= fn.argc:
        return None
    return m if fn.local_ty(m).startswith('std::vec::Vec<') else None


_WHOLE_VIEWS = ('::deref', '::as_slice', '::as_ref', '::borrow', '::into_iter', '::iter')


def _vec_local_deep(fn, operand):
    """_vec_local, also through the whole-collection views of a vector (`&words[..]` via deref, `words.iter()`,
    `words.into_iter()`, `words.as_slice()`): they hand over every element in order"""
    for _ in range(4):
        m = _vec_local(fn, operand)
        if m is not None:
            return m
        pl = op_place(operand)
        l = _through_moves(fn, pl) if pl is not None else None
        d = fn.whole_defs(l) if l is not None and l > fn.argc else []
        c = d[0][3] if len(d) == 1 and d[0][0] == 'call' else None
        if c is None or c.indirect or len(c.args) != 1 or not (c.name or '').endswith(_WHOLE_VIEWS) \
                or not (c.name or c.full or '').startswith(('<std::vec::Vec<', 'std::vec::Vec::', '<&std::vec::Vec<', 'core::slice::', 'std::slice::', '<&[', '<[')) and 'std::vec::Vec<' not in (c.full or c.name or ''):
            return None
        operand = c.args[0]
    return None


def _vec_initial(sl, fn, m):
    """values the vector local m starts with ([] for Vec::new(), the literal's elements for vec![..]), or None"""
    defs = fn.whole_defs(m)
    if len(defs) != 1:
        return None
    d = defs[0]
    if d[0] == 'call':
        c = d[3]
        if c.indirect:
            return None
        if c.is_(*VEC_INIT_EMPTY):
            return []
        if c.is_(*VEC_INIT_ARRAY) and c.args:
            v = strip(sl.operand(fn, c.args[0]))
            if v[0] == 'array':
                return list(v[1])
            box = _through_moves(fn, op_place(c.args[0]), refs=False)
            arrays = []
            for b in fn.blocks:
                for s in b['s']:
                    if s[0] == '=' and len(s[1]) > 1 and s[2]['r'] == 'agg' and s[2].get('kind') == 'array' and _derives(fn, s[1][0], box):
                        arrays.append(s[2])
            if len(arrays) == 1:
                return [sl.operand(fn, o) for o in arrays[0]['ops']]
            return None
    v = strip(sl.local(fn, m))
    if v[0] == 'array':
        return list(v[1])
    return None


def _derives(fn, local, box, depth=6):
    """local is a pointer computed from the box local (the destination of the array literal of `vec![..]`)"""
    while depth > 0:
        depth -= 1
        if local == box:
            return True
        defs = fn.whole_defs(local)
        if len(defs) != 1 or defs[0][0] != 'stmt':
            return False
        rv = defs[0][3]
        if rv['r'] in ('use', 'cast') and op_place(rv['o']) is not None:
            local = op_place(rv['o'])[0]
        elif rv['r'] in ('ref', 'rawptr', 'cfd'):
            local = rv['p'][0]
        else:
            return False
    return False


def _vec_other_writers(fn, m):
    """calls that take `&mut m` and are not push / extend: they may reorder or drop elements"""
    bad = []
    tmps = set()
    for b in fn.blocks:
        for s in b['s']:
            if s[0] == '=' and s[2]['r'] == 'ref' and s[2].get('mut') and s[2]['p'][0] == m:
                if len(s[1]) == 1 and [p for p in s[2]['p'][1:] if p != '*'] == []:
                    tmps.add(s[1][0])
                else:
                    bad.append('a mutable borrow of part of the vector')
    for c in fn.calls:
        for ai, a in enumerate(c.args):
            pl = op_place(a)
            if pl and pl[0] in tmps:
                if not (ai == 0 and sink_kind(c) in ('PUSH', 'EXTEND')):
                    bad.append(c.name or 'indirect call')
    return bad


def _struct_field_types(prog, fn):
    ty = fn.args[0] if fn.args else None
    if ty and ty.startswith('&'):
        ty = ty[5:] if ty.startswith('&mut ') else ty[1:]      # a conversion that only borrows the struct
    try:
        adt = prog.adt(ty)
    except Exception:
        return {}
    return {x['name']: x['ty'] for x in adt['variants'][0]['fields']}


def _is_elem_chain(elem, fa):
    """elem is `unwrap(next(..unwrap(next(fa))..))`: the collection's own elements (possibly one level of flattening)"""
    e = iters.elem_of(fa)
    for _ in range(3):
        if canon(elem) == canon(e):
            return True
        e = iters.elem_of(e)
    return False


ONE_ELEMENT = ('std::slice::from_ref', 'core::slice::from_ref', 'std::array::from_ref', 'core::array::from_ref', 'std::slice::from_mut', 'std::array::from_mut')


def norm_iterable(v, depth=0):
    """v with `slice::from_ref(x)` / `array::from_ref(x)` rewritten to the one-element literal `[x]` they denote, so that
    the iterator algebra names the element itself (local workaround: lib/iters.alts does not know these sources)"""
    if not isinstance(v, tuple) or not v or depth > 40:
        return v
    if v[0] == 'call' and v[1] in ONE_ELEMENT and len(v[2]) == 1:
        return ('array', (norm_iterable(v[2][0], depth + 1),))
    if not any(isinstance(x, tuple) for x in v):
        return v
    return tuple(norm_iterable(x, depth + 1) if isinstance(x, tuple) else x for x in v)


def norm_elements(sl, v, depth=0):
    """v with `next()` of a decomposable iteration replaced by the element the iterator algebra names: the element of
    `xs.iter().map(f)` is `f(element of xs)`, that of `[x]` is x.  A helper that loops over an iterable parameter sees
    the caller's pipeline only after substitution, so the effect expansion leaves `next(<pipeline>)` in the values
    (local workaround; lib/effects decomposes loop collections in the helper's own terms only).  Filtered / truncated /
    multi-alternative iterations are left as they are."""
    if not isinstance(v, tuple) or not v or depth > 40:
        return v
    ie = indexed_element(v)
    if ie is not None:
        return ie
    if v[0] == 'unwrap' and isinstance(v[1], tuple) and v[1] and v[1][0] == 'call' and v[1][1] == IT + 'next' and len(v[1][2]) == 1:
        coll = norm_iterable(v[1][2][0])
        al = xalts(sl, coll)
        if len(al) == 1 and not iters.trivial(al, coll) and not al[0][2]:
            elem, fa, _ = al[0]
            if canon(elem) != canon(v):
                return norm_elements(sl, elem, depth + 1) if fa is None else elem
        return v
    if not any(isinstance(x, tuple) for x in v):
        return v
    nv = tuple(norm_elements(sl, x, depth + 1) if isinstance(x, tuple) else x for x in v)
    if nv[0] == 'field' and isinstance(nv[2], str) and nv[2].isdigit():
        b = strip(nv[1])
        if b[0] == 'tuple' and int(nv[2]) < len(b[1]):
            return b[1][int(nv[2])]         # a component of a pair the pipeline built: `(k, v).0` is k
    return nv


class _Contribution:
    def __init__(self, value, loop, guards, splat=False, note=None):
        self.value, self.loop, self.guards, self.splat, self.note = value, loop, guards, splat, note


def elements(sl, fn, v, ftypes):
    """the argv words an iterable argument contributes, in order: [_Contribution]"""
    v0 = strip(norm_iterable(v))
    v0 = strip(_word_helper_result(sl, v0))
    if v0[0] == 'array':
        return [_Contribution(x, None, []) for x in v0[1]]
    out = []
    al = xalts(sl, v0)
    for elem, fa, filtered in al:
        guards = []
        loop = None
        note = 'a filtered iteration' if filtered else None
        splat = False
        if fa is not None:
            f0 = strip(fa)
            if f0[0] == 'call' and f0[1] in ('core::bool::<impl bool>::then', 'core::bool::<impl bool>::then_some') and len(f0[2]) == 2:
                # `flag.then(|| word)` as an iterable: the word, if the flag is set
                if _is_elem_chain(elem, fa):
                    w = sl.apply_closure(f0[2][1], ()) if f0[1].endswith('::then') else f0[2][1]
                    if w is not None:
                        elem = w
                fld = _field_of_param0(f0[2][0], fn)
                if fld is not None:
                    guards.append((fld, True))
                else:
                    note = 'a word under an unrecognised condition'
            else:
                fld = _field_of_param0(fa, fn)
                if fld is None:
                    note = note or 'elements of an iterable that is not a field of the command struct'
                elif ftypes.get(fld, '').startswith('std::option::Option<') and not _is_nested_collection(ftypes.get(fld, '')):
                    guards.append((fld, ['Some']))
                elif len(al) == 1 and _is_elem_chain(elem, fa):
                    splat = True
                    if ftypes.get(fld, '').startswith('std::option::Option<'):
                        guards.append((fld, ['Some']))
                else:
                    loop = fld
        out.append(_Contribution(elem, loop, guards, splat, note))
    return out


def _is_nested_collection(ty):
    return ty.startswith('std::option::Option<std::vec::Vec<') or ty.startswith('std::option::Option<std::collections::')


def classify(sl, fn, v):
    e = _classify(fn, v)
    if e[0] == 'other':
        iv = sl.inline_deep(v)
        if iv != v:
            e = _classify(fn, iv)
    return e


def argv_model(prog, sl, fn):
    """-> (program, [Item]) for a `From<X> for Command` function; see the module docstring"""
    E = SinkEffects(prog, sl)
    ftypes = _struct_field_types(prog, fn)
    effs = program_order([e for e in E.expand(fn, 'may') if e.call is not None and e.kind in ('NEW', 'ARG', 'ARGS', 'PUSH', 'EXTEND')])
    program = None
    vec_effs = {}
    main = []
    for e in effs:
        if e.kind == 'NEW':
            v = strip(e.args[0])
            program = v[1] if v[0] == 'const' else vstr(v)
        elif e.kind in ('PUSH', 'EXTEND'):
            vec_effs.setdefault((e.call.fn.path, _vec_local(e.call.fn, e.call.args[0])), []).append(e)
        else:
            main.append(e)

    def context(e):
        """(guards on struct fields, loop field, note); value-dependent conditions are kept in `issues_of[id(e)]`"""
        guards = []
        issues_of[id(e)] = strict_guard_issues(E, sl, fn, e, ftypes)
        for cd, views, subj in guards_of(E, e):
            if cd.kind == 'bool':
                fld = _field_of_param0(views[0][0], fn)
                if fld is not None:
                    guards.append((fld, cd.outcome))
            elif cd.kind == 'variant' and cd.enum == 'std::option::Option' and subj is not None:
                s0 = strip(subj)
                if s0[0] == 'call' and s0[1] == IT + 'next':
                    continue        # loop progress (`next()` is Some inside / None after a loop), not a condition on a field
                fld = _field_of_param0(subj, fn)
                if fld is not None:
                    guards.append((fld, sorted(cd.outcome)))
        loops = []
        note = None
        for i, kind, L, coll in loop_contexts(E, e):
            if coll is None:
                note = 'inside a loop over an unknown iterator'
                continue
            coll = range_collection(coll) or coll
            if kind == 'mir' and not iters.trivial(xalts(sl, coll), coll):
                if e.forall is not None:
                    coll = e.forall      # unrolled row by row: the row's own collection
                else:
                    # a pipeline that became visible only after substitution (`fn options(values) { for v in values
                    # {..} }` called with `xs.iter().map(f)`): the loop visits the collection the pipeline ranges over
                    al = xalts(sl, norm_iterable(coll))
                    if not al or all(fa is None for _, fa, _ in al):
                        continue         # literal rows: the words are judged one by one
                    if len(al) != 1:
                        note = 'inside a loop over %s' % vstr(coll)[:60]
                        continue
                    if al[0][2]:
                        note = 'inside a filtered iteration'
                    coll = al[0][1]
            fld = _field_of_param0(coll, fn)
            if fld is None:
                note = 'inside a loop over %s' % vstr(coll)[:60]
            elif ftypes.get(fld, '').startswith('std::option::Option<') and not _is_nested_collection(ftypes.get(fld, '')):
                guards.append((fld, ['Some']))
            else:
                loops.append(fld)
        loop = loops[-1] if loops else None
        if len(set(loops)) > 1:
            note = 'inside nested loops over %s' % loops
        guards = [g for g in guards if not (loop and g[0] == loop and g[1] == ['Some'])]
        return guards, loop, note

    def contributions(e, payload, iterable):
        guards, loop, note = context(e)
        issues = issues_of.get(id(e), [])
        kind = 'args' if iterable else 'arg'
        payload = norm_elements(sl, payload)
        if not iterable:
            cs = [_Contribution(payload, None, [])]
        else:
            cs = elements(sl, fn, payload, ftypes)
        items = []
        for c in cs:
            if c.splat:
                el = _classify(fn, c.value)
                el = ('field', el[1], 'splat', None) if el[0] == 'field' else el
            else:
                el = classify(sl, fn, c.value)
            n = c.note or note
            if n:
                el = ('other', '%s (%s)' % (vstr(strip(c.value))[:60], n))
            lp = c.loop or loop
            if c.loop and loop and c.loop != loop:
                el = ('other', '%s (nested loops over %s, %s)' % (vstr(strip(c.value))[:40], loop, c.loop))
            gs = guards + [g for g in c.guards if g not in guards]
            gs = [g for g in gs if not (lp and g[0] == lp and g[1] == ['Some'])]
            if items and items[-1].loop == lp and items[-1].conds == gs:
                items[-1].elems.append(el)
                items[-1].vals.append(c.value)
            else:
                items.append(Item(kind, [el], gs, lp, e.call))
                items[-1].vals = [c.value]          # the raw values, parallel to elems
                items[-1].issues = issues           # value-dependent conditions the contribution is made under
                items[-1].eff, items[-1].E = e, E
        return items

    items = []
    spliced = set()
    issues_of = {}
    for e in main:
        if e.kind == 'ARG':
            items.extend(contributions(e, e.args[1], False))
            continue
        m = _vec_local_deep(e.call.fn, e.call.args[1]) if len(e.call.args) > 1 else None
        g, mp, via = e.call.fn, e.mapping or {}, []
        if m is None and len(e.call.args) > 1:
            # `command_with_args(program, words)`: the sink sits in a private helper that is handed the words as a
            # parameter — the vector is the one the caller built (the argument at the call site, level by level)
            lifted = _lift_vec_operand(prog, e)
            if lifted is not None:
                g, m, mp = lifted
        while m is not None and (g.path, m) not in vec_effs and _vec_initial(sl, g, m) is None and len(via) < 3:
            # `command.args(self.argv())`: the vector a private helper fills and returns — its contributions are the
            # pushes made during *this* call of the helper, in the conversion's terms
            d = g.whole_defs(m)
            ch = d[0][3] if len(d) == 1 and d[0][0] == 'call' else None
            hs = prog.callee_fns(ch) if ch is not None and not ch.indirect else []
            h = hs[0] if len(hs) == 1 and hs[0].kind != 'Closure' else None
            mh = _through_moves(h, [0], refs=False) if h is not None else None
            if mh is None or mh <= h.argc or not h.local_ty(mh).startswith('std::vec::Vec<'):
                break
            mp = E.call_mapping(g, ch, h, mp)
            via.append(ch)
            g, m = h, mh
        key = (g.path, m)
        if m is not None and (key in vec_effs or _vec_initial(sl, g, m) is not None):
            # a vector filled with push / extend and handed over whole: its contributions, at this position
            spliced.add(key)
            init = _vec_initial(sl, g, m)
            if init is None:
                items.append(Item('args', [('other', 'initial contents of the vector %s' % (g.local_name(m) or m))], [], None, e.call))
            elif init:
                items.extend(contributions(e, ('array', tuple(E.subst(x, mp) for x in init)), True))
            for w in _vec_other_writers(g, m):
                items.append(Item('args', [('other', 'the vector %s is also modified by %s' % (g.local_name(m) or m, w))], [], None, e.call))
            for pe in vec_effs.get(key, []):
                if all(any(isinstance(l, Link) and l.call is ch for l in pe.chain) for ch in via):
                    items.extend(contributions(pe, pe.args[1], pe.kind == 'EXTEND'))
            # the hand-over itself may be conditional / in a loop
            guards, loop, note = context(e)
            if guards or loop or note:
                items.append(Item('args', [('other', 'the vector is handed to Command::args conditionally')], guards, loop, e.call))
            continue
        items.extend(contributions(e, e.args[1], True))
    for key, es in vec_effs.items():
        if key not in spliced and any('std::string::String' in (e.call.fn.local_ty(key[1]) if key[1] is not None else 'std::string::String') or True for e in es):
            # words collected in a vector that never reaches Command::args as a whole
            g = prog.fns[key[0]]
            if key[1] is not None and push_built(sl, sl.local(g, key[1])) is not None and _is_vec_site_of(prog, sl.local(g, key[1]), g, key[1]):
                # filled by one loop and read only afterwards: its elements are the pushed values wherever the vector
                # is iterated (xalts); a contribution made from them is judged where it is made
                continue
            if key[1] is None or _word_vector(prog.fns[key[0]], key[1]):
                items.append(Item('args', [('other', 'words pushed onto a vector that is not handed to Command::args as a whole')], [], None, es[0].call))
    return program, items


def _words_source(fn, operand):
    """what a words operand is, through moves, borrows and the whole-collection views (`deref`, `iter()`, `into_iter()`,
    `as_slice()`): -> ('vec', local, locals passed) | ('param', local, locals passed) | None"""
    on_way = set()
    for _ in range(6):
        pl = op_place(operand)
        if pl is None or [p for p in pl[1:] if p != '*']:
            return None
        l = pl[0]
        # step through moves / borrows one at a time, remembering the locals
        seen = set()
        while l not in seen:
            seen.add(l)
            on_way.add(l)
            d = fn.whole_defs(l)
            if l <= fn.argc or len(d) != 1 or d[0][0] != 'stmt':
                break
            rv = d[0][3]
            nxt = op_place(rv['o']) if rv['r'] == 'use' else rv['p'] if rv['r'] == 'ref' else None
            if nxt is None or [p for p in nxt[1:] if p != '*']:
                break
            l = nxt[0]
        if 1 <= l <= fn.argc:
            return 'param', l, on_way
        if fn.local_ty(l).startswith('std::vec::Vec<'):
            return 'vec', l, on_way
        d = fn.whole_defs(l)
        c = d[0][3] if len(d) == 1 and d[0][0] == 'call' else None
        if c is None or c.indirect or len(c.args) != 1 or not (c.name or '').endswith(_WHOLE_VIEWS):
            return None
        n = c.full or c.name or ''
        if not (n.startswith(('core::slice::', 'std::slice::', '<&[', '<[', '<&mut [')) or 'std::vec::Vec<' in n or 'std::vec::Vec::' in n or (n.startswith('<') and n.endswith('IntoIterator>::into_iter'))):
            return None
        operand = c.args[0]
    return None


def _lift_vec_operand(prog, e):
    """the argument of the sink call of effect e is (a whole view of) a parameter of the private helper the call sits
    in: follow it to the call sites along e's chain until it names a local vector -> (fn, local, mapping of that
    level) | None.  The helpers on the way hand on what they were given: nothing borrows the parameter (or a local
    it passes through) mutably — `args.reverse()`, `args.truncate(1)` in a helper would change the words."""
    links = [l for l in e.chain if isinstance(l, Link)]
    g, op = e.call.fn, e.call.args[1]
    k = len(links)
    first = True
    while k >= 0:
        src = _words_source(g, op)
        if src is None:
            return None
        kind, l, on_way = src
        if not first and kind == 'vec':
            return g, l, mp
        if kind != 'param' or g.kind == 'Closure' or k == 0:
            return None
        if any(in_place_users(g, x)[0] or in_place_users(g, x)[1] for x in on_way):
            return None
        lk = links[k - 1]
        if lk.call.indirect or g not in prog.callee_fns(lk.call) or len(lk.call.args) != g.argc:
            return None
        op, g, k, mp, first = lk.call.args[l - 1], lk.call.fn, k - 1, (lk.mapping or {}), False
    return None


def _word_vector(fn, m):
    ty = fn.local_ty(m)
    return any(t in ty for t in ('String', 'str', 'OsStr', 'Path'))


# ---------------------------------------------------------------------------------------------------------------
# Part C: store model of the setters / constructors that carry the configuration
# ---------------------------------------------------------------------------------------------------------------
# A *store* is a write to a field of the setter's `self`: an assignment `self.f = v` or a std call that receives
# `&mut self.f` (insert / push / extend ...), made in the setter itself, in a private helper, in another setter it
# delegates to, or in a closure handed to an iterator consumer — with the written values in the setter's own terms.
class _Assign:
    """an assignment statement presented like a Call, so that the chain / loop / guard helpers apply to it"""
    indirect = False
    decl = res = full = dty = dest = None
    args = ()

    def __init__(self, fn, bb, line, stmt=None):
        self.fn, self.bb, self.line, self.stmt = fn, bb, line, stmt

    @property
    def name(self):
        return '<assign>'

    def names(self):
        return set()

    def is_(self, *names):
        return False

    def where(self):
        return '%s:%s' % (self.fn.file, self.line)


def _self_field(v, entry):
    """(field name, deeper projections) when v is a place inside `self` of the entry function"""
    v = strip(v)
    proj = []
    while v[0] in ('field', 'variant'):
        proj.append(v[2])
        v = strip(v[1])
    if proj and v[0] == 'param' and v[1] == entry.path and v[2] == 0:
        proj.reverse()
        return proj[0], tuple(proj[1:])
    return None


class StoreEffects(Effects):
    def __init__(self, prog, sl, entry):
        Effects.__init__(self, prog, sl)
        self.entry = entry

    def _expand_call1(self, fn, c, forall, mode, mapping, chain, stack, out):
        if expand_local_closure_call(self, fn, c, forall, mode, mapping, chain, stack, out):
            return
        # a std call that receives `&mut <place inside the entry function's self>` (insert / push / extend / entry ...)
        if not c.indirect and c.args and not self.prog.callee_fns(c) and _takes_mut(fn, c):
            recv = self.subst(self.slicer.operand(fn, c.args[0]), mapping)
            if _self_field(recv, self.entry) is not None:
                args = tuple(self.subst(self.slicer.operand(fn, a), mapping) for a in c.args)
                ef = Eff('STORE', None, c, chain, mode == 'must', None, args)
                ef.mapping = mapping
                out.append(ef)
                return
        return Effects._expand_call1(self, fn, c, forall, mode, mapping, chain, stack, out)

    def expand(self, fn, mode='must', site_bbs=None, mapping=None, chain=(), _stack=None):
        out = Effects.expand(self, fn, mode, site_bbs, mapping, chain, _stack)
        if mode != 'may' or fn.path in (_stack or ()) or len(_stack or ()) > self.max_depth:
            return out
        m = mapping or {}
        reach = fn.reachable(0)
        for bi, b in enumerate(fn.blocks):
            if bi not in reach or b.get('cleanup'):
                continue
            for si, st in enumerate(b['s']):
                if st[0] != '=' or len(st[1]) < 2:
                    continue
                dst = self.subst(self.slicer.place(fn, st[1]), m)
                if _self_field(dst, self.entry) is None:
                    continue
                val = self.subst(self.slicer._rvalue(fn, st[2], set(), 0, (bi, si)), m)
                ef = Eff('STORE', None, _Assign(fn, bi, st[3] if len(st) > 3 else fn.line, st), chain, False, None, (dst, val))
                ef.mapping = m
                out.append(ef)
        return out


def _takes_mut(fn, c):
    """the first argument of call c is a mutable borrow (or a moved `&mut` reborrow)"""
    pl = op_place(c.args[0])
    if pl is None:
        return False
    ty = fn.local_ty(pl[0]) if len(pl) == 1 else ''
    return ty.startswith('&mut ')


class Store:
    def __init__(self, field, proj, op, args, eff):
        self.field, self.proj, self.op, self.args, self.eff = field, proj, op, args, eff

    def __repr__(self):
        return 'Store(%s%s %s(%s) @%s)' % (self.field, ''.join('.' + p for p in self.proj), self.op, ', '.join(vstr(a)[:70] for a in self.args), self.eff.where())


def carrier_methods(prog, ty):
    """inherent, hand-written methods of type `ty`"""
    out = []
    for p, f in sorted(prog.fns.items()):
        if p.startswith(ty + '::') and '::' not in p[len(ty) + 2:] and f.kind == 'AssocFn' and not f.derived:
            out.append(f)
    return out


def store_model(prog, sl, fn):
    """(StoreEffects, [Store]) of a `&mut self` method"""
    E = StoreEffects(prog, sl, fn)
    stores = []
    for e in program_order([e for e in E.expand(fn, 'may') if e.kind == 'STORE' and e.call is not None]):
        field, proj = _self_field(e.args[0], fn)
        op = 'assign' if isinstance(e.call, _Assign) else (e.call.name or '?')
        stores.append(Store(field, proj, op, e.args[1:], e))
    return E, stores


import re as _re  # noqa: E402

WRAPPERS = ('std::rc::Rc::<T>::new', 'std::sync::Arc::<T>::new', 'std::boxed::Box::<T>::new', 'std::rc::Rc::<T, A>::new')
_MAP_INSERT = _re.compile(r'^std::collections::(Hash|BTree)Map::<.*>::insert$')
_SET_INSERT = _re.compile(r'^std::collections::(Hash|BTree)Set::<.*>::insert$')
_VEC_PUSH = _re.compile(r'^std::vec::Vec::<.*>::push$|^std::collections::VecDeque::<.*>::push_back$')
_OPT_SET = _re.compile(r'^std::option::Option::<T>::(insert|replace)$')
# container operations that do not simply add / replace what they are given
DIFFERENT = (
    (_re.compile(r'::entry$|::try_insert$'), 'keeps the value already stored under the key (first write wins)'),
    (_re.compile(r'^std::option::Option::<T>::get_or_insert(_with|_default)?$'), 'keeps a value that is already set (first write wins)'),
    (_re.compile(r'^std::vec::Vec::<.*>::insert$'), 'inserts at a chosen position instead of appending'),
    (_re.compile(r'::(retain|retain_mut|dedup|dedup_by|dedup_by_key|truncate|clear|remove|swap_remove|pop|pop_first|pop_last|drain|sort|sort_by|sort_by_key|sort_unstable|reverse|take|split_off)$'),
     'removes or reorders what is stored'),
)


class PCfg:
    """the parameters of a setter / constructor in the role of `Cfg`: exact(v) = index of the parameter v denotes"""

    def __init__(self, fn, first):
        self.fn, self.first = fn, first

    def exact(self, v):
        v = strip(v)
        if v[0] == 'param' and v[1] == self.fn.path and v[2] >= self.first:
            return v[2]
        return None

    def mentioned(self, v):
        return sorted({x[2] for x in walk(v) if x[0] == 'param' and x[1] == self.fn.path and x[2] >= self.first})


def peel(v):
    """the payload of `Some(x)` / `Rc::new(x)` / `Box::new(x)` wrappers (conversions are transparent already)"""
    while True:
        v = strip(v)
        if v[0] == 'agg' and v[2] == 'Some' and v[1] == 'std::option::Option' and v[3]:
            v = dict(v[3]).get('0', ('unknown', 'Some'))
        elif v[0] == 'call' and v[1] in WRAPPERS and len(v[2]) == 1:
            v = v[2][0]
        else:
            return v


def iter_source(sl, v, pcfg):
    """v is a collection / iterator made of *all* elements of one parameter, unchanged and in order:
    -> (param index, [projection of the element each component takes] | None for the element itself, None)
    or (None, None, reason) — reason starts with '!' when elements are certainly dropped / transformed"""
    v = strip(v)
    names = [x[1] for x in walk(v) if x[0] == 'call']
    if any(n.endswith('::rev') for n in names):
        return None, None, '!iterates in reverse order'
    al = xalts(sl, v)
    if len(al) != 1:
        return None, None, 'not a single iteration (%d alternatives)' % len(al)
    elem, fa, flag = al[0]
    if fa is None:
        return None, None, 'a literal, not a parameter'
    p = pcfg.exact(fa)
    if flag:
        return None, None, '!%s elements of the iterable' % ('stops before the end / skips' if flag == 'trunc' else 'filters')
    if p is None:
        return None, None, 'iterates %s' % vstr(fa)[:60]
    base = iters.elem_of(fa)
    e = unconv(elem)
    if canon(e) == canon(base):
        return p, None, None
    if e[0] == 'tuple':
        projs = []
        for x in e[1]:
            x = unconv(x)
            pr = []
            while x[0] == 'field' and canon(x) != canon(base):
                pr.append(x[2])
                x = unconv(x[1])
            if canon(x) != canon(base):
                return None, None, ('!' if _derived_from(elem, base, pcfg) else '') + 'stores %s instead of the element' % vstr(elem)[:60]
            projs.append(tuple(reversed(pr)))
        return p, projs, None
    return None, None, ('!' if _derived_from(elem, base, pcfg) else '') + 'stores %s instead of the element' % vstr(elem)[:60]


def _derived_from(elem, base, pcfg):
    return bool(pcfg.mentioned(elem)) or any(canon(y) == canon(base) for y in walk(elem))


def unconv(v):
    """v without conversion calls that were applied as function items (`.map(Into::into)`, `.map(String::from)`)"""
    from .lib import value as _v
    while isinstance(v, tuple) and v and v[0] == 'call' and len(v[2]) == 1 and \
            (v[1] in _v.TRANSPARENT or v[1] in _v.FROM_NAMES or any(r.match(v[1]) for r in _v._TRX)):
        v = v[2][0]
    return v


APPENDING = ('::push', '::push_str', '::push_back', '::extend', '::extend_from_slice', '::append', '::write_fmt', '::write_str', '::write_char')


def in_place_changes(fn, operands, sl):
    """what is done in place to the locals behind `operands` before they are handed over, other than appending:
    -> ('bad', callee) when something certainly removes / reorders, ('unknown', callee) for any other `&mut` use, None"""
    unknown = None
    for m in mutated_before_store(fn, operands, sl):
        if m.endswith(APPENDING) or _MAP_INSERT.match(m) or _SET_INSERT.match(m):
            continue
        if any(rx.search(m) for rx, _ in DIFFERENT):
            return 'bad', m
        unknown = unknown or ('unknown', m)
    return unknown


def _is_vec_site_of(prog, v, fn, local):
    gm = _vec_site_local(prog, strip(v))
    return gm is not None and gm[0].path == fn.path and gm[1] == local


def _operand_root(fn, operand):
    pl = op_place(operand) if operand is not None else None
    if pl is None:
        return None
    return _through_moves(fn, pl, refs=False)


def mutated_before_store(fn, operands, sl=None):
    """calls that receive `&mut <local>` of a local holding a value about to be stored (`v.dedup()` between the conversion
    and the assignment): [callee names].  The one push that fills a push-built vector (push_built: nothing else writes
    it) is what makes the value, not a change of it."""
    roots = {r for r in (_operand_root(fn, o) for o in operands) if r is not None and r > fn.argc}
    if sl is not None:
        roots = {r for r in roots if push_built(sl, sl.local(fn, r)) is None or not _is_vec_site_of(sl.prog, sl.local(fn, r), fn, r)}
    if not roots:
        return []
    tmps = {}
    for b in fn.blocks:
        if b.get('cleanup'):
            continue
        for s in b['s']:
            if s[0] == '=' and s[2]['r'] == 'ref' and s[2].get('mut') and s[2]['p'][0] in roots and len(s[1]) == 1:
                tmps[s[1][0]] = s[2]['p'][0]
    out = []
    for c in fn.calls:
        for a in c.args:
            pl = op_place(a)
            if pl and pl[0] in tmps:
                out.append(c.name or 'an indirect call')
    return out


def _reached_on_every_return(E, e, upto=None):
    """the store e (or, with `upto` = a loop context, the loop it sits in) is passed on every normally returning
    execution of the entry function"""
    lv = levels(e)
    last = upto[0] if upto is not None else len(lv) - 1
    for k in range(0, last + 1):
        c = lv[k][0]
        g = c.fn
        if g.kind == 'Closure' and k > 0:
            # the closure of a consumer: covered by on_every_iteration
            continue
        a = upto[2].header if (upto is not None and k == last and upto[2] is not None) else c.bb
        seen = g.reachable(0, stop={a})
        if any(b in seen and b != a for b in g.return_blocks()):
            return False
    return True


def _literal_elements(v):
    """v with `next()` of a one-element literal replaced by that element and projections of tuples resolved"""
    if not isinstance(v, tuple) or not v or not isinstance(v[0], str):
        return v
    if v[0] == 'unwrap' and v[1][0] == 'call' and v[1][1] == IT + 'next' and len(v[1][2]) == 1:
        c = strip(v[1][2][0])
        if c[0] == 'array' and len(c[1]) == 1:
            return _literal_elements(c[1][0])
    if v[0] == 'field':
        b = _literal_elements(v[1])
        b0 = strip(b)
        if b0[0] == 'tuple' and v[2].isdigit() and int(v[2]) < len(b0[1]):
            return b0[1][int(v[2])]
        return ('field', b, v[2]) + tuple(v[3:])
    return v


class Verdict:
    def __init__(self, fn):
        self.fn = fn
        self.ok = None            # True | False (violated) | None (unproven)
        self.why = ''
        self.field = None
        self.mode = None          # 'set' | 'add'
        self.op = None
        self.loop_param = None    # the iterable parameter whose elements are stored one by one in a loop (a bulk setter)
        self.slots = []           # per stored component ('0' key / '1' value / '' the element or value): (param, projection)
        self.where = '%s:%d' % (fn.file, fn.line)

    def bad(self, why):
        self.ok, self.why = False, why
        return self

    def unknown(self, why):
        self.ok, self.why = None, why
        return self

    def order(self):
        """store components in the order of the API sources they receive (parameter order, then element component)"""
        return [c for c, src in sorted(self.slots, key=lambda x: (x[1][0], x[1][1]))]


def pname(fn, p):
    first = 1 if (fn.args and fn.args[0].startswith('&')) and 'self' == (fn.local_name(1) or '') else 0
    return fn.local_name(p + 1) or 'parameter %d' % (p - first + 1)


def judge_setter(prog, sl, fn):
    """what a `&mut self` setter stores: exactly its parameters, all of them, unconditionally, into one field"""
    V = Verdict(fn)
    pcfg = PCfg(fn, 1)
    params = list(range(1, fn.argc))
    E, stores = store_model(prog, sl, fn)
    if not stores:
        return V.bad('stores nothing')
    V.where = stores[0].eff.where()
    if len({s.field for s in stores}) != 1:
        return V.unknown('writes several fields: %s' % sorted({s.field for s in stores}))
    V.field = stores[0].field
    if any(s.proj for s in stores):
        return V.unknown('writes only a part of self.%s' % V.field)
    cleared = False
    if len(stores) == 2 and stores[0].op.endswith('::clear') and not stores[0].args and not loop_contexts(E, stores[0].eff) \
            and not [1 for cd, views, subj in guards_of(E, stores[0].eff)] and _reached_on_every_return(E, stores[0].eff):
        cleared = True          # `self.f.clear(); self.f.extend(x)` replaces the contents like an assignment
        stores = stores[1:]
    if len(stores) != 1:
        return V.unknown('%d writes to self.%s' % (len(stores), V.field))
    s = stores[0]
    e = s.eff
    V.op = s.op
    for rx, what in DIFFERENT:
        if rx.search(s.op):
            return V.bad('%s on self.%s %s' % (s.op.split('::')[-1], V.field, what))
    # unconditional
    for cd, views, subj in guards_of(E, e):
        if subj is not None and strip(subj)[0] == 'call' and strip(subj)[1] == IT + 'next':
            continue
        return V.bad('stored only when %s is %s' % (vstr(views[0][0])[:80], sorted(views[0][1]) if isinstance(views[0][1], frozenset) else views[0][1]))
    loops = loop_contexts(E, e)
    if len(loops) > 1:
        return V.unknown('nested loops around the store')
    lp = None
    if loops:
        ctx = loops[0]
        if ctx[3] is None:
            return V.unknown('loop over an unknown iterator')
        al = xalts(sl, ctx[3])
        if len(al) == 1 and al[0][1] is None and not al[0][2]:
            # a one-element literal (`self.envs([(key, value)])`): the body runs exactly once, with the literal's element
            if not on_every_iteration(E, [e], ctx) or not _reached_on_every_return(E, e, ctx):
                return V.bad('not stored on every path')
        else:
            p, projs, why = iter_source(sl, ctx[3], pcfg)
            if p is None:
                return V.bad(why[1:]) if why.startswith('!') else V.unknown(why)
            if projs is not None:
                return V.unknown('loop over transformed elements')
            if not on_every_iteration(E, [e], ctx):
                return V.bad('some elements of `%s` are skipped' % pname(fn, p))
            if not _reached_on_every_return(E, e, ctx):
                return V.bad('the loop over `%s` is not run on every path' % pname(fn, p))
            lp = p
            V.loop_param = p
    elif not _reached_on_every_return(E, e):
        return V.bad('not stored on every path')
    call = e.call
    ops = [call.stmt[2].get('o')] if isinstance(call, _Assign) and call.stmt[2]['r'] == 'use' else list(call.args[1:])
    muts = mutated_before_store(call.fn, ops, sl)
    if muts:
        bad = [m for m in muts if any(rx.search(m) for rx, _ in DIFFERENT)]
        return V.bad('the value is changed by %s before it is stored' % bad[0]) if bad else V.unknown('the value is handed to %s before it is stored' % muts[0])

    def src(a):
        """(param, projection, via) of one stored value"""
        a = peel(_literal_elements(a))
        p = pcfg.exact(a)
        if p is not None:
            return (p, ()), None
        if lp is not None:
            el = element_of(sl, a, pcfg)
            if el is not None:
                return (el[0], tuple(el[1])), None
        m = pcfg.mentioned(a)
        if m or (lp is not None and any(x[0] == 'call' and x[1] == IT + 'next' for x in walk(a))):
            return None, '!stores %s, not the parameter itself' % vstr(a)[:70]
        return None, 'stores %s' % vstr(a)[:70]

    slots = []
    if s.op == 'assign' or _OPT_SET.match(s.op):
        V.mode = 'set'
        if lp is not None:
            return V.unknown('assignment inside a loop')
        val = peel(s.args[0])
        if pcfg.exact(val) is not None:
            slots.append(('', (pcfg.exact(val), ())))
        else:
            p, projs, why = iter_source(sl, val, pcfg) if val[0] == 'call' else (None, None, 'stores %s' % vstr(val)[:70])
            if p is None:
                if why.startswith('!'):
                    return V.bad(why[1:])
                return V.bad('stores %s, not the parameter itself' % vstr(val)[:70]) if pcfg.mentioned(val) else V.unknown(why)
            if projs is not None:
                return V.unknown('stores transformed elements')
            slots.append(('', (p, ('*',))))
    elif _MAP_INSERT.match(s.op) and len(s.args) == 2:
        V.mode = 'add'
        for comp, a in zip(('0', '1'), s.args):
            x, why = src(a)
            if x is None:
                return V.bad(why[1:]) if why.startswith('!') else V.unknown(why)
            slots.append((comp, x))
    elif (_SET_INSERT.match(s.op) or _VEC_PUSH.match(s.op)) and len(s.args) == 1:
        V.mode = 'add'
        x, why = src(s.args[0])
        if x is None:
            return V.bad(why[1:]) if why.startswith('!') else V.unknown(why)
        slots.append(('', x))
    elif (sink_kind(call) == 'EXTEND' or call.decl == 'std::iter::Extend::extend') and len(s.args) == 1:
        V.mode = 'add'
        if lp is not None:
            return V.unknown('extend inside a loop')
        p, projs, why = iter_source(sl, s.args[0], pcfg)
        if p is None:
            return V.bad(why[1:]) if why.startswith('!') else V.unknown(why)
        if projs is None:
            slots.append(('', (p, ('*',))))
        else:
            slots.extend((str(i), (p, ('*',) + pr)) for i, pr in enumerate(projs))
    else:
        return V.unknown('unrecognised write %s on self.%s' % (s.op, V.field))
    if cleared:
        V.mode = 'set'
    V.slots = slots
    srcs = [x for _, x in slots]
    if len(set(srcs)) != len(srcs):
        return V.bad('the same value is stored twice: %s' % srcs)
    missing = [p for p in params if p not in {x[0] for x in srcs}]
    if missing:
        return V.bad('parameter `%s` is never stored' % pname(fn, missing[0]))
    # a pair-valued element must arrive with both components
    for p in {x[0] for x in srcs}:
        comps = sorted(x[1] for x in srcs if x[0] == p)
        tails = [c[1:] if c and c[0] == '*' else c for c in comps]
        tails = [t for t in tails if t]
        if tails and sorted(tails) != [('0',), ('1',)]:
            return V.bad('only component(s) %s of the elements of `%s` are stored' % (tails, pname(fn, p)))
    V.ok = True
    V.why = '%s <- %s' % (V.field, ', '.join('%s%s' % (pname(fn, x[0]), ''.join('.' + c for c in x[1])) for x in srcs))
    return V


def judge_constructor(prog, sl, fn, ty):
    """-> (ok, why, {param index: field}, {field: default value}) for `fn new(..) -> Self`"""
    pcfg = PCfg(fn, 0)
    v = strip(sl.local(fn, 0))
    if v[0] == 'call' and not v[2]:
        g = prog.fns.get(v[1])
        if g is not None and (g.derived or g.path.endswith('::default')):
            return True, 'the derived default', {}, {}
    if v[0] != 'agg' or v[1] != ty:
        return None, 'the constructed value is %s' % vstr(v)[:80], {}, {}
    where, defaults = {}, {}
    for name, fv in v[3]:
        pv = peel(fv)
        p = pcfg.exact(pv)
        built = push_built(sl, pv) if p is None else None     # a vector filled by a loop: its contents, not `Vec::new()`
        if p is None and (pcfg.mentioned(pv) or built is not None):
            p, projs, why = iter_source(sl, pv, pcfg) if pv[0] == 'call' else (None, None, '!')
            if p is None or projs is not None:
                shown = vstr(pv)[:70] if built is None else 'a vector of %s for each of %s' % (vstr(strip(built[1]))[:50], vstr(strip(built[0]))[:40])
                derived = pcfg.mentioned(pv) or (built is not None and (pcfg.mentioned(built[0]) or pcfg.mentioned(built[1])))
                return (False if (why or '').startswith('!') or derived else None), \
                    'field %s is initialised with %s, not with the parameter itself' % (name, shown), where, defaults
        if p is None:
            defaults[name] = fv
            continue
        if p in where:
            return False, 'parameter `%s` initialises both %s and %s' % (fn.local_name(p + 1), where[p], name), where, defaults
        where[p] = name
    missing = [p for p in range(fn.argc) if p not in where]
    if missing:
        return False, 'parameter `%s` is dropped' % fn.local_name(missing[0] + 1), where, defaults
    return True, ', '.join('%s <- %s' % (f, fn.local_name(p + 1)) for p, f in sorted(where.items())), where, defaults


def is_empty_default(v, prog=None):
    """the value is an empty collection / None / a plain literal (a vector created empty must also stay untouched: the
    slicer names a vector by its creation, whatever is pushed onto it afterwards)"""
    v = strip(v)
    if v[0] == 'agg':
        return v[2] == 'None' or not v[3] or all(is_empty_default(x, prog) for _, x in v[3])
    if v[0] == 'const':
        return True
    if prog is not None and vec_untouched(prog, v) is False:
        return False
    if v[0] == 'call' and not v[2]:
        return v[1].endswith(('::new', '::default'))
    if v[0] == 'call' and v[1].endswith('::with_capacity'):
        return True
    return False


# ---------------------------------------------------------------------------------------------------------------
# Part D: conditions an argv contribution is made under, and the grammar of option values
# ---------------------------------------------------------------------------------------------------------------
_COLLECTION_EMPTY = _re.compile(r'^std::(vec::Vec|collections::\w+(::\w+)?)::<.*>::is_empty$|^core::slice::<impl \[T\]>::is_empty$|^std::slice::<impl \[T\]>::is_empty$')


def exact_field(v, fn):
    """name of the field when v *is* a field of the converted struct (borrowed / unwrapped / converted), else None"""
    v = strip(v)
    if v[0] == 'field' and strip(v[1])[0] == 'param' and strip(v[1])[1] == fn.path and strip(v[1])[2] == 0:
        return v[2]
    return None


def strict_guard_issues(E, sl, fn, e, ftypes):
    """conditions on the *contents* of a field under which the contribution e is made (a flag / an option must be
    emitted whenever the field is set, a loop must emit for every element): [(field, description)]"""
    out = []
    for cd, views, subj in guards_of(E, e):
        s0 = strip(subj) if subj is not None else None
        if s0 is not None and s0[0] == 'call' and s0[1] == IT + 'next':
            continue            # loop progress
        tested = [v for v, _ in views] + ([subj] if subj is not None else [])
        fld = next((f for f in (_field_of_param0(v, fn) for v in tested) if f is not None), None)
        if fld is None:
            continue
        if cd.kind == 'variant' and subj is not None and exact_field(subj, fn) is not None:
            continue            # `if let Some(x) = self.f`, `match self.policy`
        if cd.kind == 'bool':
            ok = False
            for v, oc in views:
                v0 = strip(v)
                if exact_field(v0, fn) is not None:
                    ok = True       # a bool field
                elif v0[0] == 'call' and len(v0[2]) == 1 and exact_field(v0[2][0], fn) is not None:
                    if v0[1].endswith(('Option::<T>::is_some', 'Option::<T>::is_none')):
                        ok = True
                    elif _COLLECTION_EMPTY.match(v0[1]) and oc is False:
                        ok = True   # `if !self.words.is_empty() { args(self.words) }`: an empty collection emits nothing anyway
            if ok:
                continue
        v, oc = views[0]
        out.append((fld, 'made only when %s is %s' % (vstr(v)[:80], sorted(oc) if isinstance(oc, frozenset) else oc)))
    return out


def elements_outside_loop(sl, fn, items):
    """fields of which an *element* (`next()` of an iteration over the field) is emitted by a contribution that is not
    made inside a loop over that field: only the first element reaches the command line.  -> [(field, item)]
    (a collection handed over whole — `args(words)` — and the payload of an Option read through its iterator are not
    element references)"""
    ftypes = _struct_field_types(sl.prog, fn)
    out = []
    for it in items:
        vals = getattr(it, 'vals', None) or []
        for e, v in zip(it.elems, vals):
            if v is None or (e[0] == 'field' and len(e) > 2 and e[2] == 'splat'):
                continue
            for x in walk(v):
                if x[0] == 'call' and x[1] == IT + 'next' and len(x[2]) == 1:
                    fld = _field_of_param0(x[2][0], fn)
                    if fld is None or fld == it.loop:
                        continue
                    t = ftypes.get(fld, '')
                    if t.startswith('std::option::Option<') and not _is_nested_collection(t):
                        continue
                    if (fld, it) not in out:
                        out.append((fld, it))
    return out


def loop_exits_early(E, e):
    """a MIR loop around contribution e that can be left before its iterator is exhausted"""
    for i, kind, L, coll in loop_contexts(E, e):
        if kind != 'mir':
            continue
        f = L.fn
        ex = getattr(L, 'exhaust', None)
        exits = {b for b in (L.exit_bb or []) if f.blocks[b]['t']['t'] != 'unreachable' and not f.blocks[b].get('cleanup')}
        if ex is None or exits - {ex[1]}:
            return True
    return False


_LOSSLESS = ('::to_string_lossy', '::display', '::into_owned', '::to_str', '::to_string', '::as_str', '::as_os_str', '::to_os_string')


def field_ref(v, fn):
    """(field, component path, is element) when v renders a field of the converted struct, an element of it, or a
    component of an element, unchanged; ('?', field) when it is computed from a field; None otherwise"""
    v0 = v
    proj, elem = [], False
    for _ in range(24):
        v = unconv(strip(v))
        v = strip(v)
        f = exact_field(v, fn)
        if f is not None:
            return (f, tuple(reversed(proj)), elem)
        if v[0] == 'field':
            if strip(v[1])[0] != 'variant':
                proj.append(v[2])
            v = v[1]
        elif v[0] == 'variant':
            v = v[1]
        elif v[0] == 'call' and v[1] == IT + 'next' and len(v[2]) == 1:
            elem = True
            v = v[2][0]
        elif v[0] == 'call' and len(v[2]) == 1 and v[1].endswith(_LOSSLESS):
            v = v[2][0]
        elif v[0] == 'agg' and v[1] == 'std::borrow::Cow' and len(v[3]) == 1:
            v = v[3][0][1]      # `Cow::Borrowed(x)` / `Cow::Owned(x)` lend / hold x itself
        else:
            break
    f = _field_of_param0(v0, fn)
    return ('?', f) if f is not None else None


def value_template(v, depth=0):
    """option value -> list of pieces (str | value): the pieces of a format string or of a string assembled with
    push / push_str, in order; any other value is one placeholder"""
    from .lib.value import concat_parts
    v = unconv(strip(v))
    v = strip(v)
    parts = None
    if v[0] == 'fmt':
        parts = list(v[1])
    elif v[0] == 'concat' and depth < 4:
        parts = []
        for x in concat_parts(v):
            x0 = strip(x)
            if x0[0] == 'call' and not x0[2] and x0[1].endswith(('::new', '::with_capacity', '::default')):
                continue        # the fresh, empty buffer
            if x0[0] == 'call' and x0[1].endswith('::with_capacity'):
                continue
            parts.extend(value_template(x, depth + 1))
    if parts is None and v[0] == 'call' and v[1].endswith('::join') and len(v[2]) == 2 and strip(v[2][0])[0] == 'array' \
            and strip(v[2][1])[0] == 'const' and isinstance(strip(v[2][1])[1], str) and depth < 4:
        # `[a, b].join("=")`
        parts = []
        for i, x in enumerate(strip(v[2][0])[1]):
            if i:
                parts.append(strip(v[2][1])[1])
            parts.extend(value_template(x, depth + 1))
    if parts is not None:
        out = []
        for p in parts:
            if not isinstance(p, str) and strip(p)[0] == 'const' and isinstance(strip(p)[1], str):
                p = strip(p)[1]
            if isinstance(p, str):
                if out and isinstance(out[-1], str):
                    out[-1] += p
                elif p:
                    out.append(p)
            else:
                out.append(p)
        return out
    if v[0] == 'const' and isinstance(v[1], str):
        return [v[1]]
    return [v]


def value_alternatives(v):
    """the alternatives of a `match` / `if` producing the value"""
    v = strip(v)
    if v[0] == 'phi':
        out = []
        for x in v[1]:
            out.extend(value_alternatives(x))
        return out
    if v[0] == 'select':
        return [x for _, x in v[3]]
    return [v]


def parse_option_value(option, v, fn, sl=None):
    """decode an option value with the grammar of the tool's option: -> (roles {role: (field, comp, elem)}, problem)
    problem is None | ('bad', text) | ('unknown', text).  Private rendering helpers (`reference.into_arg()`) are
    transparent: when the value as written is not understood, it is read again with such calls inlined."""
    roles, problem = _parse_option_value(option, v, fn)
    if problem is not None and sl is not None:
        iv = sl.inline_deep(v)
        if iv != v:
            r2, p2 = _parse_option_value(option, iv, fn)
            if p2 is None or problem[0] == 'unknown':
                return r2, p2
    return roles, problem


def _parse_option_value(option, v, fn):
    roles = {}
    alts = value_alternatives(v)
    kind = OPTION_GRAMMAR.get(option, 'plain')
    for alt in alts:
        tpl = value_template(alt)
        phs = [p for p in tpl if not isinstance(p, str)]
        refs = [field_ref(p, fn) for p in phs]
        for p, r in zip(phs, refs):
            if r is None:
                return roles, ('unknown', 'contains %s' % vstr(p)[:60])
            if r[0] == '?':
                return roles, ('bad', '%s is not the configured value itself' % vstr(strip(p))[:70])
        text = ''.join(p if isinstance(p, str) else '\x00%d\x00' % phs.index(p) for p in tpl)
        got = None
        if kind == 'plain':
            if len(tpl) != 1 or len(phs) != 1:
                return roles, ('bad', 'the value is %s, not the configured value alone' % _render(tpl))
            got = {'value': refs[0]}
        elif kind == 'pair':
            # docker / pack: NAME=VALUE, split at the first '='
            m = _re.match(r'^\x00(\d)\x00=\x00(\d)\x00$', text)
            if not m:
                return roles, ('bad', 'the value %s is not <name>=<value>' % _render(tpl))
            got = {'name': refs[int(m.group(1))], 'value': refs[int(m.group(2))]}
        elif kind == 'port':
            # [[ip:][hostPort]:]containerPort[/protocol]
            m = _re.match(r'^((\d{1,3}(\.\d{1,3}){3}|\[[0-9a-fA-F:]+\]):)?(\d*:)?\x00(\d)\x00(/(tcp|udp|sctp))?$', text)
            if not m:
                return roles, ('bad', 'the value %s does not publish the configured port as the container port' % _render(tpl))
            got = {'port': refs[int(m.group(5))]}
        elif kind == 'mount':
            kv = {}
            for part in text.split(','):
                k, _, val = part.partition('=')
                kv[{'src': 'source', 'dst': 'target', 'destination': 'target'}.get(k, k)] = val
            ms, mt = _re.match(r'^\x00(\d)\x00$', kv.get('source', '')), _re.match(r'^\x00(\d)\x00$', kv.get('target', ''))
            if kv.get('type') != 'bind' or not ms or not mt:
                return roles, ('bad', 'the value %s is not type=bind,source=<source>,target=<target>' % _render(tpl))
            extra = sorted(set(kv) - {'type', 'source', 'target'})
            if extra:
                return roles, ('unknown', 'additional mount settings %s' % extra)
            got = {'source': refs[int(ms.group(1))], 'target': refs[int(mt.group(1))]}
        for k, r in got.items():
            if k in roles and roles[k][:2] != r[:2]:
                return roles, ('unknown', 'alternatives render different fields')
            roles[k] = r
    return roles, None


def _render(tpl):
    return ''.join(p if isinstance(p, str) else '{%s}' % vstr(strip(p))[:40] for p in tpl)


# the value grammar of the options that carry configuration (everything else: the value is the field itself)
OPTION_GRAMMAR = {'--env': 'pair', '--publish': 'port', '--mount': 'mount'}


def every_iteration_contributes(E, effs):
    """every iteration of the (innermost) loop around the contributions `effs` makes one of them"""
    ctxs = loop_contexts(E, effs[0])
    if not ctxs:
        return False
    return on_every_iteration(E, effs, ctxs[-1])


# ---------------------------------------------------------------------------------------------------------------
# Part E: forwarding refinements
# ---------------------------------------------------------------------------------------------------------------
def extra_conditions(E, sl, e, cfg, fld):
    """conditions effect e runs under, other than the presence of config.<fld> itself / loop progress over it"""
    out = []
    for cd, views, subj in guards_of(E, e):
        s0 = strip(subj) if subj is not None else None
        if s0 is not None and s0[0] == 'call' and s0[1] == IT + 'next':
            continue        # loop progress (inside a loop / after an earlier loop has finished); the loops around e are checked by the caller
        if cd.kind == 'variant' and subj is not None and cfg.exact(subj) == fld:
            continue
        if cd.kind == 'bool':
            ok = False
            for v, oc in views:
                v0 = strip(v)
                if v0[0] == 'call' and len(v0[2]) == 1 and cfg.exact(v0[2][0]) == fld and v0[1].endswith(('Option::<T>::is_some', 'Option::<T>::is_none')):
                    ok = True
            if ok:
                continue
        v, oc = views[0]
        out.append('%s is %s' % (vstr(v)[:80], sorted(oc) if isinstance(oc, frozenset) else oc))
    return out


_MAP_OR_ELSE = ('std::result::Result::<T, E>::map_or_else', 'std::option::Option::<T>::map_or_else')
_MAP_OR = ('std::result::Result::<T, E>::map_or', 'std::option::Option::<T>::map_or')


def _returns_normally(sl, clv):
    """the closure / function item can return (a handler that only panics produces no value)"""
    if isinstance(clv, tuple) and clv and clv[0] in ('closure', 'fnitem'):
        g = sl.prog.fns.get(clv[1])
        if g is not None:
            return bool(g.return_blocks())
    return True


def total_alternatives(sl, v, depth=0):
    """the values a `match`-like combinator can produce: `r.map_or_else(d, f)` is `f(payload of r)` or — when the
    handler d can return at all — `d(error)`; `r.map_or(x, f)` is `f(payload of r)` or x; anything else is itself"""
    v0 = unconv(strip(v))
    if depth < 4 and v0[0] == 'call' and v0[1] in _MAP_OR_ELSE and len(v0[2]) == 3:
        r, d, f = v0[2]
        ok = sl.apply_closure(f, (sl.mk_unwrap(r, 1),))
        if ok is not None:
            out = total_alternatives(sl, ok, depth + 1)
            if _returns_normally(sl, d):
                dv = sl.apply_closure(d, (('unknown', 'the error'),) if 'Result' in v0[1] else ())
                out.append(dv if dv is not None else ('unknown', 'the value of the error handler'))
            return out
    if depth < 4 and v0[0] == 'call' and v0[1] in _MAP_OR and len(v0[2]) == 3:
        r, x, f = v0[2]
        ok = sl.apply_closure(f, (sl.mk_unwrap(r, 1),))
        if ok is not None:
            return total_alternatives(sl, ok, depth + 1) + [x]
    return [v]


def buildpack_argument(sl, a, cfg, pkg):
    """what one alternative of the argument of PackBuildCommand::buildpack is: ('ok', description) | ('bad', ..) | ('unknown', ..)"""
    vs = [_buildpack_argument(sl, x, cfg, pkg) for x in total_alternatives(sl, a)]
    for kind in ('bad', 'unknown'):
        for v in vs:
            if v[0] == kind:
                return v
    return 'ok', ' | '.join(sorted({v[1] for v in vs}))


def _buildpack_argument(sl, a, cfg, pkg):
    from .lib import value as _v
    v = unconv(strip(a))
    while v[0] == 'agg' and len(v[3]) == 1:
        v = unconv(strip(v[3][0][1]))       # wrapped by hand in the command's own reference type (`Reference::Path(dir)`)
    # the success payload of a packaging helper (`.unwrap_or_else(|e| panic!(..))`, `.expect(..)`, `?`)
    for _ in range(6):
        v = unconv(strip(v))
        if v[0] == 'call' and v[2] and (v[1] in _v.UNWRAPPING or v[1] in _v.OK_PRESERVING or v[1].endswith(('::unwrap_or_else', '::expect', '::unwrap'))) \
                and strip(v[2][0])[0] == 'call' and strip(v[2][0])[1] in pkg:
            v = strip(v[2][0])
            break
    if v[0] == 'call' and v[1] in pkg:
        if v[1].endswith('::package_buildpack'):
            ref = element_payload(sl, v[2][0], cfg) if v[2] else None
            if ref is None or ref[0] != 'buildpacks':
                return 'bad', 'the package of %s, not of the configured workspace buildpack' % vstr(strip(v[2][0]))[:60] if v[2] else 'nothing'
        return 'ok', 'the directory packaged by %s' % v[1].split('::')[-1]
    ref = element_payload(sl, v, cfg)
    if ref is not None and ref[0] == 'buildpacks':
        return 'ok', 'the configured reference itself'
    if cfg.within(v) is not None or any(x[0] == 'call' and x[1] == IT + 'next' for x in walk(v)):
        return 'bad', '%s, not the configured reference itself' % vstr(v)[:80]
    return 'unknown', vstr(v)[:80]


def element_payload(sl, v, cfg):
    """(field,) when v is the loop element of config.<field> or the payload of one of its enum variants, unchanged"""
    v = unconv(strip(v))
    for _ in range(8):
        v = unconv(strip(v))
        if v[0] in ('field', 'variant'):
            v = v[1]
            continue
        break
    v = strip(v)
    if v[0] == 'call' and v[1] == IT + 'next' and v[2]:
        fld = whole_collection(sl, v[2][0], cfg, mapped=False)
        if fld is not None:
            return (fld,)
    return None


# ---------------------------------------------------------------------------------------------------------------
# Part E (round 5): owners of the temporary copy
# ---------------------------------------------------------------------------------------------------------------
HANDING_ON = ('::expect', '::unwrap', '::into', '::from', '::branch', '::unwrap_or_else', '::unwrap_unchecked', '::into_inner')
_GUARDS = ('tempfile::TempDir', 'tempfile::dir::TempDir', 'libcnb_test::app::AppDir')


def guard_owner_types(prog):
    """-> predicate on type strings: the type is, or has a field that is (transitively, through workspace structs /
    enums and std generics), the guard of a temporary directory — only such a value can keep the app copy alive"""
    names = set(_GUARDS)
    changed = True
    while changed:
        changed = False
        for path, adt in prog.adts.items():
            if path in names or not path.startswith('libcnb_test::'):
                continue
            if any(any(n in (fl.get('ty') or '') for n in names) for v in adt.get('variants', []) for fl in v.get('fields', [])):
                names.add(path)
                changed = True
    return lambda ty: any(n in (ty or '') for n in names)


PATH_VIEWS = ('tempfile::TempDir::path', 'tempfile::dir::TempDir::path')


def carrier_conversion(prog, sl, fn, v, pc, ty):
    """a `From<A>` conversion into a carrier *struct* with several fields (`AppDir { path, _guard }`) wraps its
    argument unchanged when: the argument itself is kept in a field (as it is or as `Some(arg)`), every other field
    that depends on the argument is the argument's own path (`TempDir::path(arg)`, owned), the remaining fields are
    empty (`None`), and the accessors of the carrier (`&self -> &Path` methods) read a field that holds the argument or
    its path.  -> description | None"""
    kept, views, rest = [], [], []
    for name, x in v[3]:
        px = peel(x)
        if pc.exact(px) == 0:
            kept.append(name)
        elif px[0] == 'call' and px[1] in PATH_VIEWS and len(px[2]) == 1 and pc.exact(px[2][0]) == 0:
            views.append(name)
        elif pc.mentioned(x):
            return None
        elif not is_empty_default(x, prog):
            return None
        else:
            rest.append(name)
    if not kept:
        return None
    arg_ty = fn.args[0] if fn.args else ''
    pathlike = arg_ty in ('std::path::PathBuf', '&std::path::Path', 'std::ffi::OsString', 'std::string::String')
    readable = set(views) | (set(kept) if pathlike else set())
    n = 0
    for g in carrier_methods(prog, ty):
        if g.argc == 1 and g.args and g.args[0] == '&' + ty and 'Path' in (g.ret or ''):
            r = strip(sl.inline_deep(sl.local(g, 0)))
            while r[0] == 'call' and len(r[2]) == 1 and (r[1].endswith(('::as_path', '::as_ref', '::deref', '::borrow', '::as_deref'))):
                r = strip(r[2][0])
            if not (r[0] == 'field' and strip(r[1])[0] == 'param' and r[2] in readable):
                return None
            n += 1
    if not n:
        return None
    return 'keeps its argument in %s%s; the path accessor reads it' % (', '.join(kept), (' and its path in ' + ', '.join(views)) if views else '')


# ---------------------------------------------------------------------------------------------------------------
# Part F (round 5): emission order of a collection that is collected into a local vector and sorted before the loop
# ---------------------------------------------------------------------------------------------------------------
_SORTS = ('::sort', '::sort_unstable', '::sort_by', '::sort_unstable_by', '::sort_by_key', '::sort_unstable_by_key', '::sort_by_cached_key')
_REBORROW = ('::deref_mut', '::as_mut_slice', '::as_mut', '::borrow_mut')


def in_place_users(fn, m):
    """(calls that receive a `&mut` to the local m or to its slice — through `deref_mut` / reborrows —, other escapes)"""
    ptrs, other = set(), []
    changed = True
    while changed:
        changed = False
        for b in fn.blocks:
            if b.get('cleanup'):
                continue
            for s in b['s']:
                if s[0] != '=' or len(s[1]) != 1 or s[1][0] in ptrs:
                    continue
                rv = s[2]
                if rv['r'] == 'ref' and rv.get('mut') and ((rv['p'][0] == m and [p for p in rv['p'][1:] if p != '*'] == []) or (rv['p'][0] in ptrs and rv['p'][1:] == ['*'])):
                    ptrs.add(s[1][0]); changed = True
                elif rv['r'] == 'use' and op_place(rv['o']) is not None and op_place(rv['o'])[0] in ptrs and len(op_place(rv['o'])) == 1:
                    ptrs.add(s[1][0]); changed = True
        for c in fn.calls:
            if c.dest and len(c.dest) == 1 and c.dest[0] not in ptrs and not c.indirect and (c.name or '').endswith(_REBORROW) and len(c.args) == 1 \
                    and op_place(c.args[0]) is not None and op_place(c.args[0])[0] in ptrs:
                ptrs.add(c.dest[0]); changed = True
    users = []
    for c in fn.calls:
        if fn.blocks[c.bb].get('cleanup'):
            continue
        hit = [i for i, a in enumerate(c.args) if op_place(a) is not None and op_place(a)[0] in ptrs]
        if hit and not (c.dest and len(c.dest) == 1 and c.dest[0] in ptrs and (c.name or '').endswith(_REBORROW)):
            users.append(c)
    for b in fn.blocks:
        for s in b['s']:
            if s[0] == '=' and s[2]['r'] == 'ref' and s[2].get('mut') and s[2]['p'][0] == m and [p for p in s[2]['p'][1:] if p != '*'] != []:
                other.append('a mutable borrow of part of the vector')
    return users, other


def _proj_of_param(v, clo, index):
    """projection path of closure parameter `index` that v denotes (references / clones transparent), or None"""
    path = []
    v = unconv(strip(v))
    while v[0] == 'field':
        path.append(v[2])
        v = unconv(strip(v[1]))
    if v[0] == 'param' and v[1] == clo and v[2] == index:
        return tuple(reversed(path))
    return None


def _sort_key_total(sl, fn, c):
    """the order established by the sort call c is a total order on the elements' unique part: the whole element or
    its first component (the key of a map entry).  -> True | reason"""
    n = c.name or ''
    if n.endswith(('::sort', '::sort_unstable')):
        return True
    if len(c.args) < 2:
        return 'no comparator'
    clv = strip(sl.operand(fn, c.args[1]))
    g = sl.prog.fns.get(clv[1]) if clv[0] == 'closure' else None
    if g is None:
        return 'the comparator %s is not a local closure' % vstr(clv)[:40]
    r = strip(sl.local(g, 0))
    if n.endswith(('_by_key', '_by_cached_key')):
        p = _proj_of_param(r, g.path, 1)
        return True if p in ((), ('0',)) else 'sorted by %s' % vstr(r)[:50]
    if r[0] == 'call' and r[1].endswith(('::cmp', '::partial_cmp', '::total_cmp')) and len(r[2]) == 2:
        pa = [(_proj_of_param(x, g.path, 1), _proj_of_param(x, g.path, 2)) for x in r[2]]
        sides = [(1, a) if a is not None else (2, b) if b is not None else None for a, b in pa]
        if None not in sides and {sides[0][0], sides[1][0]} == {1, 2} and sides[0][1] == sides[1][1] and sides[0][1] in ((), ('0',)):
            return True
    return 'compared by %s' % vstr(r)[:60]


_ORDERED_LOCAL = ('std::collections::BTreeMap<', 'std::collections::BTreeSet<')


def loop_vector(E, e):
    """the local vector the innermost MIR loop of effect e ranges over, when that loop is `for x in v` / `for x in &v` /
    `v.iter()` over a local `v` that one call created (`collect()`): -> (fn, local, Loop) | None"""
    ms = [(i, L) for i, kind, L, coll in loop_contexts(E, e) if kind == 'mir' and L is not None]
    if not ms:
        return None
    L = ms[-1][1]
    g = L.fn
    c = L.next_call
    pl = op_place(c.args[0]) if c.args else None
    for _ in range(6):
        if pl is None:
            return None
        m = _through_moves(g, [pl[0]])
        if m is None or m <= g.argc:
            return None
        if g.local_ty(m).startswith(('std::vec::Vec<',) + _ORDERED_LOCAL):
            d = g.whole_defs(m)
            return (g, m, L) if len(d) == 1 and d[0][0] == 'call' else None
        d = g.whole_defs(m)
        if len(d) != 1 or d[0][0] != 'call':
            return None
        ic = d[0][3]
        if ic.indirect or not (ic.name or '').endswith(('::into_iter', '::iter', '::iter_mut', '::deref', '::as_slice')) or len(ic.args) != 1:
            return None
        pl = op_place(ic.args[0])
    return None


def sorted_emission(sl, it):
    """the contribution `it` is made in a loop over a local vector that was collected and then *sorted* by a total
    order on the elements (their key), and changed in place by nothing else, before the loop: the emission order is
    then determined by the contents alone, whatever container the elements came from.
    -> None (no such vector) | ('ok', description) | ('unknown', reason) | ('bad', reason)"""
    e, E = getattr(it, 'eff', None), getattr(it, 'E', None)
    if e is None:
        return None
    lv = loop_vector(E, e)
    if lv is None:
        return None
    g, m, L = lv
    users, other = in_place_users(g, m)
    if other:
        return 'unknown', other[0]
    if g.local_ty(m).startswith(_ORDERED_LOCAL):
        # collected into an ordered map / set of its own: iterated in key order, whatever the source container
        d = g.whole_defs(m)[0][3]
        if users or d.indirect or not (d.name or '').endswith(('::collect', '::from_iter')):
            return 'unknown', 'the local %s is not simply collected' % g.local_ty(m).split('<')[0]
        return 'ok', 'collected into a %s before the loop' % g.local_ty(m).split('<')[0].split('::')[-1]
    sorts = [c for c in users if (c.name or '').endswith(_SORTS) and (c.name or '').startswith(('core::slice::', 'std::slice::', 'alloc::slice::', 'std::vec::'))]
    rest = [c for c in users if c not in sorts]
    for c in rest:
        n = c.name or 'an indirect call'
        if any(rx.search(n) for rx, _ in DIFFERENT):
            return 'bad', 'the collected vector is changed in place by %s before it is emitted' % n
        if not n.endswith(APPENDING):
            return 'unknown', 'the collected vector is handed to %s before it is emitted' % n
    if not sorts:
        return None
    last = None
    for c in sorts:
        if not g.dominates(c.bb, L.header) or g.in_loop(c.bb):
            return 'unknown', 'the vector is not sorted on every path to the loop'
        if any(a.bb in g.reachable(c.bb) and a is not c for a in rest):
            return 'unknown', 'the vector is appended to after it was sorted'
        ok = _sort_key_total(sl, g, c)
        if ok is not True:
            return 'unknown', 'the vector is sorted, but not by the elements / their keys: %s' % ok
        last = c
    return 'ok', 'sorted by %s before the loop' % (last.name or '').split('::')[-1]
