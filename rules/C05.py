"""C05 — detect/build exit codes and outputs.

Decided structurally (on libcnb_runtime, libcnb_runtime_detect, libcnb_runtime_build):
  R1 API gate      the calls into the detect/build phases are dominated by descriptor-read Ok and
                   `api == supported constant` (decided in libcnb_runtime or in a gate function that only
                   returns when the check passed; `==` taken / `!=` not taken; `unwrap_or_else(handler
                   that never returns)` is the Ok payload); the mismatch and read-error arms exit with a
                   code outside {0, 100}
  R2 dispatch      the detect (build) phase is entered only under file_name(argv[0]) == "detect"
                   ("build"), helpers computing the name inlined; the fall-through arm exits with a code
                   outside {0, 100}
  R3 arity         DetectArgs::parse succeeds only for exactly 3 arguments, BuildArgs::parse for 4;
                   the parse-error handlers diverge with a code outside {0, 100}
  R4 exit mapping  Ok(code) => exit(code); Err(e) => on_error(e) exactly once, then exit(c), c not in
                   {0,100} — on the EXIT / on_error effects of libcnb_runtime (wherever helpers / closures put
                   them) and the arm table of the exit value (match arms or Result combinators). Detect returns only Ok(100) on Fail (no write possible) and Ok(0) on Pass,
                   where the build plan is written iff it is Some; build returns Ok(0) only after
                   launch.toml / store.toml are written iff Some and every build / launch SBOM is
                   written to the build / launch SBOM path of its own format
  R5 constants     success = 0, detect-fail = 100, error codes in 1..=255 minus {100}
  R6 once          one call site each of Buildpack::detect / Buildpack::build, not in a loop
  R7 mandatory env CNB_BUILDPACK_DIR, CNB_TARGET_OS/ARCH/DISTRO_NAME/DISTRO_VERSION, descriptor,
                   platform (and plan for build) are read, and their failure propagated, on every path
                   before detect/build runs
  R8 builders      the public result builders of build.rs / detect.rs hand exactly what the buildpack provided to the
                   runtime: setters change their own field only (Some(arg) / push(arg)), the finishing functions copy
                   every field under its own name into the Pass variant (Fail builder: Fail), new builders are empty, and
                   nothing else constructs the inner result enums
Deepening (same rules, further necessary conditions): R1 the gate's descriptor type requires the key `api` and the
comparison is the structural equality of BuildpackApi; R2 nothing but "first argument -> final path component -> text"
lies between argv and the compared name; R3 parse receives the complete argv and maps position k to the field the CNB
command line assigns to it; R4 writes moved into helpers are unconditional / checked / truncating at every level, the
build phase mutates nothing but the four outputs, phase errors are returned (no panic, no exit inside a phase), the SBOM
path function is injective in (name, format); R7 the inputs are read from their own argument.
Spelling independence (robustness round 3): the gate's "descriptor Ok" is any Ok-decision that needs a descriptor read to
have succeeded (H.ok_requires) and the descriptor path is judged in the terms of every caller of the read (gate + both
phases); the dispatch decisions include what a private function tested before returning the variant the phase call is
matched on (H.implied_by_variant); phase arguments are read in normal form (H.norm_pruned) with the parse failure flowing
into a handler that never returns (H.err_flows); the detect table is built per (outcome, variant of the detect result),
the variant decided in the phase or in a helper's return table (H.decided_by); "written iff provided" is one function for
plan / launch.toml / store.toml (provided_write: decision at any level of the write's call chain); mandatory variables read
by a loop over a literal table zipped with its slots are read row by row (H.unroll_zip).
Spelling independence (robustness round 4): the calls into the phases are PHASE effects of libcnb_runtime — the dispatch may
live in libcnb_runtime or in a private function reached from it (`exit(run(buildpack))`), and is judged in its own function
under the decisions of every level of the chain, parameters read as what the chain passes; an exit code is a Row wherever it
was chosen: at the exit, in the return table of a private function whose result (or whose Ok / Err payload: a gate returning
Result<(), i32>) is handed to exit (H.code_rows); the phase result is also what a private function returns that only hands it
on (nf); "this failure cannot end in the helper's success" is `?` / unwrap / return or a match whose success sites all lie on
the Ok side (H.ok_needed); paths built by to_path_buf + PathBuf::push are joins, text appended with OsString / String pushes
is not (H.PathPushes).  New necessary conditions found on the way: libcnb_runtime never returns to `main` (status 0), also not
through functions that cannot come back (H.can_return), and every way out on the Err side of the phase result lies behind
on_error (runtime/on_error/always).
Spelling independence (robustness round 5): the descriptor read is a role (H.descriptor_reader: the private function on the
chain of the READ of buildpack.toml from the gate and both phases — it may hand back (directory, descriptor); the context field
is then the ?-propagated parse of <CNB_BUILDPACK_DIR>/buildpack.toml itself); the context handed to detect / build is read in
normal form (a private function may assemble and return it), and the call of Buildpack::detect / ::build is an effect of the
phase: it may sit in a private function with one caller, the mandatory reads being MUST effects level by level and its
arguments read as what the chain passes; `body(..).inspect_err(f)` / `.map_err(f)` as the phase's return value makes the
outcomes of `body` the outcomes of the phase (H.outcomes_body); a handler closure handed to a private function that maps the
phase result to the code and runs the closure itself is bound at that function's one call of it (H.closure_invocation), the
codes it returns being rows behind that call.  New necessary condition: the Some-decision of "written iff provided" is itself
reached on every way to success (a store.toml write nested under `if let Some(launch)` is a breach).
Not decided: that exit terminates, byte-exact file contents, behaviour of the user's detect/build.
"""
from .lib.discard import result_fates, verdict, diverges
from .lib.effects import Effects, outcomes, MUTATING
from .lib.guards import conditions, conditions_gated
from .lib.paths import strip
from .lib.value import vstr, walk
from . import layer_env_common as L
from . import C05_helpers as H

SBOM_PATH = "libcnb::sbom::cnb_sbom_path"
RT = 'libcnb::runtime::libcnb_runtime'
RD = 'libcnb::runtime::libcnb_runtime_detect'
RB = 'libcnb::runtime::libcnb_runtime_build'
READ_DESC = 'libcnb::runtime::read_buildpack_descriptor'
ON_ERROR = 'libcnb::buildpack::Buildpack::on_error'
MANDATORY = ['CNB_BUILDPACK_DIR', 'CNB_TARGET_OS', 'CNB_TARGET_ARCH', 'CNB_TARGET_DISTRO_NAME', 'CNB_TARGET_DISTRO_VERSION']


def exit_effects(prog, sl, fn):
    out = []
    for c in fn.calls:
        if c.is_('std::process::exit'):
            out.append((c, strip(sl.operand(fn, c.args[0]))))
    return out


def bad_code(v):
    return v[0] == 'const' and isinstance(v[1], int) and 1 <= v[1] <= 255 and v[1] != 100


def alts(v):
    return list(v[1]) if v[0] == 'phi' else [v]


class Row:
    """one way the process can end outside the phases: the exit call, the kind and value of its code, the decisions
    under which this value is the code, the error-handler closure that produced it (or None), the place (Fn, block) where
    the value was chosen (the exit itself, or a `return CODE` of the private function whose result is handed to exit) and
    the EXIT effect it was read from"""
    __slots__ = ('exit', 'kind', 'value', 'conds', 'via', 'site', 'eff')

    def __init__(self, exit_call, kind, value, conds, via, site, eff):
        self.exit, self.kind, self.value, self.conds, self.via, self.site, self.eff = exit_call, kind, value, conds, via, site, eff

    def __getitem__(self, i):
        return (self.exit, self.kind, self.value, self.conds, self.via, self.site, self.eff)[i]


def must_pass(fn, frm, to, via):
    """every path frm -> to goes through block via"""
    return to not in fn.reachable(frm, stop=[via]) or via == frm


def provided_write(E, prog, sl, host, site_bb, e, is_subject, osites=()):
    """write effect e of `host` happens iff an optional part of the result was provided.  (guarded, always, first, top):
    guarded — a Some-decision on the part (is_subject) lies around the write at some level of its call chain (in the
    phase, or in the private helper the write was moved to, its parameter read as what the phase passes), or the write
    sits in the closure an Option combinator on the part runs with the payload; always — on the Some side every way to
    success (of the deciding function, and from there up to the success site site_bb of host) passes the write; first —
    the first chain level below the deciding one (for H.chain_always); top — the call in host the write goes through"""
    from .lib.effects import guards_of
    top = e.chain[0] if e.chain else e.call
    levels = list(e.chain) + [e.call]
    is_some = lambda cd: cd.kind == 'variant' and cd.enum == 'std::option::Option' and cd.outcome == frozenset({'Some'})
    some = [cd for cd, views, subj in guards_of(E, e) if is_some(cd) and subj is not None and is_subject(subj)]
    some += [cd for cd in conditions(host, top.bb, sl) if is_some(cd) and cd.subject is not None and is_subject(cd.subject)]
    implied = any(x[0] == 'unwrap' and is_subject(x[1]) for x in e.implied)
    top_must = any(x.bb == top.bb for x, _ in E.must_calls(host, [site_bb])) or top.bb == site_bb
    guard_fn = None
    if some:
        cd = some[0]
        guard_fn = cd.fn.path
        lvl = next((c for c in levels if c.fn.path == cd.fn.path), None)
        ends = [site_bb] if cd.fn.path == host.path else cd.fn.return_blocks()
        always = lvl is not None and all(must_pass(cd.fn, cd.target, b, lvl.bb) for b in ends)
        always = always and (cd.fn.path == host.path or top_must)
        # ... and the decision itself is taken on every way to success (a write nested under the presence of ANOTHER part
        # is skipped when that part is missing, although this one was provided)
        succ = ends if cd.fn.path == host.path else ([s.bb for s in osites if s.fn.path == cd.fn.path] or [st.bb for st in E.sites(cd.fn)])
        always = always and all(must_pass(cd.fn, 0, b, cd.sw_bb) for b in succ)
    elif implied:
        # the combinator call is on every path to success, and inside the closure it runs the write is
        cl = next((c for c in levels if c.fn.kind == 'Closure'), None)
        guard_fn = cl.fn.path if cl is not None else None
        always = top_must and cl is not None and any(x.bb == cl.bb for x, _ in E.must_calls(cl.fn, [st.bb for st in E.sites(cl.fn)]))
    else:
        always = False
    first = 1 + max([i for i, c in enumerate(levels) if c.fn.path == guard_fn] or [0])
    return bool(some) or implied, always, first, top


def run(ctx, rep):
    prog, sl = ctx.prog, ctx.slicer
    for r, d in (('R1', 'API gate dominates the phases; mismatch / unreadable descriptor exit with a code outside {0,100}'),
                 ('R2', 'phase dispatch on the executable name; fall-through exits with a code outside {0,100}'),
                 ('R3', 'argument arity: exactly 3 (detect) / 4 (build); error handlers diverge'),
                 ('R4', 'exit mapping and output-file table of both phases'),
                 ('R5', 'exit-code constants'), ('R6', 'detect/build called from one site each, not in a loop'),
                 ('R7', 'mandatory environment and inputs are read and propagated before detect/build'),
                 ('R8', 'result builders carry exactly what the buildpack provided')):
        rep.rule(r, d)
    rep.not_decided = ['that process::exit terminates', 'byte-exact contents of written files', 'behaviour of the user\'s detect/build']
    from . import layer_roles
    global SBOM_PATH
    SBOM_PATH = layer_roles.roles(prog, sl)['SBOM_PATH'] or 'libcnb::sbom::cnb_sbom_path'
    E = Effects(prog, sl)
    # the phases are opaque here (their own effects are the subject of the detect / build tables below)
    E_rt = Effects(prog, sl, vocab={RD: ('PHASE', None), RB: ('PHASE', None)})
    rt, rd, rb = prog.fn(RT), prog.fn(RD), prog.fn(RB)
    for f in (rt, rd, rb):
        rep.analysed(f)
    # the descriptor read is a role, not a name: the private function through which libcnb_runtime and both phases read
    # <..>/buildpack.toml (it may also hand back the directory it found the file in)
    global READ_DESC
    READ_DESC = H.descriptor_reader(prog, E, E_rt, rt, rd, rb, 'libcnb::runtime::read_buildpack_descriptor')
    w = lambda f: '%s:%d' % (f.file, f.line)
    supported = sl.const_init('libcnb::LIBCNB_SUPPORTED_BUILDPACK_API')
    # Every exit the runtime can perform outside the phases either carries a constant error code or forwards the phase
    # result.  Exits are taken from the interprocedural MAY effects of libcnb_runtime (so an exit moved into a private
    # gate function or into a handler closure is the same exit), and the exit value is decomposed into an arm table:
    # `match r {Ok(c) => exit(c), Err(e) => {on_error(e); exit(1)}}`, `let code = match r {Ok(c) => c, Err(e) =>
    # {on_error(e); 1}}; exit(code)`, `exit(r.unwrap_or_else(|e| {on_error(e); 1}))` and `exit(run(buildpack))` with a
    # private `run` that returns the code where the others exit are the same rows to the rule.
    from .lib.tables import arm_defs, phi_local_of
    from .lib.effects import guards_of
    # (the phase result is also what a private function returns that does nothing but hand it on: `match run(buildpack) {
    # Ok(code) => exit(code), Err(e) => ..}` with `fn run(..) -> Result<i32, _> { gate; match name { "detect" => detect(..), .. } }`)
    _nf = {}

    def nf(v):
        if v not in _nf:
            _nf[v] = sl.inline_deep(v, keep=(RD, RB))
        return _nf[v]
    is_phase = lambda y: strip(nf(y))[0] == 'call' and strip(nf(y))[1] in (RD, RB)
    is_phase_result = lambda r: r[0] in ('call', 'phi') and strip(nf(r))[0] in ('call', 'phi') and all(y[0] == 'call' and y[1] in (RD, RB) for y in alts(strip(nf(r))))
    mentions_phase = lambda v: v is not None and any(x[0] == 'call' and x[1] in (RD, RB) for x in walk(nf(v)))
    err_phase = lambda cd: cd.kind == 'variant' and cd.outcome == frozenset({'Err'}) and mentions_phase(cd.subject)
    may_rt = E_rt.expand(rt, 'may')
    rows = []          # Row: exit call, kind 'const'|'result'|'other', value, conds at the defining site, handler closure | None, site, effect
    seen_exit = set()
    for xe in may_rt:
        if xe.kind != 'EXIT' or xe.call is None or not xe.call.is_('std::process::exit'):
            continue
        c = xe.call
        v = strip(xe.path)
        if id(c) not in seen_exit:
            rep.check(c.target is None, 'R4', 'runtime/exit-diverges/%s' % (v[1] if v[0] == 'const' else 'result'), c.where(), 'exit does not return', 'exit call has a successor')
        seen_exit.add(id(c))
        if c.fn.path == rt.path:
            loc = phi_local_of(rt, c.args[0])
            defs = arm_defs(rt, loc, sl) if loc is not None else [(c.bb, xe.path, conditions(rt, c.bb, sl))]
            for bi, dv, conds in defs:
                conds = conds + [cd for cd in conditions(rt, c.bb, sl) if cd not in conds]
                for kind, a, cds, via, site in H.code_rows(prog, sl, rt, dv, conds, is_phase_result):
                    rows.append(Row(c, kind, a, cds, via, site or (rt, c.bb), xe))
        else:
            # an exit inside a private helper / closure: its code in libcnb_runtime's terms, under the decisions of
            # every level of the call chain and those the running combinator implies
            rep.analysed(c.fn)
            conds = [cd for cd, _, _ in guards_of(E_rt, xe)]
            conds += [H.SynthCond(c.fn, x[1], 'Err') for x in xe.implied if x[0] == 'unwrap_err']
            for kind, a, cds, via, site in H.code_rows(prog, sl, c.fn, xe.path, conds, is_phase_result):
                rows.append(Row(c, kind, a, cds, via, site or (c.fn, c.bb), xe))
    for r in rows:
        rep.analysed(r.site[0])
    # ---- R1 / R2 --------------------------------------------------------------------------------------
    # the calls into the phases are PHASE effects of libcnb_runtime: wherever the dispatch was moved to (libcnb_runtime
    # itself, or a private function that returns the exit code to it), the call is judged in its own function `host` under
    # the decisions of every level of the call chain that leads there, parameters read as what the chain passes
    phase_effs = {'detect': [e for e in may_rt if e.kind == 'PHASE' and e.call is not None and e.call.name == RD],
                  'build': [e for e in may_rt if e.kind == 'PHASE' and e.call is not None and e.call.name == RB]}
    phase_calls = {ph: [e.call for e in es] for ph, es in phase_effs.items()}
    gate_reads = set()      # call sites of the descriptor read whose `api` is compared at the gate
    for phase, es in phase_effs.items():
        if len(es) != 1:
            # (one way into the phase: one call site, reached through one chain)
            rep.unproven('R2', 'dispatch/' + phase, w(rt), '%d call sites of the %s phase in libcnb_runtime' % (len(es), phase))
            continue
        pe = es[0]
        c = pe.call
        host = c.fn
        rep.analysed(host)

        def in_entry_terms(cds, m):
            m = {k: x for k, x in (m or {}).items() if k != '__repl__'}
            return [H.SubstCond(cd, m, sl) for cd in cds] if m else list(cds)
        # decisions that hold at the phase call: those of its function (and of the callers the chain goes through) plus what
        # dominating gate functions (`exit_unless_..()`) guarantee when they return.  Equalities are read in normal form:
        # `a == b` taken or `a != b` not taken, either operand order, private helpers inlined, `x.unwrap_or_else(<handler that
        # never returns>)` == the Ok payload of x.
        conds = in_entry_terms(conditions_gated(prog, host, c.bb, sl), pe.mapping)
        for l in pe.chain:
            lc = getattr(l, 'call', l)
            conds += in_entry_terms(conditions_gated(prog, lc.fn, lc.bb, sl), getattr(l, 'mapping', None))
        # ... plus what a private function decided before it returned the variant the phase call is matched on
        # (`match Invocation::from_args(argv) { Detect(a) => detect(a), .. }`: from_args only builds Detect under name == "detect")
        conds = conds + [x for cd in conds for x in H.implied_by_variant(prog, sl, cd)]
        is_read = lambda x: x[0] == 'call' and x[1] == READ_DESC
        # "descriptor read Ok": an Ok-decision on a value that can only be Ok when a descriptor read was
        # (`read_dir().and_then(|d| read_descriptor(&d))` is Ok only through the closure's read being Ok)
        desc_ok = any(cd.kind == 'variant' and cd.outcome == frozenset({'Ok'}) and cd.subject is not None and
                      any(is_read(r) for r in H.ok_requires(sl, cd.subject)) for cd in conds)
        api_ok = False
        for cd in conds:
            for x, y in H.eq_views(cd):
                for a0, b0 in ((x, y), (y, x)):
                    a, b = strip(H.norm(prog, sl, a0, keep=(READ_DESC,))), strip(b0)
                    lhs = a[0] == 'field' and a[2] == 'api' and any(is_read(z) for z in walk(a))
                    rhs = supported is not None and b == strip(supported)
                    if lhs and rhs:
                        api_ok = True
                        # the descriptor was read successfully: a decision on its Ok variant, or its payload taken by
                        # unwrap_or_else with a handler that never returns (whose exit codes are checked under R4)
                        for r, h in H.diverging_unwraps(prog, sl, a0, keep=(READ_DESC,)):
                            if is_read(strip(r)):
                                desc_ok = True
                                rep.analysed(h)
        if api_ok:
            gate_reads.update(z[3] for cd in conds for x, y in H.eq_views(cd) for a0 in (x, y)
                              for z in walk(H.norm(prog, sl, a0, keep=(READ_DESC,))) if is_read(z) and len(z) > 3 and z[3])
        rep.check(desc_ok and api_ok, 'R1', 'gate/' + phase, c.where(), '%s phase entered only with descriptor Ok and api == supported' % phase,
                  'the %s phase can be reached without the API check (descriptor_ok=%s api_equal=%s)' % (phase, desc_ok, api_ok))
        name_ok = False
        name_src = None
        for cd in conds:
            for x, y in H.eq_views(cd):
                for a0, b0 in ((x, y), (y, x)):
                    lit = strip(b0)
                    if lit != ('const', phase):
                        continue
                    src = H.norm(prog, sl, a0)
                    from_argv = any(z[0] == 'call' and z[1] == 'std::env::args' for z in walk(src)) and \
                        any(z[0] in ('fnitem', 'call') and z[1] == 'std::path::Path::file_name' for z in walk(src)) and \
                        any(z[0] == 'call' and z[1] == 'core::slice::<impl [T]>::first' for z in walk(src))
                    if from_argv:
                        name_ok = True
                        name_src = src
        rep.check(name_ok, 'R2', 'dispatch/' + phase, c.where(), 'entered only when file_name(argv[0]) == "%s"' % phase,
                  'the %s phase is not guarded by the executable name "%s"' % (phase, phase))
        if name_src is not None:
            # ... and the compared text IS that component: only "first argument", "final path component" and views of it
            # as text lie between argv and the comparison (no stem / trimming / case folding / other argument)
            names, reached = H.name_spine(name_src)
            extra = [n for n in names if n not in H.NAME_STEPS]
            once = names.count('std::path::Path::file_name') == 1 and names.count('core::slice::<impl [T]>::first') == 1
            rep.check(reached and not extra and once, 'R2', 'dispatch/%s/name-exact' % phase, c.where(), 'the compared name is exactly the final component of argv[0]',
                      'the executable name is transformed before it is compared with "%s": %s' % (phase, [n.rsplit('::', 2)[-1] for n in (extra or names)]))
        # argument value: parse(args).unwrap_or_else(diverging closure)
        arg_of = lambda op: E_rt.subst(sl.operand(host, op), {k: x for k, x in (pe.mapping or {}).items() if k != '__repl__'})
        av = strip(arg_of(c.args[1]))
        parse = 'libcnb::runtime::%sArgs::parse' % phase.capitalize()
        good = av[0] == 'call' and av[1].endswith('unwrap_or_else') and strip(av[2][0])[0] == 'call' and strip(av[2][0])[1] == parse
        cl = strip(av[2][1]) if good else None
        div = bool(cl) and cl[0] == 'closure' and cl[1] in prog.fns and diverges(prog.fns[cl[1]])
        if not good and av[0] == 'call' and av[1] == parse:
            # `let Ok(args) = X::parse(..) else { usage; exit(..) }` / match with a diverging Err arm: the phase call sits
            # on the Ok side of the decision on parse's result, and the other side never returns nor reaches a phase
            okc = [cd for cd in conditions(host, c.bb, sl) if cd.kind == 'variant' and cd.outcome == frozenset({'Ok'})
                   and strip(cd.subject)[0] == 'call' and strip(cd.subject)[1] == parse]
            if okc:
                cd = okc[-1]
                others = [t for t in host.succs(cd.sw_bb) if t != cd.target]
                reach = set()
                for t in others:
                    reach |= host.reachable(t)
                # the failure side ends the process with an error code: it reaches no phase, libcnb_runtime does not return
                # from there, and the ways out are exits — in place, or (dispatch in a private function whose result is handed
                # to exit) returns whose value is an exit row chosen on this side of the decision
                escapes = [b for b in reach if (host.path == rt.path and b in rt.return_blocks()) or any(pc.bb == b and pc.fn.path == host.path for pcs in phase_calls.values() for pc in pcs)]
                on_err_side = lambda r: r.site[0].path == host.path and r.site[1] in reach and \
                    any(x.kind == 'variant' and x.outcome == frozenset({'Err'}) and x.subject is not None and strip(x.subject)[0] == 'call' and strip(x.subject)[1] == parse and strip(x.subject)[3:] == strip(cd.subject)[3:] for x in r.conds)
                exits = [(r.exit, r.value) for r in rows if on_err_side(r)]
                if host.path != rt.path:
                    # every way the host returns from this side is one of those rows
                    rets = {d[1] for d in host.whole_defs(0) if d[1] in reach}
                    if not rets <= {r.site[1] for r in rows if on_err_side(r)} or host.partial_defs(0):
                        exits = []
                good = div = bool(others) and not escapes and bool(exits)
                if good:
                    rep.check(all(bad_code(v) for _, v in exits), 'R3', 'args/%s/exit' % phase, c.where(), 'usage error exits with %s' % [v[1] for _, v in exits],
                              'usage error handler exit codes: %s' % [vstr(v) for _, v in exits])
                    cl = None
        handlers = []
        if not good:
            # general form: in normal form (helpers inlined, variant constructors read as literals, `x.unwrap_or_else(<handler
            # that never returns>)` = the payload of x) the argument IS the Ok payload of parse(..), and a failure of that
            # parse flows — through Err-propagating adapters / helper returns only — into such a handler
            av0 = arg_of(c.args[1])
            nv = H.norm_pruned(prog, sl, av0, keep=(parse,))
            pc0 = strip(nv)
            if nv[0] == 'unwrap' and pc0[0] == 'call' and pc0[1] == parse:
                hs = [h for x, h in H.diverging_unwraps(prog, sl, av0, keep=(parse,)) if H.err_flows(sl, x, pc0)]
                if hs:
                    good = div = True
                    av, cl, handlers = pc0, None, hs
        rep.check(good and div, 'R3', 'args/' + phase, c.where(), 'arguments = %s(argv) or a diverging error handler' % parse.split('::')[-2],
                  'phase arguments are not parse(argv) with a diverging error handler: ' + vstr(av)[:120])
        if good:
            pc = strip(av[2][0]) if av[1] != parse else av
            pa = H.norm(prog, sl, pc[2][0]) if pc[0] == 'call' and pc[1] == parse and pc[2] else ('unknown',)
            rep.check(H.is_argv(pa), 'R3', 'args/%s/argv' % phase, c.where(), '%s receives the complete argument vector' % parse.split('::')[-2],
                      '%s is not given the complete argv (surplus arguments can go unnoticed): %s' % (parse.split('::')[-2], vstr(pa)[:120]))
        for hf in ([prog.fns[cl[1]]] if div and cl is not None else handlers):
            rep.analysed(hf)
            ex = exit_effects(prog, sl, hf)
            rep.check(bool(ex) and all(bad_code(v) for _, v in ex), 'R3', 'args/%s/exit' % phase, w(hf), 'usage error exits with %s' % [v[1] for _, v in ex],
                      'usage error handler exit codes: %s' % [vstr(v) for _, v in ex])
    # what the gate compares really is the `api` key of buildpack.toml: the type the gate deserialises has a REQUIRED key
    # "api" (no default standing in for a missing key) feeding the compared field, and `==` on BuildpackApi is the
    # structural (derived) equality, so equal means major and minor are equal
    from .lib import serde_schema
    tys = set()
    for site in gate_reads:
        gf = prog.fns.get(site[0])
        gc = gf.call_at(site[1]) if gf is not None else None
        tys.add(gc.ga[0] if gc is not None and gc.ga else None)
    if len(tys) != 1 or None in tys:
        rep.unproven('R1', 'gate/api-key', w(rt), 'descriptor type read at the gate not identified: %s' % sorted(map(str, tys)))
    else:
        ty = next(iter(tys))
        sch = serde_schema.deser_struct(prog, sl, ty)
        keys = [k for k in (sch['keys'].values() if sch else []) if k.field == 'api']
        if sch is None or sch['kind'] != 'struct' or sch['problems']:
            rep.unproven('R1', 'gate/api-key', w(rt), 'no derived struct Deserialize for %s (%s)' % (ty, sch and sch['problems']))
        else:
            ok = len(keys) == 1 and keys[0].key == 'api' and keys[0].required is True and keys[0].default is None
            rep.check(ok, 'R1', 'gate/api-key', w(rt), '%s.api <- required key "api"' % ty.split('::')[-1],
                      'the compared field is not the required key "api" of buildpack.toml: %s' % keys)
        sup = strip(supported) if supported is not None else ('unknown',)
        impl = [f for f in prog.fns.values() if sup[0] == 'agg' and f.impl_trait == 'std::cmp::PartialEq' and f.self_head
                and f.self_head.split('::')[0] == sup[1].split('::')[0] and f.self_head.split('::')[-1] == sup[1].split('::')[-1]]
        eqf = next((f for f in impl if f.path.endswith('::eq')), None)
        nef = next((f for f in impl if f.path.endswith('::ne')), None)
        if eqf is None:
            rep.unproven('R1', 'gate/api-eq', w(rt), 'PartialEq impl of the API version type not found')
        else:
            rep.check(bool(eqf.derived) and nef is None, 'R1', 'gate/api-eq', w(eqf), 'API versions are equal iff major and minor are (derived PartialEq)',
                      'BuildpackApi has a hand-written equality: "api == supported" no longer means the same version')
    # ... and the file it is read from is <CNB_BUILDPACK_DIR>/buildpack.toml, nothing else (the descriptor read is shared by
    # the gate and the phases: one file, found through the mandatory variable)
    def is_bpdir(v):
        while v[0] == 'call' and len(v[2]) == 1 and v[1].endswith(H.CONVERTERS):      # String -> PathBuf
            v = strip(v[2][0])
        return v[0] == 'call' and v[1] == 'std::env::var' and bool(v[2]) and strip(v[2][0]) == ('const', 'CNB_BUILDPACK_DIR')
    rdesc = prog.fns.get(READ_DESC)
    if rdesc is None:
        rep.unproven('R1', 'gate/descriptor-path', w(rt), '%s not found' % READ_DESC)
    else:
        rep.analysed(rdesc)
        FS_READS = ('READ', 'STAT_FOLLOW', 'STAT_NOFOLLOW', 'LIST', 'CWD')
        own = [e for e in E.expand(rdesc, 'may') if e.kind in FS_READS]
        # the file-system reads of the descriptor read in the terms of whoever calls it — the gate and both phases (the
        # directory may be looked up by the read itself or be handed to it by its callers: same reads, same paths)
        in_read = lambda e: any(getattr(l, 'call', l).name == READ_DESC for l in e.chain)
        reads = []
        for ent, EE in ((rt, E_rt), (rd, E), (rb, E)):
            reads.extend((ent, e) for e in EE.expand(ent, 'may') if e.kind in FS_READS and in_read(e))
        shape = len(own) == 1 and own[0].kind == 'READ' and bool(reads) and all(e.kind == 'READ' for _, e in reads) \
            and {ent.path for ent, _ in reads} == {rt.path, rd.path, rb.path}
        pp = H.path_pushes(prog, sl, [rt, rd, rb, rdesc])       # `p = dir.to_path_buf(); p.push(name)` is `dir.join(name)`
        cps = [L.comps(pp.join_form(H.norm(prog, sl, e.path)), is_bpdir) for _, e in reads] if shape else []
        seen_as = [(e.kind, vstr(sl.inline_deep(e.path))[:70] if e.path else '') for e in (own + [e for _, e in reads])[:4]]
        if shape and any(c is None for c in cps):
            bad = next(e for (_, e), c in zip(reads, cps) if c is None)
            rep.unproven('R1', 'gate/descriptor-path', bad.where(), 'cannot read the descriptor path as <CNB_BUILDPACK_DIR>/<name>: %s' % seen_as)
        else:
            rep.check(shape and all(c == ('buildpack.toml',) for c in cps), 'R1', 'gate/descriptor-path', own[0].where() if own else w(rdesc),
                      'the descriptor is <CNB_BUILDPACK_DIR>/buildpack.toml', 'the descriptor is looked for in %s' % seen_as)
    for phase, n in (('Detect', 3), ('Build', 4)):
        pf = prog.fn('libcnb::runtime::%sArgs::parse' % phase)
        rep.analysed(pf)
        # `Ok => len(args) == n` on the interval of len(args) over every way parse returns Ok: length comparisons, slice
        # patterns, split_first / first / get being Some, slice -> array conversions being Ok, and private (const-generic)
        # helpers returning Some / Ok, all in parse's terms
        rng = H.LenFacts(prog, sl).fn_success(pf, 0) if pf.argc == 1 else H.FULL
        good = rng == (n, n)
        rep.check(good, 'R3', 'arity/' + phase, w(pf), '%sArgs::parse succeeds only for exactly %d arguments' % (phase, n),
                  '%sArgs::parse can succeed for an argument count other than %d (counts %s..%s)' % (phase, n, rng[0], rng[1]))
    # `detect <platform_dir> <buildplan>` / `build <layers> <platform> <plan>`: the Ok value of parse carries argv[k] in the
    # field the command line assigns to position k (whatever the spelling: slice pattern, indexing, split_first + array)
    for phase, table in (('Detect', {'platform_dir_path': 1, 'build_plan_path': 2}),
                         ('Build', {'layers_dir_path': 1, 'platform_dir_path': 2, 'buildpack_plan_path': 3})):
        pf = prog.fn('libcnb::runtime::%sArgs::parse' % phase)
        okv = strip(sl.mk_unwrap(sl.inline_deep(sl.local(pf, 0)), 1)) if pf.argc == 1 else ('unknown',)
        root = ('param', pf.path, 0, pf.local_name(1))
        fv = dict(okv[3]) if okv[0] == 'agg' and okv[1] == 'libcnb::runtime::%sArgs' % phase else None
        if fv is None:
            rep.unproven('R3', 'argmap/' + phase, w(pf), 'success value of parse is not a literal of %sArgs: %s' % (phase, vstr(okv)[:100]))
            continue
        plain = strip(sl.mk_unwrap(sl.local(pf, 0), 1))
        own = {n: x for n, x in plain[3]} if plain[0] == 'agg' and plain[1] == okv[1] else {}
        for fld, k in table.items():
            # (an index kept in a local is only resolved when the field value was computed in parse itself)
            got = H.elem_pos(prog, sl, fv[fld], root, pf if own.get(fld) == fv[fld] else None) if fld in fv else None
            if got is None:
                rep.unproven('R3', 'argmap/%s/%s' % (phase, fld), w(pf), 'cannot tell which argument becomes %s: %s' % (fld, vstr(fv.get(fld, ('unknown',)))[:100]))
            else:
                rep.check(got == k, 'R3', 'argmap/%s/%s' % (phase, fld), w(pf), '%s <- argv[%d]' % (fld, k), '%s is taken from argv[%d], the command line puts it at position %d' % (fld, got, k))
    rep.check(bool(rows), 'R4', 'runtime/exits', w(rt), 'libcnb_runtime ends in exit calls', 'no exit call found among the effects of libcnb_runtime')
    # ... and in nothing else: returning from libcnb_runtime hands control back to `main`, which ends the process with status 0
    # whatever happened (wrong executable name, usage error, failed phase)
    back = H.can_return(prog, rt)
    rep.check(not back, 'R4', 'runtime/returns-normally', w(rt), 'libcnb_runtime never returns: every path ends in exit',
              'libcnb_runtime can return to its caller (the process then exits with status 0) at bb%s' % back[:3])
    for r in rows:
        if r.kind == 'const':
            rep.check(bad_code(r.value), 'R4', 'runtime/exit-const/%s' % r.value[1], r.exit.where(), 'error exit code %s' % r.value[1], 'constant exit code %s is 0 or 100 on an error arm' % r.value[1])
        elif r.kind == 'other':
            rep.unproven('R4', 'runtime/exit-other', r.exit.where(), 'exit code of unknown origin: %s' % vstr(r.value)[:100])
    res_rows = [r for r in rows if r.kind == 'result']
    rep.check(len({id(r.exit) for r in res_rows}) == 1 and len({(r.site[0].path, r.site[1]) for r in res_rows}) == 1, 'R4', 'runtime/exit-result/count', w(rt), 'one exit(code) forwarding the phase result', '%d exits forward a phase result' % len({(id(r.exit), r.site[0].path, r.site[1]) for r in res_rows}))
    for r in res_rows[:1]:
        okc = any(cd.kind == 'variant' and cd.outcome == frozenset({'Ok'}) and cd.enum == 'std::result::Result' and
                  mentions_phase(cd.subject) for cd in r.conds)
        rep.check(okc, 'R4', 'runtime/exit-result', r.exit.where(), 'Ok(code) => exit(code)', 'the phase result is forwarded as exit code outside the Ok arm')
    # on_error: one reachable call (an effect of libcnb_runtime, wherever it was moved to), with the phase error, only on
    # Err, followed by an error exit that cannot be reached from the Err side without it
    oe = [e for e in may_rt if e.kind == 'CALLBACK' and e.call is not None and e.call.decl == ON_ERROR]
    oe_sites = [x for x in prog.callers().get(ON_ERROR, []) if x.decl == ON_ERROR and x.fn.crate == 'libcnb']
    if len(oe) != 1 or len(oe_sites) != 1:
        # one reachable call from libcnb_runtime, and no other call site anywhere in the crate (e.g. inside a phase)
        oe = oe if len(oe) != 1 else oe_sites
        rep.violated('R4', 'runtime/on_error', w(rt), 'on_error is called from %d sites (expected exactly one)' % len(oe))
    else:
        e = oe[0]
        c = e.call
        of = c.fn
        levels = list(e.chain) + [c]
        e_args, e_implied = H.err_closure_payload(E_rt, e)
        # the handler call may sit in a closure handed to a private function that maps the phase result to the exit code and
        # runs the closure itself (`exit(code_of(result, |e| buildpack.on_error(e)))`): the closure's parameter is what that
        # function passes at its one call of it, the decisions around that call are decisions around on_error, and the
        # codes the function returns are rows placed in it
        inv = H.closure_invocation(E_rt, e)
        inv_conds = []
        if inv is not None:
            g_inv, c_inv, m_inv, bind = inv
            rep.analysed(g_inv)
            from .lib.value import subst as _vs
            e_args = tuple(_vs(a, bind, sl) for a in e_args)
            levels = list(e.chain) + [c_inv, c]
            inv_conds = [H.SubstCond(cd, m_inv, sl) for cd in conditions(g_inv, c_inv.bb, sl)]
        ev = strip(e_args[1]) if len(e_args) > 1 else ('unknown',)
        ok = all(a[0] == 'unwrap_err' and is_phase_result(a[1]) for a in alts(ev)) and not any(l.fn.in_loop(l.bb) for l in levels)
        # "only on Err": a decision on the phase result around the call (at any level of the chain), or the call sits in
        # the closure a Result combinator runs with the Err payload of the phase result
        implied_err = any(x[0] == 'unwrap_err' and is_phase_result(x[1]) for x in e_implied)
        okc = any(err_phase(cd) or (cd.kind == 'variant' and cd.outcome == frozenset({'Err'}) and mentions_phase(subj)) for cd, _, subj in guards_of(E_rt, e)) or implied_err \
            or any(err_phase(cd) for cd in inv_conds)
        # after on_error the process exits with an error code: every way the process ends on the Err side of the phase result
        # carries a constant error code and lies behind on_error.  The place of a row in on_error's function `of` is where
        # its code was chosen there (the exit / the `return CODE`), or the call in `of` the exit is reached through.
        def anchor(r):
            if r.site[0].path == of.path:
                return r.site[1]
            for l in list(r.eff.chain) + [r.eff.call]:
                if l.fn.path == of.path:
                    return l.bb
            return None
        reach = of.reachable(c.bb)
        on_err = [r for r in rows if any(err_phase(cd) for cd in r.conds)]
        direct = [r for r in on_err if r.via is None and anchor(r) is not None and anchor(r) in reach]
        handled = [r for r in on_err if r.via is not None and any(l.fn.path == r.via.path for l in levels)]
        # rows chosen inside the function that runs the handler closure: behind its call of the closure on every way from
        # the Err arm, the closure calling on_error on every way through it
        placed = []
        if inv is not None and of.kind == 'Closure' and any(m.call is c for m in E_rt.expand(of, 'must')):
            arm = [cd.target for cd in inv_conds if err_phase(cd) and cd.fn.path == g_inv.path]
            for r in on_err:
                if r.via is None and r.site[0].path == g_inv.path and arm and r.site[1] != c_inv.bb and r.site[1] in g_inv.reachable(c_inv.bb) \
                        and must_pass(g_inv, arm[-1], r.site[1], c_inv.bb) and not any(r is x for x in direct):
                    placed.append(r)
        err_rows = direct + handled + placed
        bypass = [r for r in on_err if not any(r is x for x in err_rows)]
        good_after = bool(err_rows) and all(r.kind == 'const' and bad_code(r.value) for r in err_rows)
        conds = conditions(of, c.bb, sl)
        err_arm = [cd.target for cd in conds if cd.kind == 'variant' and cd.outcome == frozenset({'Err'})]
        if not err_arm and implied_err and of.kind == 'Closure':
            err_arm = [0]        # the closure body *is* the Err arm
        if not err_arm and okc and not any(cd.fn.path == of.path for cd, _, _ in guards_of(E_rt, e) if err_phase(cd)):
            err_arm = [0]        # the Err decision was taken by a caller: the whole function is the Err arm
        if not err_arm and any(err_phase(cd) for cd in inv_conds) and of.kind == 'Closure':
            err_arm = [0]        # the function the closure was handed to runs it on its Err arm
        not_bypassed = bool(err_rows) and (not direct or (bool(err_arm) and all(anchor(r) == c.bb or must_pass(of, err_arm[-1], anchor(r), c.bb) for r in direct)))
        for r in handled:
            # the handler closure returns the code: on_error is among the effects on every way to each of its returns
            not_bypassed = not_bypassed and any(m.call is c for m in E_rt.expand(r.via, 'must'))
        rep.check(ok and okc and good_after and not_bypassed, 'R4', 'runtime/on_error', c.where(),
                  'Err(e) => on_error(e) once, then exit with an error code', 'error path does not call on_error(e) exactly once followed by a non-zero, non-100 exit')
        # ... and there is no other way out of the Err side: an exit (or returned code) under "the phase failed" that is not
        # behind the handler call ends the process without the buildpack having seen its error
        rep.check(not bypass, 'R4', 'runtime/on_error/always', bypass[0].exit.where() if bypass else c.where(), 'every exit on the Err side of the phase result lies behind on_error',
                  'a failed phase can end the process without on_error: exit code %s chosen at %s bb%s' % (
                      vstr(bypass[0].value)[:30], bypass[0].site[0].path.split('::')[-1], bypass[0].site[1]) if bypass else '')
    # ---- R5 --------------------------------------------------------------------------------------------
    want = {'GENERIC_SUCCESS': lambda v: v == 0, 'DETECT_DETECTION_PASSED': lambda v: v == 0, 'DETECT_DETECTION_FAILED': lambda v: v == 100}
    n = 0
    for path, cst in prog.consts.items():
        if not path.startswith('libcnb::exit_code::'):
            continue
        n += 1
        name = path.split('::')[-1]
        val = (cst.get('value') or {}).get('int')
        pred = want.get(name, lambda v: v is not None and 1 <= v <= 255 and v != 100)
        rep.check(pred(val), 'R5', 'const/' + name, '%s:%s' % (cst['file'], cst['line']), '%s = %s' % (name, val), '%s = %s violates the exit-code contract' % (name, val))
    rep.floor('R5', 'exit_code_consts', n)
    # ---- R6 --------------------------------------------------------------------------------------------
    callers = prog.callers()
    # the calls of Buildpack::detect / ::build are effects of the phases: the call may sit in the phase function or in a
    # private function the phase hands its inputs to; it is judged with the parameters read as what the chain passes
    BP = 'libcnb::buildpack::Buildpack::'
    E_bp = Effects(prog, sl, vocab={BP + 'detect': ('BPCALL', None), BP + 'build': ('BPCALL', None)})
    for m, host in (('detect', rd), ('build', rb)):
        decl = BP + m
        sites = [c for c in callers.get(decl, []) if c.decl == decl and c.fn.crate == 'libcnb']
        bpe = [e for e in E_bp.expand(host, 'may') if e.kind == 'BPCALL' and e.call is not None and e.call.decl == decl]
        lv7 = [(getattr(l, 'call', l), getattr(l, 'mapping', None)) for l in bpe[0].chain] + [(bpe[0].call, bpe[0].mapping)] if bpe else []
        ok = len(sites) == 1 and len(bpe) == 1 and bpe[0].call is sites[0] and not any(l.fn.in_loop(l.bb) for l, _ in lv7) \
            and all(l.fn.kind != 'Closure' and (l.fn.path == host.path or (l.fn.vis != 'pub' and len(callers.get(l.fn.path, [])) == 1)) for l, _ in lv7)
        rep.check(ok, 'R6', 'once/' + m, sites[0].where() if sites else w(host), 'Buildpack::%s: one call site in %s, not in a loop' % (m, host.path.split('::')[-1]),
                  'Buildpack::%s is called from %s' % (m, [s.fn.path for s in sites]))
        if not ok:
            continue
        c = sites[0]
        for l, _ in lv7:
            rep.analysed(l.fn)
        clean = lambda mp: {k: x for k, x in (mp or {}).items() if k != '__repl__'}
        # ---- R7 ----------------------------------------------------------------------------------------
        # (a loop over a literal table of (variable, error) rows zipped with the slots it fills is read row by row)
        # what has happened on every way to the call: at each level of the chain, the effects on every path to the next call
        must7 = []
        for l, mp in lv7:
            must7.extend(E.expand(l.fn, 'must', site_bbs=[l.bb], mapping=clean(mp) or None))
        must = H.unroll_zip(E, prog, must7)
        envs = {}
        for e in must:
            if e.kind == 'ENV_READ' and e.path is not None and e.path[0] == 'const':
                envs.setdefault(e.path[1], []).append(e)
        for name in MANDATORY:
            es = envs.get(name, [])
            ok2 = bool(es)
            for e in es:
                v = verdict(result_fates(prog, e.call.fn, e.call))
                ok2 = ok2 and v == 'ok'
            rep.check(ok2, 'R7', '%s/%s' % (m, name), es[0].where() if es else w(host), '%s read and its absence propagated before %s' % (name, m),
                      '%s is not read (or its error is dropped) on every path before Buildpack::%s' % (name, m))
        ctx0 = sl.operand(c.fn, c.args[1])
        if clean(bpe[0].mapping):
            ctx0 = E.subst(ctx0, clean(bpe[0].mapping))
        ctxv = strip(ctx0)
        # normal form: private helpers between the context literal and the reads are looked through — also a helper that
        # assembles the whole context and returns it (`assemble_context(&args, ..)?`)
        KEEP7 = (READ_DESC, 'libcnb_common::toml_file::read_toml_file')
        if ctxv[0] != 'agg':
            ctxv = strip(sl.inline_deep(ctx0, keep=KEEP7))
            while ctxv[0] == 'agg' and ctxv[1] == 'std::result::Result' and ctxv[2] == 'Ok' and len(ctxv[3]) == 1:
                ctxv = strip(ctxv[3][0][1])
        fields = {k: sl.inline_deep(v, keep=KEEP7) for k, v in ctxv[3]} if ctxv[0] == 'agg' else {}
        need = {'buildpack_descriptor': READ_DESC, 'platform': 'libcnb::platform::Platform::from_path'}
        if m == 'build':
            need['buildpack_plan'] = 'libcnb_common::toml_file::read_toml_file'
        for fld, callee in need.items():
            fv = strip(fields.get(fld, ('unknown',)))
            while fv[0] == 'call' and fv[1] in ('std::result::Result::<T, E>::map_err', 'std::result::Result::<T, E>::inspect_err') and fv[2]:
                fv = strip(fv[2][0])
            ok3 = fv[0] == 'call' and fv[1] == callee
            via_full = False
            if not ok3 and fld == 'buildpack_descriptor':
                # the descriptor read hands back more than the descriptor (directory + descriptor): the field is the
                # ?-propagated parse of <CNB_BUILDPACK_DIR>/buildpack.toml itself
                full = sl.inline_deep(fields.get(fld, ('unknown',)), keep=KEEP7[1:])
                f2 = strip(full)
                while f2[0] == 'call' and f2[1] in ('std::result::Result::<T, E>::map_err', 'std::result::Result::<T, E>::inspect_err') and f2[2]:
                    f2 = strip(f2[2][0])
                if full[0] == 'unwrap' and f2[0] == 'call' and f2[1] == KEEP7[1] and f2[2] and \
                        any(z[0] == 'unwrap' and z[1][0] == 'call' and z[1][1] == READ_DESC for z in walk(fields[fld])) and \
                        L.comps(H.norm(prog, sl, f2[2][0]), is_bpdir) == ('buildpack.toml',):
                    ok3 = via_full = True
            rep.check(ok3 and (via_full or fields.get(fld, ('x',))[0] == 'unwrap'), 'R7', '%s/input/%s' % (m, fld), c.where(), '%s <- %s(..)? (failure propagated)' % (fld, callee.split('::')[-1]),
                      'context field %s is not the ?-propagated result of %s: %s' % (fld, callee, vstr(fields.get(fld, ('unknown',)))[:100]))
            src = {'platform': 'platform_dir_path', 'buildpack_plan': 'buildpack_plan_path'}.get(fld)
            if ok3 and src:
                # ... read from the argument the lifecycle passes for it
                a = strip(fv[2][0]) if fv[2] else ('unknown',)
                rep.check(a[0] == 'field' and a[2] == src and a[1][0] == 'param' and a[1][2] == 1 and a[1][1] == host.path, 'R7', '%s/input/%s/source' % (m, fld), c.where(),
                          '%s is read from args.%s' % (fld, src), '%s is read from %s, not from args.%s' % (fld, vstr(a)[:80], src))
    # ---- R4 detect table ---------------------------------------------------------------------------------
    # One row per (success outcome, variant of the detect result).  The variant is decided by a `match` in the phase
    # itself, or inside a private helper that maps the result to what the phase then uses (`let (code, plan) =
    # result.into_code_and_plan()`): such a helper's return table is read row by row as if it had been matched at the call
    # site (H.decided_by), values and guards rewritten with the row's value, effects under a refuted guard dropped.
    ENUM = 'libcnb::detect::InnerDetectResult'
    outs = H.outcomes_body(E, rd)
    cases = []        # (arm, success value, MUTATING effects after the decision, MUTATING effects before it, outcome, view)
    for o in outs:
        mut = [e for e in o.may if e.kind in MUTATING]
        dec = [(c, s, lv) for c, s, lv in o.decisions() if c.enum == ENUM]
        if dec:
            arm = next(iter(dec[-1][0].outcome)) if len(dec[-1][0].outcome) == 1 else '?'
            after = {id(e) for e in o.region(dec[-1][0], dec[-1][2], o.may)}
            cases.append((arm, o.value, [e for e in mut if id(e) in after], [e for e in mut if id(e) not in after], o, lambda x: x))
            continue
        is_detect = lambda x: any(y[0] == 'call' and y[1] == 'libcnb::buildpack::Buildpack::detect' for y in walk(x))
        split = [(X, rows) for X, rows in H.decided_by(prog, sl, o.value, ENUM, rd) if all(is_detect(r[2]) for r in rows)]
        if len(split) != 1:
            cases.append(('?', o.value, [], mut, o, lambda x: x))
            continue
        X, rows = split[0]
        xbb = X[3][1]
        after = [e for e in mut if e.level is not None and (e.level > 0 or (e.level == 0 and e.level_bb != xbb and rd.dominates(xbb, e.level_bb)))]
        ids = {id(e) for e in after}
        for arm, rowv, _subj in rows:
            view = (lambda X, rowv: lambda x: H.replace_norm(sl, x, X, rowv) if x is not None else None)(X, rowv)
            def refuted(e):
                for cd, views, subj in guards_of(E, e):
                    y = view(subj) if cd.kind == 'variant' and subj is not None else None
                    while y is not None and y[0] in ('unwrap', 'updated'):
                        y = y[1]
                    if y is not None and y[0] == 'agg' and y[2] is not None and y[1] == cd.enum and y[2] not in cd.outcome:
                        return True
                    if cd.kind == 'int' and views:
                        # `match code { 100 => .., _ => .. }` on the row's constant
                        k = strip(view(views[0][0]))
                        if k[0] == 'const' and isinstance(k[1], int) and not isinstance(k[1], bool):
                            oc = cd.outcome
                            if (isinstance(oc, int) and oc != k[1]) or (isinstance(oc, tuple) and oc[0] == 'not' and k[1] in oc[1]):
                                return True
                return False
            cases.append((arm, view(o.value), [e for e in after if not refuted(e)], [e for e in mut if id(e) not in ids], o, view))
    seen = set()
    for arm, val, wr, _early, o, view in cases:
        v = strip(val)
        code = dict(v[3]).get('0') if v[0] == 'agg' and v[2] == 'Ok' else None
        seen.add(arm)
        site = o.sites[0]
        body = (o.body_fn.path,) if getattr(o, 'body_fn', None) is not None else ()
        if body:
            rep.analysed(o.body_fn)
        where = '%s:%d' % (rd.file, rd.line)
        if arm == 'Fail':
            rep.check(code == ('const', 100), 'R4', 'detect/Fail/code', where, 'Fail => Ok(100)', 'detect Fail returns %s' % vstr(v)[:60])
            rep.check(not wr, 'R4', 'detect/Fail/no-write', where, 'nothing is written when detection fails', 'a failed detection can write: %s' % [(e.kind, vstr(e.path)[:60]) for e in wr[:2]])
        elif arm == 'Pass':
            rep.check(code == ('const', 0), 'R4', 'detect/Pass/code', where, 'Pass => Ok(0)', 'detect Pass returns %s' % vstr(v)[:60])
            ok = len(wr) == 1 and wr[0].kind == 'WRITE'
            if ok:
                e = wr[0]
                pv = strip(e.path)
                ok_path = pv[0] == 'field' and pv[2] == 'build_plan_path' and pv[1][0] == 'param' and pv[1][2] == 1 and pv[1][1] == rd.path
                data_ok = any(x[0] == 'field' and x[2] == 'build_plan' for x in walk(view(e.args[1])))
                # "iff Some": a Some-decision on the plan around the write — in the phase or in the private helper the write
                # was moved to — or the write sits in the closure an Option combinator on the plan runs with the payload
                # (`build_plan.map(|p| write(p, ..)).transpose()?`); with a plan, success is only reached through the write
                is_plan = lambda x: strip(view(x))[0] == 'field' and strip(view(x))[2] == 'build_plan'
                guarded, always, first, top = provided_write(E, prog, sl, rd, site.bb, e, is_plan, o.sites)
                rep.check(ok_path and guarded and data_ok, 'R4', 'detect/Pass/plan-write', e.where(), 'build plan written to args.build_plan_path iff Some',
                          'plan write: path_ok=%s guarded_by_Some=%s data_ok=%s' % (ok_path, guarded, data_ok))
                if guarded:
                    rep.check(always, 'R4', 'detect/Pass/plan-write-must', e.where(),
                              'with a plan, Ok(0) is only reached through the write', 'Ok(0) can be returned with a plan without writing it')
                fa = verdict(result_fates(prog, top.fn, top))
                rep.check(fa == 'ok', 'R4', 'detect/Pass/plan-write-propagated', e.where(), 'write error propagated', 'write result: ' + fa)
                why = H.chain_always(E, prog, e, first, body) + ([] if H.effect_name(e) in H.TRUNCATING else ['%s does not replace an existing file' % e.call.name])
                rep.check(not why, 'R4', 'detect/Pass/plan-write-helper', e.where(), 'the helper writes (replacing the file) whenever it succeeds',
                          'the write of the build plan inside its helper: %s' % '; '.join(why))
            else:
                rep.violated('R4', 'detect/Pass/plan-write', where, 'expected exactly one conditional write on the Pass arm, found %s' % [(e.kind, vstr(e.path)[:50]) for e in wr])
        else:
            rep.unproven('R4', 'detect/arm/' + arm, where, 'success outcome on unrecognised arm returning ' + vstr(v)[:80])
    rep.check(seen == {'Fail', 'Pass'}, 'R4', 'detect/arms', w(rd), 'outcomes for Fail and Pass', 'detect outcomes cover arms %s' % sorted(seen))
    # ... and on the whole way to either result (not only after the decision) nothing in the file system is changed but the
    # plan file by that one write: a failed detection leaves a pre-existing plan file exactly as it was
    for arm, _val, _wr, before, o, _view in cases:
        early = [e for e in before if not H.elsewhere(e.path, rd)]
        rep.check(not early, 'R4', 'detect/%s/no-other-mutation' % arm, early[0].where() if early else w(rd), 'nothing is written or removed before the detection result is known',
                  'the detect phase changes the file system whatever the result: %s' % [(e.kind, vstr(e.path)[:60] if e.path else '') for e in early[:3]])
    # ---- R4 build table ----------------------------------------------------------------------------------
    # write_all is part of the vocabulary here: `File::create(p).and_then(|mut f| f.write_all(d))` is `fs::write(p, d)`
    E2 = Effects(prog, sl, vocab=H.WRITE_DATA)
    outs = H.outcomes_body(E2, rb)
    rep.check(len(outs) >= 1 and all(strip(o.value) == ('agg', 'std::result::Result', 'Ok', (('0', ('const', 0)),)) for o in outs), 'R4', 'build/code', w(rb),
              'build success => Ok(0)', 'build success values: %s' % [vstr(o.value)[:40] for o in outs])
    for o in outs[:1]:
        site = o.sites[-1]
        bfn, bmap = getattr(o, 'body_fn', None), getattr(o, 'body_map', None)
        body = (bfn.path,) if bfn is not None else ()
        if bfn is not None:
            rep.analysed(bfn)
        ld = lambda v: strip(v)[0] == 'field' and strip(v)[2] == 'layers_dir_path'
        def res_field(v, name, exact=False):
            """v is (exact) / contains the projection .name of Buildpack::build's result, reached through
            field / variant / unwrap steps only"""
            cands = [strip(v)] if exact else list(walk(v))
            for x in cands:
                if x[0] == 'field' and x[2] == name:
                    y = x[1]
                    while y[0] in ('field', 'variant', 'unwrap'):
                        y = y[1]
                    if y[0] == 'call' and y[1] == 'libcnb::buildpack::Buildpack::build':
                        return True
            return False
        known_writes = []
        pp = H.path_pushes(prog, sl, [rb] + ([bfn] if bfn is not None else []))       # `p = dir.to_path_buf(); p.push(name)` is `dir.join(name)`
        for fname, fld in (('launch.toml', 'launch'), ('store.toml', 'store')):
            es = [e for e in o.may if e.kind == 'WRITE' and L.comps(pp.join_form(e.path) if e.path is not None else None, ld) == (fname,)]
            if len(es) != 1:
                rep.violated('R4', 'build/' + fname, w(rb), '%d writes of %s' % (len(es), fname))
                continue
            e = es[0]
            data_ok = res_field(e.args[1], fld)
            # "only if Some": a Some-decision on result.<fld> around the write — in libcnb_runtime_build or in the
            # private helper the write was moved to — or the write sits in a closure that an Option combinator on
            # result.<fld> runs with the payload (`launch.map_or(Ok(()), |l| write(l, ..))`);
            # "if Some": on the Some side every way to success passes the write (or the combinator always runs the closure)
            guarded, always, first, top = provided_write(E, prog, sl, rb, o.sites[0].bb, e, lambda x, fld=fld: res_field(x, fld, exact=True), o.sites)
            ok = guarded and data_ok and always and verdict(result_fates(prog, top.fn, top)) == 'ok'
            rep.check(ok, 'R4', 'build/' + fname, e.where(), '%s written iff result.%s is Some, error propagated' % (fname, fld),
                      '%s: guarded_by_Some(%s)=%s data_from_result=%s always_on_Some=%s' % (fname, fld, guarded, data_ok, always))
            # the same inside the helper(s) the write goes through: unconditional, checked, and replacing a file that exists
            why = H.chain_always(E, prog, e, first, body) + ([] if H.effect_name(e) in H.TRUNCATING else ['%s does not replace an existing file' % e.call.name])
            rep.check(not why, 'R4', 'build/%s/helper' % fname, e.where(), 'the helper writes (replacing the file) whenever it succeeds',
                      'the write of %s inside its helper: %s' % (fname, '; '.join(why)))
            known_writes.append(e)
        # every SBOM of result.<fld> is written: FORALL write effects on every path to success — of a loop, an iterator
        # consumer, or a loop nest whose outer loop ranges over a literal table of (collection, name, ..) rows (unrolled)
        if bfn is not None and site.fn.path == bfn.path:
            # (loop nests of the body function, in the phase's terms)
            nest = H.nested_must(E2, bfn, [site.bb], level=1)
            for e in nest:
                e.path = E2.subst(e.path, bmap) if e.path is not None else None
                e.args = tuple(E2.subst(a, bmap) for a in e.args) if e.args is not None else None
                e.forall = E2.subst(e.forall, bmap) if e.forall is not None else None
        else:
            nest = H.nested_must(E2, rb, [site.bb])
        must_all = list(o.must) + nest
        sb = [e for e in must_all if e.kind == 'WRITE' and e.forall is not None and strip(e.path)[0] == 'call' and strip(e.path)[1] == SBOM_PATH]
        got = {}
        for e in sb:
            pv = strip(e.path)
            kind = strip(pv[2][2])
            coll = H.same_elements(e.forall)
            data, dw = H.written_data(e, must_all)
            c1, p1 = L.loop_element(pv[2][0])
            c2, p2 = L.loop_element(data) if data is not None else (None, None)
            fldname = None
            for x in walk(coll):
                if x[0] == 'field' and x[2] in ('build_sboms', 'launch_sboms'):
                    fldname = x[2]
            shape = c1 == coll and p1 == ('format',) and c2 == coll and p2 == ('data',) and ld(pv[2][1]) and res_field(coll, fldname, exact=True)
            kept = verdict(result_fates(prog, e.call.fn, e.call)) == 'ok' and (dw is None or verdict(result_fates(prog, dw.call.fn, dw.call)) == 'ok')
            got.setdefault(fldname, []).append((kind[1] if kind[0] == 'const' else vstr(kind), shape, e, kept))
        for fld, base in (('build_sboms', 'build'), ('launch_sboms', 'launch')):
            gs = got.get(fld, [])
            ok = bool(gs) and all(g[0] == base and g[1] and g[3] for g in gs)
            rep.check(ok, 'R4', 'build/sbom/' + fld, gs[0][2].where() if gs else w(rb), 'every %s element written to the "%s" SBOM path of its format' % (fld, base),
                      '%s are written as %s' % (fld, [(g[0], g[1], g[3]) for g in gs] if gs else 'nothing on every path'))
        # "exactly": a successful build changes nothing in the file system but launch.toml, store.toml and the SBOM files
        # (no other file written, nothing removed / renamed — e.g. a pre-existing store.toml survives a result without store);
        # fixed absolute locations that do not depend on the arguments (the telemetry file of the `trace` feature under /tmp)
        # are not among the places the lifecycle passes or looks at
        is_sbom = lambda e: e.kind == 'WRITE' and strip(e.path)[0] == 'call' and strip(e.path)[1] == SBOM_PATH
        other = [e for e in o.may if e.kind in MUTATING and not is_sbom(e) and not any(e.call is k.call for k in known_writes) and not H.elsewhere(e.path, rb)]
        rep.check(not other, 'R4', 'build/no-other-mutation', other[0].where() if other else w(rb), 'a successful build only writes launch.toml, store.toml and SBOM files',
                  'a successful build also performs %s' % [(e.kind, vstr(e.path)[:60] if e.path else '') for e in other[:3]])
        trunc = [e for e in sb if H.effect_name(e) not in H.TRUNCATING]
        rep.check(not trunc, 'R4', 'build/sbom/replaces', trunc[0].where() if trunc else w(rb), 'SBOM files replace existing ones', 'SBOM files are written with %s' % [e.call.name for e in trunc[:2]])
        # the SBOM path: <layers>/<name><per-format text>, total and injective in the format, so no two provided SBOMs of
        # one kind share a file and build / launch files never coincide
        pfn = prog.fns.get(SBOM_PATH)
        if pfn is None:
            rep.unproven('R4', 'build/sbom/path-fn', w(rb), 'SBOM path function %s not found' % SBOM_PATH)
        else:
            rep.analysed(pfn)
            probs, table = H.sbom_path_shape(prog, sl, pfn)
            rep.check(not probs, 'R4', 'build/sbom/path-fn', w(pfn), 'SBOM path = <dir>/<name + per-format suffix>, one distinct suffix per format: %s' % sorted(table.items()),
                      'SBOM path function: ' + '; '.join(probs))
    # ---- R4 errors of a phase are returned ---------------------------------------------------------------------
    # "on any error calls the error handler once": the handler is called by libcnb_runtime on the Err the phase RETURNS,
    # so inside a phase (and the helpers it reaches) no failure may end the process on its own: no exit, no unwrap /
    # expect on a fallible value, no handler that never returns
    for phase, pfn_ in (('detect', rd), ('build', rb)):
        fns = []
        for x in prog.reach([pfn_]):
            g = prog.fns.get(x) if isinstance(x, str) else x
            if g is not None and g.path != SBOM_PATH:
                fns.append(g)
        exits = [e for e in E.expand(pfn_, 'may') if e.kind == 'EXIT']
        raised = H.raised_errors(prog, sl, fns)
        rep.check(not exits and not raised, 'R4', '%s/errors-returned' % phase, (exits[0].where() if exits else raised[0][0].where() if raised else w(pfn_)),
                  'every failure inside the %s phase is returned to libcnb_runtime' % phase,
                  'a failure inside the %s phase ends the process without on_error: %s' % (phase, [e.via() for e in exits[:2]] + ['%s in %s' % (wh, c.fn.path.split('::')[-1]) for c, wh in raised[:2]]))
    # ---- R8 builders ---------------------------------------------------------------------------------------
    builders(prog, sl, rep)


def builders(prog, sl, rep):
    """R8: the inner result enums are crate-private; what libcnb_runtime_detect / _build see is what the public builders
    put there.  Each builder function is read as a transformation of `self` (H.self_updates) / as the value it returns
    with private helpers inlined."""
    w = lambda f: '%s:%d' % (f.file, f.line)

    def setter(group, path, field, how):
        f = prog.fns.get(path)
        key = '%s/set/%s' % (group, path.split('::')[-1])
        if f is None:
            rep.unproven('R8', key, '-', 'builder method %s not found' % path)
            return
        rep.analysed(f)
        ups = H.self_updates(prog, sl, f)
        if ups is None or f.argc != 2:
            rep.unproven('R8', key, w(f), 'cannot read %s as a change of self' % path.split('::')[-1])
            return
        arg = ('param', f.path, 1, f.local_name(2))
        ops = ups.get(field, [])
        good = set(ups) == {field} and len(ops) == 1
        if good and how == 'some':
            good = ops[0][0] == 'set' and H.some_of(ops[0][1]) == arg
        elif good:
            good = ops[0][0] == 'push' and strip(ops[0][1]) == arg
        rep.check(good, 'R8', key, w(f), '%s: self.%s %s, nothing else' % (path.split('::')[-1], field, '= Some(arg)' if how == 'some' else '.push(arg)'),
                  '%s changes %s' % (path.split('::')[-1], {k: [(op, vstr(v)[:50] if isinstance(v, tuple) else v) for op, v in x] for k, x in ups.items()}))

    def finish(group, path, inner, variant, fields):
        f = prog.fns.get(path)
        key = '%s/finish/%s' % (group, '::'.join(path.split('::')[-2:]))
        if f is None:
            rep.unproven('R8', key, '-', 'builder method %s not found' % path)
            return None
        rep.analysed(f)
        v = strip(sl.inline_deep(sl.local(f, 0)))
        if v[0] == 'agg' and v[1] == 'std::result::Result':
            if v[2] != 'Ok':
                rep.violated('R8', key, w(f), 'finishing a builder returns an error')
                return None
            v = strip(v[3][0][1])
        if v[0] == 'agg' and v[1] != inner and len(v[3]) == 1:
            v = strip(v[3][0][1])          # the public newtype around the inner enum
        if not (v[0] == 'agg' and v[1] == inner):
            rep.unproven('R8', key, w(f), 'result is not a literal of %s: %s' % (inner.split('::')[-1], vstr(v)[:100]))
            return None
        me = ('param', f.path, 0, f.local_name(1)) if f.argc else None
        got = dict(v[3])
        bad = [n for n in fields if strip(got.get(n, ('unknown',))) != ('field', me, n)]
        rep.check(v[2] == variant and not bad and set(got) == set(fields), 'R8', key, w(f), '%s => %s{%s}' % (path.split('::')[-1], variant, ', '.join('%s: self.%s' % (n, n) for n in fields)),
                  '%s builds %s with %s' % (path.split('::')[-1], v[2], {n: vstr(got.get(n, ('unknown',)))[:50] for n in (bad or got)}))
        return f.path

    def fresh(group, path, adt):
        f = prog.fns.get(path)
        key = '%s/new/%s' % (group, path.split('::')[-1])
        if f is None:
            rep.unproven('R8', key, '-', 'builder constructor %s not found' % path)
            return
        rep.analysed(f)
        v = strip(sl.inline_deep(sl.local(f, 0)))
        if not (v[0] == 'agg' and v[1] == adt):
            rep.unproven('R8', key, w(f), 'a new builder is not a literal of %s: %s' % (adt.split('::')[-1], vstr(v)[:100]))
            return
        full = [n for n, x in v[3] if not H.empty_init(x)]
        rep.check(not full, 'R8', key, w(f), 'a new builder provides nothing', 'a new builder already provides %s' % full)

    def variant_fields(adt, variant):
        a = prog.adts.get(adt)
        for vv in (a['variants'] if a else []):
            if vv['name'] == variant:
                return [x['name'] for x in vv['fields']]
        return None

    B, IB = 'libcnb::build::BuildResultBuilder', 'libcnb::build::InnerBuildResult'
    P, FB, ID = 'libcnb::detect::PassDetectResultBuilder', 'libcnb::detect::FailDetectResultBuilder', 'libcnb::detect::InnerDetectResult'
    bf, df = variant_fields(IB, 'Pass'), variant_fields(ID, 'Pass')
    if bf is None or df is None or variant_fields(ID, 'Fail') is None:
        rep.unproven('R8', 'inner-results', '-', 'InnerBuildResult::Pass / InnerDetectResult::{Pass, Fail} not found')
        return
    known = set()
    fresh('build', B + '::new', B)
    for m, fld, how in (('launch', 'launch', 'some'), ('store', 'store', 'some'), ('build_sbom', 'build_sboms', 'push'), ('launch_sbom', 'launch_sboms', 'push')):
        if fld not in bf:
            rep.unproven('R8', 'build/set/' + m, '-', 'InnerBuildResult::Pass has no field %s' % fld)
            continue
        setter('build', B + '::' + m, fld, how)
    for m in ('build_unwrapped', 'build'):
        known.add(finish('build', B + '::' + m, IB, 'Pass', bf))
    fresh('detect', 'libcnb::detect::DetectResultBuilder::pass', P)
    if 'build_plan' in df:
        setter('detect', P + '::build_plan', 'build_plan', 'some')
    else:
        rep.unproven('R8', 'detect/set/build_plan', '-', 'InnerDetectResult::Pass has no field build_plan')
    for m in ('build_unwrapped', 'build'):
        known.add(finish('detect', P + '::' + m, ID, 'Pass', df))
        known.add(finish('detect', FB + '::' + m, ID, 'Fail', []))
    # nothing else makes an inner result (the finishing functions above are the only constructors)
    for group, adt in (('build', IB), ('detect', ID)):
        cons = H.constructors(prog, adt)
        extra = sorted(x for x in cons if x not in known)
        if extra:
            rep.unproven('R8', group + '/constructors', '-', '%s is also constructed in %s' % (adt.split('::')[-1], extra))
        else:
            rep.holds('R8', group + '/constructors', '-', '%s is only constructed by the builders' % adt.split('::')[-1])
