"""Helpers of C16: where values of a guard type come into existence (struct literals lifted out of private constructor
helpers), what a `run_command` argument denotes (a removal command struct and the guard fields it names), the argv of a
command conversion as interprocedural effects (argv_model), names as terms over the guard (guard_term / eval_term) and the
number of random draws of a string built piecewise (pushed_draws)."""
from .lib.paths import strip
from .lib.value import walk


def literal_sites(fn, ty):
    """[(bb, stmt)] struct literals of `ty` in fn"""
    return [(bi, s) for bi, b in enumerate(fn.blocks) for s in b['s']
            if s[0] == '=' and s[2]['r'] == 'agg' and s[2].get('adt') == ty]


def ctor_helpers(prog, sl, ty):
    """private functions that do nothing to a `ty` but build one and return it: non-pub, return type `ty`, exactly one
    place where the value is made (a literal or a call of another such helper) and that value is what they return.
    Such a function is transparent: the guard starts to exist at its call sites."""
    helpers = {}
    changed = True
    while changed:
        changed = False
        for f in prog.fns.values():
            if f.path in helpers or f.derived or f.vis == 'pub' or f.ret != ty or f.kind == 'Closure':
                continue
            made = len(literal_sites(f, ty)) + len([c for c in f.calls if not c.indirect and c.name in helpers])
            if made != 1:
                continue
            rv = sl.inline_deep(strip(sl.local(f, 0)))
            if rv[0] == 'agg' and rv[1] == ty:
                helpers[f.path] = f
                changed = True
    return helpers


class Made:
    """one place where a guard value starts to exist, in a function that is not a constructor helper"""

    def __init__(self, fn, bb, kind, stmt=None, call=None):
        self.fn, self.bb, self.kind, self.stmt, self.call = fn, bb, kind, stmt, call

    def value(self, sl, keep=()):
        if self.kind == 'stmt':
            v = sl._rvalue(self.fn, self.stmt[2], set(), 0, None)
        elif self.kind == 'call':
            v = sl._call_value(self.fn, self.call, set(), 0)
        else:
            return ('unknown',)
        return sl.inline_deep(strip(v), keep=keep)

    def dest(self):
        """local receiving the value"""
        if self.kind == 'stmt':
            return self.stmt[1][0]
        if self.kind == 'call' and self.call.dest:
            return self.call.dest[0]
        return None

    def __repr__(self):
        return '%s(bb%d,%s)' % (self.fn.path, self.bb, self.kind)


def sites_in(prog, f, ty, helpers):
    """places in f (a constructor helper or not) where a `ty` starts to exist in f's frame: literals, calls of
    constructor helpers, helpers handed over as fn items"""
    out = [Made(f, bi, 'stmt', stmt=s) for bi, s in literal_sites(f, ty)]
    for c in f.calls:
        if not c.indirect and c.name in helpers:
            out.append(Made(f, c.bb, 'call', call=c))
        elif helpers and any(g.path in helpers for g in prog.fn_item_args(c)):
            out.append(Made(f, c.bb, 'fnitem', call=c))
    return out


def construction_sites(prog, sl, ty):
    """every place in the workspace where a `ty` is made, constructor helpers being transparent; a helper handed around
    as a fn item counts as a site where it is handed over (its callers are unknown)"""
    helpers = ctor_helpers(prog, sl, ty)
    out = []
    for f in prog.fns.values():
        if f.derived or f.path in helpers:
            continue
        out.extend(sites_in(prog, f, ty, helpers))
    return out, helpers


def guard_frames(prog, ty, helpers, entry, runs_of, max_depth=6):
    """The frames in which a guard of type `ty` lives while commands are issued, starting at `entry` and descending into
    the constructor helper that makes the guard when that helper issues commands itself (acquire phase split off into a
    private function that hands the guard back by value).
    runs_of(fn) -> effects of fn (in fn's terms) that must not happen before the guard exists.
    Returns (ok, why, frames): frames = [(fn, Made, runs issued in fn's own frame while the guard is owned there)];
    ok is False when in some frame a command can be issued before / not dominated by the guard's creation."""
    frames = []
    fn = entry
    for _ in range(max_depth):
        here = [m for m in sites_in(prog, fn, ty, helpers) if m.kind in ('stmt', 'call')]
        if len(here) != 1:
            return False, '%d construction sites in %s' % (len(here), fn.path), frames
        m = here[0]
        runs = runs_of(fn)
        inner = [e for e in runs if m.kind == 'call' and top_call(e) is m.call]   # issued by the helper itself
        outer = [e for e in runs if not (m.kind == 'call' and top_call(e) is m.call)]
        # a statement precedes the terminator of its block; a call's result exists from the next block on
        late = [e for e in outer if not (fn.dominates(m.bb, top_call(e).bb) and (m.kind == 'stmt' or m.bb != top_call(e).bb))]
        if late:
            return False, 'command at %s is not preceded by the guard made in %s' % (top_call(late[0]).where(), fn.path), frames
        frames.append((fn, m, outer))
        if not inner:
            return True, '', frames
        fn = helpers[m.call.name]
    return False, 'constructor helpers nested too deep', frames


def param_fields(v, fn_path, idx):
    """names of the fields of parameter `idx` of fn_path mentioned in v, in order of appearance"""
    res = []
    for x in walk(v):
        if x[0] == 'field' and x[1][0] == 'param' and x[1][1] == fn_path and x[1][2] == idx:
            res.append(x[2])
    return res


def top_call(e):
    """the call site, in the entry function of the expansion, through which effect e is reached"""
    return e.chain[0].call if e.chain else e.call


OWNING_WRAPPERS = ('std::option::Option', 'std::boxed::Box')


def owns_by_value(ty, inner):
    """type `ty` is `inner` or an Option / Box (nested) of it: dropping a `ty` drops the `inner` it holds.
    References, Rc/Arc (shared), ManuallyDrop and paths derived from the value do not qualify."""
    ty = ty.strip()
    while True:
        if ty == inner:
            return True
        for wr in OWNING_WRAPPERS:
            if ty.startswith(wr + '<') and ty.endswith('>'):
                ty = ty[len(wr) + 1:-1].strip()
                break
        else:
            return False


def owning_fields(adt, inner):
    """{(variant name, field name)} of the fields of adt that own an `inner` by value"""
    return {(v['name'], fl['name']) for v in (adt or {}).get('variants', ()) for fl in v['fields'] if owns_by_value(fl['ty'], inner)}


def _split_top(s):
    """comma-separated parts of s at nesting depth 0"""
    out, depth, cur = [], 0, ''
    for ch in s:
        if ch in '<([':
            depth += 1
        elif ch in '>)]':
            depth -= 1
        if ch == ',' and depth == 0:
            out.append(cur.strip())
            cur = ''
        else:
            cur += ch
    if cur.strip():
        out.append(cur.strip())
    return out


def owns_deep(prog, ty, inner, depth=0):
    """dropping a value of type `ty` drops an `inner` it holds by value: `ty` is `inner`, an Option / Box of such a type, a
    tuple / array with such a component, or a workspace struct / enum with such a field (a private struct that carries the
    RAII values across a function boundary).  References, Rc / Arc, ManuallyDrop and generic parameters do not qualify."""
    ty = (ty or '').strip()
    if depth > 5 or not ty or ty.startswith(('&', '*')):
        return False
    if owns_by_value(ty, inner):
        return True
    for wr in OWNING_WRAPPERS:
        if ty.startswith(wr + '<') and ty.endswith('>'):
            return owns_deep(prog, ty[len(wr) + 1:-1], inner, depth + 1)
    if ty.startswith('(') and ty.endswith(')'):
        return any(owns_deep(prog, t, inner, depth + 1) for t in _split_top(ty[1:-1]))
    if ty.startswith('[') and ty.endswith(']'):
        return owns_deep(prog, ty[1:-1].rsplit(';', 1)[0], inner, depth + 1)
    adt = prog.adts.get(ty.split('<')[0].strip())
    if adt is None or ty.startswith('std::'):
        return False
    return any(owns_deep(prog, fl['ty'], inner, depth + 1) for v in adt.get('variants', ()) for fl in v['fields'])


def owned_across(prog, fn, call, inner):
    """Is a value owning an `inner` alive in fn's frame while `call` (a call in fn) runs, and released by the frame
    afterwards on both ways out?  -> (drops on the normal path after the call returned, drops on its unwind path): drop
    terminators of places whose type owns `inner` by value (owns_deep) — whatever local / field of a carrier struct holds
    it — in blocks dominated by the call's return target resp. reachable from its unwind target, the place's root local
    having been assigned before the call (not on a path from it)."""
    t = fn.blocks[call.bb]['t']
    ret, unw = t.get('to'), t.get('unw')
    after = fn.reachable(call.bb)
    on_unwind = (fn.reachable(unw) | {unw}) if isinstance(unw, int) else set()
    normal, unwind = [], []
    for bi, b in enumerate(fn.blocks):
        d = b['t']
        if d['t'] != 'drop' or not owns_deep(prog, d.get('pty'), inner):
            continue
        root = d['p'][0]
        defs = fn.whole_defs(root)
        if root > fn.argc and (not defs or any(x[1] in after and x[1] != call.bb for x in defs)):
            continue
        if not b['cleanup'] and isinstance(ret, int) and (bi == ret or fn.dominates(ret, bi)):
            normal.append(d['p'])
        elif b['cleanup'] and bi in on_unwind:
            unwind.append(d['p'])
    return normal, unwind


def held(v):
    """the value held by `Some(x)` / `Box::new(x)` wrappers around it"""
    v = strip(v)
    while True:
        if v[0] == 'agg' and v[1] == 'std::option::Option' and v[2] == 'Some':
            v = strip(dict(v[3]).get('0', ('unknown',)))
        elif v[0] == 'call' and v[1] in ('std::boxed::Box::<T>::new', 'std::boxed::Box::new') and len(v[2]) == 1:
            v = strip(v[2][0])
        else:
            return v


# ---- deepening round: divergence inside a drop, constructor → argv provenance, setters, temp-dir provenance ----------

def _diverging_blocks(fn):
    """blocks of fn (not on the unwind path) that end in a call which never returns (panic machinery, process exit)"""
    return [bi for bi, b in enumerate(fn.blocks) if not b['cleanup'] and b['t']['t'] == 'call' and b['t'].get('to') is None]


def may_diverge(prog, fn, _seen=None):
    """can entering workspace function fn end in a panic / exit raised by workspace code (fn itself, the workspace
    functions and closures it may enter)?  Panics raised inside std are outside this question."""
    for g in prog.reach([fn]).values():
        if _diverging_blocks(g):
            return True
    return False


def divergence_points(prog, fn):
    """blocks of fn at which control can leave fn by a panic / exit caused by workspace code: a never-returning call in
    fn's own body, a call of a workspace function that may diverge, or a call that is handed a closure / fn item that may
    diverge (`.unwrap_or_else(|e| panic!(..))`)"""
    out = set(_diverging_blocks(fn))
    for c in fn.calls:
        if fn.blocks[c.bb]['cleanup']:
            continue
        tgts = list(prog.callee_fns(c)) + list(prog.fn_item_args(c))
        if any(may_diverge(prog, g) for g in tgts):
            out.add(c.bb)
    return out


def result_fate_levels(prog, e):
    """fate kinds of the Result produced by the vocabulary call behind effect e, followed upwards through the frames
    that merely hand it back to their caller; -> (set of kinds, [(frame fn, consumer Call | None)] for 'panics' fates)"""
    from .lib.discard import result_fates
    call, links = e.call, list(e.chain)
    kinds, panics = set(), []
    for _ in range(8):
        fates = result_fates(prog, call.fn, call)
        ks = {f.kind for f in fates}
        for f in fates:
            if f.kind == 'panics':
                panics.append((call.fn, f.via))
        up = ks & {'returned', 'propagated'}
        kinds |= ks - up
        if not up or not links:
            if up and not links:
                kinds |= up
            break
        call = links.pop().call
    return kinds, panics


def ctor_field_params(sl, nf):
    """{field name: set of parameter indices of constructor nf its initial value derives from}, None when nf does not
    return a struct literal (private helpers inlined)"""
    nv = strip(sl.inline_deep(strip(sl.local(nf, 0))))
    if nv[0] != 'agg':
        return None
    return {name: {x[2] for x in walk(fv) if x[0] == 'param' and x[1] == nf.path} for name, fv in nv[3]}


def setter_assignments(sl, fn):
    """{field: value} written through the `&mut self` receiver of setter fn (`self.field = v`), values in fn's terms;
    None when fn writes through its receiver in a way that is not a plain field assignment"""
    out = {}
    for d in fn.partial_defs(1):
        kind, bi, si, rv, pl = d
        if kind != 'stmt' or len(pl) != 3 or pl[1] != '*' or not str(pl[2]).startswith('.'):
            return None
        out[pl[2][1:]] = strip(sl._rvalue(fn, rv, set(), 0, None))
    return out


def sets_param(sl, fn, field):
    """index of the parameter of setter fn that is stored in `field` (and fn stores nothing else), else None"""
    a = setter_assignments(sl, fn)
    if a is None or set(a) != {field}:
        return None
    v = a[field]
    return v[2] if v[0] == 'param' and v[1] == fn.path else None


TEMPDIR_MAKERS = ('tempfile::tempdir', 'tempfile::TempDir::new', 'tempfile::Builder::tempdir', 'tempfile::Builder::<\'_, \'_>::tempdir')
TEMPDIR_VIEWS = ('tempfile::TempDir::path', 'std::convert::AsRef::as_ref', 'std::ops::Deref::deref', 'std::borrow::Borrow::borrow')


def tempdir_path(sl, v):
    """is v the path of a directory made by tempdir() whose TempDir is still owned (a view of it: `.path()`, `.as_ref()`,
    not `keep` / `into_path`, not a fresh path computed elsewhere)?  Path copies (`to_path_buf`, `to_owned`, `into`)
    of such a view name the same directory."""
    v = strip(sl.inline_deep(strip(v)))
    for _ in range(6):
        if v[0] == 'call' and v[2] and v[1].split('::')[-1] in ('to_path_buf', 'to_owned', 'into', 'clone', 'from', 'as_path'):
            v = strip(v[2][0])
        elif v[0] == 'call' and v[1] in ('std::path::Path::join', 'std::path::PathBuf::join') and len(v[2]) == 2 and \
                strip(v[2][1])[0] == 'const' and isinstance(strip(v[2][1])[1], str) and not strip(v[2][1])[1].startswith(('/', '..')):
            v = strip(v[2][0])       # a literal relative sub-directory of the TempDir is removed with it
        else:
            break
    if not (v[0] == 'call' and v[1] in TEMPDIR_VIEWS and len(v[2]) == 1):
        return False
    inner = strip(v[2][0])
    return inner[0] == 'call' and (inner[1] in TEMPDIR_MAKERS or (inner[1].startswith('tempfile::') and inner[1].split('::')[-1] in ('tempdir', 'tempdir_in')))


def params_in(v, fn_path):
    return {x[2] for x in walk(v) if x[0] == 'param' and x[1] == fn_path}


def _deref_ty(ty):
    ty = ty.strip()
    for pre in ('&mut ', '&', '*mut ', '*const '):
        if ty.startswith(pre):
            rest = ty[len(pre):].strip()
            if rest.startswith("'") and ' ' in rest:     # &'a T
                rest = rest.split(' ', 1)[1]
                if rest.startswith('mut '):
                    rest = rest[4:]
            return rest.strip()
    for wr in ('std::boxed::Box<',):
        if ty.startswith(wr) and ty.endswith('>'):
            return ty[len(wr):-1].strip()
    return None


def place_types(prog, fn, pl):
    """types of every prefix of place pl (index i -> type of pl[:i+1]); None entries where the type is not known"""
    tys = [fn.locals[pl[0]]['ty']]
    variant = None
    for pr in pl[1:]:
        cur = tys[-1]
        nxt = None
        if cur is not None:
            if pr == '*':
                nxt = _deref_ty(cur)
            elif isinstance(pr, str) and pr.startswith('@'):
                variant = pr[1:]
                nxt = cur
            elif isinstance(pr, str) and pr.startswith('.'):
                adt = prog.adts.get(cur.split('<')[0].strip())
                if adt is not None:
                    vs = adt.get('variants', ())
                    v = next((x for x in vs if x['name'] == variant), None) if variant else (vs[0] if len(vs) == 1 else None)
                    if v is not None:
                        nxt = next((fl['ty'] for fl in v['fields'] if fl['name'] == pr[1:]), None)
                variant = None
        tys.append(nxt)
    return tys


def guard_mutations(prog, fn, guard_types):
    """places inside (or holding) a value of a guard type that fn overwrites or borrows mutably after the value was
    made: [(bb, what, place)].  The first assignment of a whole local is construction, not mutation."""
    is_guard = lambda t: t is not None and t.split('<')[0].strip() in guard_types
    out = []

    def inside(pl, whole_ok):
        tys = place_types(prog, fn, pl)
        # a place strictly inside a guard, or (for borrows / overwritten fields of an owner) the guard itself
        for i, t in enumerate(tys):
            if is_guard(t) and (i < len(tys) - 1 or (whole_ok and len(pl) > 1)):
                return True
        return False

    for bi, b in enumerate(fn.blocks):
        for s in b['s']:
            if s[0] != '=':
                continue
            if len(s[1]) > 1 and inside(s[1], True):
                out.append((bi, 'write', s[1]))
            rv = s[2]
            if (rv['r'] == 'ref' and rv.get('mut')) or rv['r'] == 'rawptr':
                p = rv['p']
                tys = place_types(prog, fn, p)
                if any(is_guard(t) for t in tys) and not (len(p) == 2 and p[1] == '*' and fn.locals[p[0]]['ty'].startswith('&mut ')):
                    out.append((bi, 'mutable borrow', p))
        t = b['t']
        if t['t'] == 'call' and len(t.get('dest') or ()) > 1 and inside(t['dest'], True):
            out.append((bi, 'write', t['dest']))
    return out


# ---- argv of a `From<X> for Command` conversion, read off interprocedural effects -------------------------------------
# The argv is the ordered list of words handed to Command::arg / Command::args wherever that happens: in the conversion
# itself, in a private helper / extension-trait method it calls (arguments substituted), in the `From<&X>` conversion a
# by-value conversion delegates to, in a closure handed to for_each.  An iterable handed to `args` is decomposed with the
# iterator algebra (arrays, chain, map, `flag.then_some(word)`).  Each word carries the conditions on fields of the
# converted struct under which it is emitted (guards at every level of the call chain, substituted).

CMD = 'std::process::Command::'
BOOL_THEN = ('then', 'then_some')
UNKNOWN = '?'


def _field_of_struct(v, fn):
    for x in walk(v):
        if x[0] == 'field' and x[1][0] == 'param' and x[1][1] == fn.path and x[1][2] == 0:
            return x[2]
    return None


def _exact_field(v, fn):
    v = strip(v)
    if v[0] == 'field' and strip(v[1])[0] == 'param' and strip(v[1])[1] == fn.path and strip(v[1])[2] == 0:
        return v[2]
    return None


def _is_bool_then(name):
    return isinstance(name, str) and 'bool' in name and name.split('::')[-1] in BOOL_THEN


def _program_order(effs, E=None):
    """effects in execution order: at the first level of the call chains where two effects differ — another row of the same
    unrolled table / decomposed pipeline: the earlier row first (the whole body runs for a row before the next row);
    another call site: the block that can reach the other (and not vice versa) comes first, reverse post-order otherwise;
    stable"""
    import functools
    cache = {}
    rows = {}

    def info(fn):
        if fn.path not in cache:
            rpo = fn._rpo()
            cache[fn.path] = ({b: i for i, b in enumerate(rpo)}, {})
        return cache[fn.path]

    def levels(e):
        if id(e) not in rows:
            lv = _levels(e)
            rr = []
            for li in range(len(lv)):
                R = _level_row(E, lv, li) if E is not None else None
                rr.append((lv[li][0], R.site if R is not None else None, R.index if R is not None else None))
            rows[id(e)] = rr
        return rows[id(e)]

    def cmp(x, y):
        for (a, sa, ra), (b, sb, rb) in zip(levels(x), levels(y)):
            if sa is not None and sa == sb and ra != rb:
                if ra is None or rb is None:
                    return 0
                return -1 if ra < rb else 1
            if a is b:
                continue
            if a.fn is not b.fn or a.bb == b.bb:
                return 0
            pos, reach = info(a.fn)
            for q in (a.bb, b.bb):
                if q not in reach:
                    reach[q] = a.fn.reachable(q)
            ab, ba = b.bb in reach[a.bb], a.bb in reach[b.bb]
            if ab != ba:
                return -1 if ab else 1
            return -1 if pos.get(a.bb, 10 ** 6) < pos.get(b.bb, 10 ** 6) else 1
        return 0
    return sorted(effs, key=functools.cmp_to_key(cmp))


VEC_INIT_EMPTY = ('std::vec::Vec::<T>::new', 'std::vec::Vec::<T>::with_capacity')
VEC_INIT_ARRAY = ('std::boxed::box_assume_init_into_vec_unsafe', 'std::slice::<impl [T]>::into_vec')


def _sink_kind(c):
    """argv sinks: Command::new / arg / args, and the fillers of a word vector that is later handed to `args` whole"""
    if c.indirect:
        return None
    for n in (c.res, c.decl):
        if not n:
            continue
        if n in (CMD + 'new', CMD + 'arg', CMD + 'args'):
            return 'CMD_' + n[len(CMD):].upper()
        if n in ('std::vec::Vec::<T, A>::push', 'std::vec::Vec::<T>::push'):
            return 'VEC_PUSH'
        if n in ('std::vec::Vec::<T, A>::extend_from_slice', 'std::vec::Vec::<T, A>::append'):
            return 'VEC_EXTEND'
    if c.decl == 'std::iter::Extend::extend' and (c.res or '').startswith('<std::vec::Vec<'):
        return 'VEC_EXTEND'
    return None


FN_CALL = ('std::ops::Fn::call', 'std::ops::FnMut::call_mut', 'std::ops::FnOnce::call_once')


def _sink_effects(prog, sl):
    from .lib.effects import Effects, Eff

    class SinkEffects(Effects):
        """Effects whose vocabulary is the argv sinks; `Extend::extend` is an iterator consumer for the library, so the
        sinks are intercepted before the generic expansion (same local workaround as rules/C17_helpers.py)"""

        def _expand_call1(self, fn, c, forall, mode, mapping, chain, stack, out):
            k = _sink_kind(c)
            if k is None and not c.indirect and c.decl in FN_CALL and len(c.args) == 2:
                # a local closure called directly (`let mut emit = |flag, word| ..; emit(x.detach, "--detach")`) is a private
                # helper: its body runs with the parameters bound to the arguments
                clv = strip(self.slicer.operand(fn, c.args[0]))
                tup = strip(self.slicer.operand(fn, c.args[1]))
                g, off = self._closure_fn(clv)
                if g is not None and off == 1 and tup[0] == 'tuple':
                    self._expand_closure(fn, c, clv, list(tup[1]), forall, mode, mapping, chain, stack, out)
                    return
            if k is None:
                return Effects._expand_call1(self, fn, c, forall, mode, mapping, chain, stack, out)
            args = tuple(self.subst(self.slicer.operand(fn, a), mapping) for a in c.args)
            ef = Eff(k, None, c, chain, mode == 'must', self.subst(forall, mapping) if forall is not None else None, args)
            ef.mapping = mapping
            out.append(ef)
    return SinkEffects(prog, sl)


def _through_moves(fn, pl, refs=True):
    """local behind a place, following whole-local moves / copies / borrows"""
    from .lib.mir import op_place
    seen = set()
    while pl is not None and len([p for p in pl[1:] if p != '*']) == 0 and pl[0] not in seen:
        seen.add(pl[0])
        defs = fn.whole_defs(pl[0])
        if len(defs) == 1 and defs[0][0] == 'stmt':
            rv = defs[0][3]
            if rv['r'] == 'use' and op_place(rv['o']) is not None:
                pl = op_place(rv['o'])
                continue
            if refs and rv['r'] == 'ref':
                pl = rv['p']
                continue
        return pl[0]
    return None


def _vec_local(fn, operand):
    """local of type Vec behind an operand (`&mut v`, `move v`, `&v`), or None"""
    from .lib.mir import op_place
    pl = op_place(operand)
    if pl is None:
        return None
    m = _through_moves(fn, pl)
    if m is None or m <= fn.argc:
        return None
    return m if fn.local_ty(m).startswith('std::vec::Vec<') else None


def _vec_home(prog, e, argi):
    """The frame in which the vector behind argument `argi` of the sink call of effect e lives: the sink's own function,
    or — when the vector reaches it as a parameter that is only moved / borrowed on (`command_with_args("docker", args)`,
    `push_flag(&mut args, ..)`) — the caller's frame at that level of the effect's call chain, and so on upwards.
    -> (fn, vector local | None, mapping of that level, passed): passed = [(fn, parameter local)] of the frames the vector
    travels through on its way to the sink (they must not modify it: _vec_other_writers)"""
    from .lib.mir import op_place
    levels = _levels(e)
    li = len(levels) - 1
    call, mp = levels[li]
    passed = []
    if argi >= len(call.args):
        return call.fn, None, mp, passed
    op = call.args[argi]
    while True:
        g = call.fn
        pl = op_place(op)
        m = _through_moves(g, pl) if pl is not None else None
        if m is None:
            return g, None, mp, passed
        if 1 <= m <= g.argc and li > 0 and g.kind != 'Closure':
            up, ump = levels[li - 1]
            if not up.indirect and len(up.args) == g.argc and any(x is g for x in prog.callee_fns(up)):
                passed.append((g, m, call))
                li, call, mp, op = li - 1, up, ump, up.args[m - 1]
                continue
        if m <= g.argc:
            return g, None, mp, passed
        return g, (m if g.local_ty(m).startswith('std::vec::Vec<') else None), mp, passed


def _passed_writers(passed):
    """what the frames a vector is handed through do to it besides handing it on: mutable borrows of the parameter (or of
    a local it is moved to) that do not end in the sink call itself"""
    from .lib.mir import op_place
    bad = []
    for g, m, sink in passed:
        aliases = {m}
        changed = True
        while changed:
            changed = False
            for b in g.blocks:
                for st in b['s']:
                    if st[0] == '=' and len(st[1]) == 1 and st[1][0] not in aliases and st[2]['r'] == 'use' and \
                            op_place(st[2]['o']) is not None and op_place(st[2]['o'])[0] in aliases and len(op_place(st[2]['o'])) == 1:
                        aliases.add(st[1][0])
                        changed = True
        for a in sorted(aliases):
            if g.local_ty(a).startswith('&mut '):
                # a `&mut Vec` parameter: every use other than the sink call may change the vector
                for c in g.calls:
                    if c is not sink and any((op_place(x) or [None])[0] in aliases for x in c.args):
                        bad.append('%s in %s' % (c.name or 'indirect call', g.path.split('::')[-1]))
                for b in g.blocks:
                    for st in b['s']:
                        if st[0] == '=' and st[2]['r'] == 'ref' and st[2].get('mut') and st[2]['p'][0] == a and \
                                not any(c is sink and (op_place(x) or [None])[0] == st[1][0] for c in g.calls for x in c.args):
                            bad.append('a reborrow in %s' % g.path.split('::')[-1])
            else:
                bad.extend('%s in %s' % (wr, g.path.split('::')[-1]) for wr in _vec_other_writers(g, a))
    return bad


def _derives(fn, local, box, depth=6):
    """local is a pointer computed from the box local (the destination of the array literal of `vec![..]`)"""
    from .lib.mir import op_place
    while depth > 0:
        depth -= 1
        if local == box:
            return True
        defs = fn.whole_defs(local)
        if len(defs) != 1 or defs[0][0] != 'stmt':
            return False
        rv = defs[0][3]
        if rv['r'] in ('use', 'cast') and op_place(rv['o']) is not None:
            local = op_place(rv['o'])[0]
        elif rv['r'] in ('ref', 'rawptr', 'cfd'):
            local = rv['p'][0]
        else:
            return False
    return False


def _vec_initial(sl, fn, m):
    """values the vector local m starts with ([] for Vec::new(), the literal's elements for vec![..]), or None"""
    from .lib.mir import op_place
    defs = fn.whole_defs(m)
    if len(defs) != 1:
        return None
    d = defs[0]
    if d[0] == 'call':
        c = d[3]
        if c.indirect:
            return None
        if c.is_(*VEC_INIT_EMPTY):
            return []
        if c.is_(*VEC_INIT_ARRAY) and c.args:
            v = strip(sl.operand(fn, c.args[0]))
            if v[0] == 'array':
                return list(v[1])
            box = _through_moves(fn, op_place(c.args[0]), refs=False)
            arrays = []
            for b in fn.blocks:
                for st in b['s']:
                    if st[0] == '=' and len(st[1]) > 1 and st[2]['r'] == 'agg' and st[2].get('kind') == 'array' and _derives(fn, st[1][0], box):
                        arrays.append(st[2])
            if len(arrays) == 1:
                return [sl.operand(fn, o) for o in arrays[0]['ops']]
            return None
    v = strip(sl.local(fn, m))
    if v[0] == 'array':
        return list(v[1])
    return None


def _vec_other_writers(fn, m):
    """calls that take `&mut m` and are not push / extend: they may reorder or drop elements"""
    from .lib.mir import op_place
    bad = []
    tmps = set()
    for b in fn.blocks:
        for st in b['s']:
            if st[0] == '=' and st[2]['r'] == 'ref' and st[2].get('mut') and st[2]['p'][0] == m:
                if len(st[1]) == 1 and [p for p in st[2]['p'][1:] if p != '*'] == []:
                    tmps.add(st[1][0])
                else:
                    bad.append('a mutable borrow of part of the vector')
    for c in fn.calls:
        for ai, a in enumerate(c.args):
            pl = op_place(a)
            if pl and pl[0] in tmps:
                if not (ai == 0 and _sink_kind(c) in ('VEC_PUSH', 'VEC_EXTEND')):
                    bad.append(c.name or 'indirect call')
    return bad


def _unrolled_loop(E, call, m):
    """the loop around `call` that the expansion unrolled at this level (its element is bound to one row of a literal
    table / chain by m['__repl__']), else None"""
    from .lib import iters
    keys = [k for k, _ in (m or {}).get('__repl__', ())]
    if not keys:
        return None
    best = None
    for L in E.loops(call.fn):
        if call.bb in L.body and call.bb != L.header and L.collection is not None:
            if best is None or len(L.body) < len(best.body):
                best = L
    if best is None or iters.loop_key(best.collection) not in keys:
        return None
    return best


# ---- per-element tests of an iterator pipeline ------------------------------------------------------------------------
# lib.iters.alts says *that* an alternative is filtered; for an argv the question is *under which condition on the
# struct's fields* a row of a table is emitted: `[(flag, "--x")..].into_iter().filter(|(on, _)| *on)`,
# `.filter_map(|(o, v)| v.map(|v| (o, v)))`, `.filter_map(|(on, w)| on.then_some(w))` state the same thing as
# `if flag { .. }` / `if let Some(v) = v { .. }` inside a loop over the table.

def _alts_conds(sl, v, depth=0):
    from .lib import iters
    from .lib.value import canon
    IT = iters.IT
    rec = lambda x: _alts_conds(sl, x, depth + 1)
    plain = lambda: [(e, f, fl, None if fl else []) for e, f, fl in iters.alts(sl, v, depth)]
    if depth > 8 or not isinstance(v, tuple) or not v:
        return plain()
    k = v[0]
    if k in ('unwrap', 'updated'):
        inner = iters.alts(sl, v[1], depth + 1)
        if not (len(inner) == 1 and inner[0][1] is not None and canon(inner[0][1]) == canon(v[1])):
            return rec(v[1])
        return plain()
    if k == 'phi':
        out = []
        for x in v[1]:
            out.extend(rec(x))
        return out
    if k == 'call' and v[2]:
        name, args = v[1], v[2]
        if name == IT + 'chain' and len(args) == 2:
            return rec(args[0]) + rec(args[1])
        if name in iters.SAME or name in iters.COLLECTING:
            return rec(args[0])
        if name == IT + 'filter' and len(args) == 2:
            out = []
            for e, f, fl, cs in rec(args[0]):
                r = sl.apply_closure(args[1], (e,)) if f is None else None
                out.append((e, f, iters._fl(fl, True), cs + [('true', r)] if (cs is not None and r is not None) else None))
            return out
        if name == IT + 'map' and len(args) == 2:
            out = []
            for e, f, fl, cs in rec(args[0]):
                r = sl.apply_closure(args[1], (e,))
                out.append((r if r is not None else ('call', 'closure-result', (args[1], e), None), f, fl, cs))
            return out
        if name == IT + 'filter_map' and len(args) == 2:
            out = []
            for e, f, fl, cs in rec(args[0]):
                r = sl.apply_closure(args[1], (e,))
                ok = cs is not None and r is not None and f is None
                out.append((('unwrap', r) if r is not None else ('unknown', 'filter_map'), f, iters._fl(fl, True), cs + [('some', r)] if ok else None))
            return out
        if name == IT + 'flat_map' and len(args) == 2:
            out = []
            for e, f, fl, cs in rec(args[0]):
                r = sl.apply_closure(args[1], (e,))
                if r is None:
                    return plain()
                for e2, f2, fl2, cs2 in rec(r):
                    both = f is not None and f2 is not None
                    out.append((e2, f if f is not None else f2, iters._fl(fl, fl2, both), cs + cs2 if (cs is not None and cs2 is not None and not both) else None))
            return out
        if name == IT + 'flatten' and len(args) == 1:
            out = []
            for e, f, fl, cs in rec(args[0]):
                for e2, f2, fl2, cs2 in rec(e):
                    out.append((e2, f if f is not None else f2, iters._fl(fl, fl2), cs + cs2 if (cs is not None and cs2 is not None) else None))
            return out
        if iters._is_source(name) and len(args) == 1 and name.endswith(iters.SAME_ELEMS):
            return rec(args[0])
    return plain()


def alts_conds(sl, v):
    """lib.iters.alts(sl, v) with a 4th component per alternative: the per-element tests of the `filter` / `filter_map`
    stages the element has passed, [('true', bool value) | ('some', option value)] — [] for an unfiltered alternative, None
    when the alternative is filtered in a way that is not a test of this one element (positional adapters, a test on the
    elements of a collection, zip).  Same alternatives in the same order as lib.iters.alts (checked)."""
    from .lib import iters
    from .lib.value import canon
    base = iters.alts(sl, v)
    try:
        mine = _alts_conds(sl, v)
    except Exception:
        mine = None
    same = mine is not None and len(mine) == len(base) and all(
        canon(a[0]) == canon(b[0]) and bool(a[2]) == bool(b[2]) and (a[1] is None) == (b[1] is None) for a, b in zip(mine, base))
    if not same:
        return [(e, f, fl, None if fl else []) for e, f, fl in base]
    return [(e, f, fl, cs if (cs is not None and (fl or not cs)) else (None if fl else [])) for e, f, fl, cs in mine]


_OPT_VIEWS = ('as_deref', 'as_ref', 'as_mut', 'as_deref_mut', 'cloned', 'copied', 'clone', 'take', 'inspect')
_OPT = ('std::option::Option::', 'std::option::Option::<')


def _is_opt_call(v, *short):
    return v[0] == 'call' and isinstance(v[1], str) and v[1].startswith('std::option::Option') and v[1].split('::')[-1] in short


def _test_conds(sl, kind, v, fn, depth=0):
    """a per-element test as conditions on fields of the struct converted by fn: [(field, outcome) | (UNKNOWN, text)]"""
    from .lib.value import vstr
    v = strip(v)
    unknown = [(UNKNOWN, ('%s %s' % (kind, vstr(v)))[:60])]
    if depth > 6:
        return unknown
    if kind == 'true' or kind == 'false':
        want = kind == 'true'
        while v[0] == 'un' and v[1] == 'Not' and len(v) > 2:
            v, want = strip(v[2]), not want
        if v[0] == 'const' and isinstance(v[1], bool):
            return [] if v[1] == want else [(UNKNOWN, 'never')]
        fld = _exact_field(v, fn)
        if fld is not None:
            return [(fld, want)]
        if want and _is_opt_call(v, 'is_some') and len(v[2]) == 1:
            return _test_conds(sl, 'some', v[2][0], fn, depth + 1)
        if not want and _is_opt_call(v, 'is_none') and len(v[2]) == 1:
            return _test_conds(sl, 'some', v[2][0], fn, depth + 1)
        return unknown
    # kind == 'some'
    while _is_opt_call(v, *_OPT_VIEWS) and len(v[2]) == 1:
        v = strip(v[2][0])
    fld = _exact_field(v, fn)
    if fld is not None:
        return [(fld, ['Some'])]
    if v[0] == 'agg' and v[1] == 'std::option::Option':
        return [] if v[2] == 'Some' else [(UNKNOWN, 'never')]
    if _is_opt_call(v, 'map', 'inspect') and len(v[2]) == 2:
        return _test_conds(sl, 'some', v[2][0], fn, depth + 1)
    if _is_opt_call(v, 'and_then') and len(v[2]) == 2:
        r = sl.apply_closure(v[2][1], (sl.mk_unwrap(v[2][0], 1),))
        if r is not None:
            return _test_conds(sl, 'some', v[2][0], fn, depth + 1) + _test_conds(sl, 'some', r, fn, depth + 1)
        return unknown
    if _is_opt_call(v, 'filter') and len(v[2]) == 2:
        r = sl.apply_closure(v[2][1], (sl.mk_unwrap(v[2][0], 1),))
        if r is not None:
            return _test_conds(sl, 'some', v[2][0], fn, depth + 1) + _test_conds(sl, 'true', r, fn, depth + 1)
        return unknown
    if v[0] == 'call' and _is_bool_then(v[1]) and len(v[2]) == 2:
        return _test_conds(sl, 'true', v[2][0], fn, depth + 1)
    return unknown


def _simplify(sl, v, depth=0):
    """payloads in normal form: `unwrap(opt.map(f))` is f(unwrap(opt)), `unwrap(flag.then_some(w))` is w, projections of
    the tuples / aggregates that appear are re-normalised — the word a row of a filtered table contributes"""
    if not isinstance(v, tuple) or not v or depth > 12 or not isinstance(v[0], str):
        return v
    if v[0] in ('const', 'param', 'fnitem', 'constitem', 'unknown', 'closure_env', 'closure', 'upvar'):
        return v
    nv = tuple(_simplify(sl, x, depth + 1) if isinstance(x, tuple) else x for x in v)
    if nv[0] == 'unwrap' and len(nv) == 2 and isinstance(nv[1], tuple) and nv[1]:
        x = nv[1]
        while _is_opt_call(x, 'as_deref', 'as_ref', 'cloned', 'copied') and len(x[2]) == 1 and x[2][0][0] == 'call':
            x = x[2][0]
        if x[0] == 'call' and _is_bool_then(x[1]) and len(x[2]) == 2:
            w = x[2][1] if x[1].endswith('then_some') else sl.apply_closure(x[2][1], ())
            if w is not None:
                return _simplify(sl, w, depth + 1)
        if x[0] == 'call' and len(x[2]) == 2 and x[2][1][0] in ('closure', 'fnitem') and (x[1] in sl.MAP_LIKE or x[1] in sl.AND_THEN):
            r = sl.mk_unwrap(x, 1)
            if r != ('unwrap', x):
                return _simplify(sl, r, depth + 1)
        if x[0] == 'agg' and x[1] == 'std::option::Option' and x[2] == 'Some' and len(x[3]) == 1:
            return x[3][0][1]
    if nv[0] == 'field' and len(nv) == 3 and isinstance(nv[1], tuple) and nv[1] and nv[1][0] in ('agg', 'tuple'):
        return sl._field(nv[1], nv[2])
    return nv


def _levels(e):
    from .lib.effects import Link
    return [(l.call, l.mapping or {}) for l in e.chain if isinstance(l, Link)] + [(e.call, e.mapping or {})]


class _Row:
    """the element of a decomposed iteration (row of a literal table, alternative of a chain / pipeline) that one level of
    an effect's call chain is bound to: .alts (alts_conds of the iterated value), .index (position of the row among them,
    None when it cannot be told), .loop (the unrolled `for` loop, None for a closure run by an adapter / consumer),
    .site (identity of the iteration)"""
    __slots__ = ('alts', 'index', 'loop', 'site', 'm')

    def __init__(self, alts, index, loop, site, m):
        self.alts, self.index, self.loop, self.site, self.m = alts, index, loop, site, m


def _cached_alts(E, key, v):
    cache = E.__dict__.setdefault('_c16_alts', {})
    if key not in cache:
        cache[key] = alts_conds(E.slicer, v)
    return cache[key]


def _row_index(E, mine, bound, m):
    from .lib.value import canon
    for b in bound:
        if b is None:
            continue
        cb = canon(b)
        hit = [i for i, a in enumerate(mine) if canon(E.subst(a[0], m)) == cb]
        if hit:
            # identical rows contribute identical words under identical tests only if their tests agree
            tests = [None if mine[i][3] is None else [(k, canon(E.subst(v, m))) for k, v in mine[i][3]] for i in hit]
            if any(t != tests[0] for t in tests[1:]):
                return None
            return hit[0]
    return None


def _level_row(E, levels, li):
    """_Row for level li of a call chain, None when that level is not an iteration over a decomposed value"""
    from .lib import iters
    sl = E.slicer
    call, m = levels[li]
    L = _unrolled_loop(E, call, m)
    if L is not None:
        nkey = iters.loop_key(L.collection)
        mine = _cached_alts(E, ('loop', call.fn.path, L.header), L.collection)
        bound = [val for k, val in m.get('__repl__', ()) if k == nkey][-1:]
        return _Row(mine, _row_index(E, mine, bound, m), L, ('loop', call.fn.path, L.header), m)
    if li + 1 < len(levels) and not call.indirect and (call.decl or '').startswith('std::iter::') and call.args:
        g = levels[li + 1][0].fn
        d = call.decl
        if g.kind == 'Closure' and (d in iters.LAZY_WITH_CLOSURE or d in iters.CONSUME_EACH or d in iters.CONSUME_ALL):
            ridx = 1 if d == 'std::iter::Extend::extend' else 0
            if ridx < len(call.args):
                recv = sl.operand(call.fn, call.args[ridx])
                mine = _cached_alts(E, ('iter', call.fn.path, call.bb, ridx), recv)
                if iters.trivial([a[:3] for a in mine], recv):
                    return None
                nm = levels[li + 1][1]
                # the closure-level binding is already substituted with m
                bound = [nm.get((g.path, k)) for k in (1, 2)]
                return _Row(mine, _row_index(E, mine, bound, m), None, ('iter', call.fn.path, call.bb), m)
    return None


def _row_tests(E, row):
    """tests under which the row is visited whenever the iteration is: [('true'|'some', value in the entry function's
    terms) | (UNKNOWN, why)]"""
    if not any(fl for _, _, fl, _ in row.alts):
        return []
    if row.index is None or row.alts[row.index][3] is None:
        return [(UNKNOWN, 'filtered iteration')]
    return [(k, E.subst(v, row.m)) for k, v in row.alts[row.index][3]]


def _level_guards(E, e):
    """lib.effects.guards_of plus, as entries with a 4th component `row`, what the guards do not say:
      * the `next()` test of a `for` loop that was unrolled at a level of the chain (a loop over a literal table: the
        effect stands for one row, with the row substituted) is not a loop marker; it carries the tests under which this
        row is visited whenever the loop is entered — none when the loop is left by exhaustion only and the row is not
        filtered, the `filter` / `filter_map` tests of the row, or (UNKNOWN, why);
      * for a closure run by an iterator adapter / consumer (`.for_each(|row| ..)`) an entry (None, [], None, row) with the
        tests of the pipeline's filter stages for the element the closure is bound to.
    row = [('true'|'some', value in the entry function's terms) | (UNKNOWN, why)], None for ordinary conditions"""
    from .lib import iters
    from .lib.guards import conditions_ctx
    from .lib.value import canon
    sl = E.slicer
    out = []
    levels = _levels(e)
    for li, (call, m) in enumerate(levels):
        R = _level_row(E, levels, li)
        L = R.loop if R is not None else None
        nkey = iters.loop_key(L.collection) if L is not None else None
        for cd in conditions_ctx(E.prog, call.fn, call.bb, sl):
            views = [(E.subst(v, m), oc) for v, oc in cd.views()] if cd.kind == 'bool' else [(E.subst(cd.value, m), cd.outcome)]
            subj = E.subst(cd.subject, m) if cd.subject is not None else None
            row = None
            if L is not None and cd.kind == 'variant' and cd.subject is not None and 'Some' in cd.outcome and \
                    canon(('unwrap', strip(cd.subject))) == nkey:
                row = []
                f = call.fn
                exits = {b for b in L.exit_bb if f.blocks[b]['t']['t'] != 'unreachable'}
                if getattr(L, 'exhaust', None) is None or exits != {L.exhaust[1]}:
                    row.append((UNKNOWN, 'a loop over a table that can be left before its last row'))
                row.extend(_row_tests(E, R))
            out.append((cd, views, subj, row))
        if R is not None and L is None:
            row = _row_tests(E, R)
            if row:
                out.append((None, [], None, row))
    return out


def argv_model(prog, sl, fn):
    """-> (program, [Item]) with one lib.cmdmodel.Item per argv word (elems has one entry, classified as lib.cmdmodel
    does: ('const', s) | ('field', name, 'direct'|'fmt'|'elem'|'splat', template) | ('other', text)).
    Item.conds = [(field, outcome)] on fields of the converted struct; a condition that is not a test of such a field is
    kept as (UNKNOWN, text) — never dropped.  Item.loop = field iterated (one word per element), UNKNOWN for a loop over
    something else.  Words collected in a Vec with push / extend and handed to `Command::args` whole appear at the place
    of the hand-over; whatever cannot be read is an ('other', ..) word, so that absence of a word is only concluded from
    a model without such entries."""
    from .lib import iters
    from .lib.cmdmodel import Item, classify
    from .lib.value import vstr
    E = _sink_effects(prog, sl)
    kinds = ('CMD_NEW', 'CMD_ARG', 'CMD_ARGS', 'VEC_PUSH', 'VEC_EXTEND')
    raw = E.expand(fn, 'may')
    effs = _program_order([e for e in raw if e.kind in kinds and e.call is not None], E)
    program = None
    items = []
    vec_effs = {}
    vec_passed = {}
    main = []
    for e in effs:
        if e.kind == 'CMD_NEW':
            v = strip(e.args[0])
            program = v[1] if v[0] == 'const' else vstr(v)
        elif e.kind in ('VEC_PUSH', 'VEC_EXTEND'):
            hg, hm, _, hp = _vec_home(prog, e, 0)
            vec_passed.setdefault((hg.path, hm), []).extend(hp)
            vec_effs.setdefault((hg.path, hm), []).append(e)
        else:
            main.append(e)

    def cls(v):
        v = _simplify(sl, v)
        el = classify(fn, v)
        if el[0] == 'other':
            iv = sl.inline_deep(v)
            if iv != v:
                el = classify(fn, iv)
        if el[0] == 'other':
            # an owned copy of a literal (`String::from("--rm")`, `"--rm".to_string()`) is that literal
            x = strip(v)
            for _ in range(3):
                if x[0] == 'call' and len(x[2]) == 1 and (x[1] or '').split('::')[-1] in _VIEW_CALLS:
                    x = strip(x[2][0])
            if x[0] == 'const' and isinstance(x[1], str):
                el = ('const', x[1])
        return el

    def context(e):
        conds, loop = [], None
        for cd, views, subj, row in _level_guards(E, e):
            if row is not None:
                # the `next()` test of a loop over a literal table that was unrolled: this word is the one of the row bound
                # at this level (values substituted), not "one word per element" — provided the row is visited; and the
                # tests of filtering adapters for the element a closure was run for
                for r in row:
                    for c in ([r] if r[0] == UNKNOWN else _test_conds(sl, r[0], r[1], fn)):
                        if c not in conds:
                            conds.append(c)
                continue
            if cd.kind == 'bool':
                hit = next(((_exact_field(v, fn), oc) for v, oc in views if _exact_field(v, fn) is not None), None)
                conds.append(hit if hit is not None else (UNKNOWN, vstr(views[0][0])[:60]))
            elif cd.kind == 'variant' and subj is not None:
                s0 = strip(subj)
                if s0[0] == 'call' and s0[1] == iters.IT + 'next':
                    if 'Some' in cd.outcome:      # inside the loop; `None` = after it: not a condition
                        loop = _field_of_struct(s0, fn) or UNKNOWN
                    continue
                fld = _exact_field(subj, fn)
                conds.append((fld, sorted(cd.outcome)) if fld is not None and cd.enum == 'std::option::Option' else (UNKNOWN, vstr(subj)[:60]))
            else:
                conds.append((UNKNOWN, vstr(cd.value)[:60]))
        if e.forall is not None and loop is None:
            loop = _field_of_struct(e.forall, fn) or UNKNOWN
        for c in [l.call for l in e.chain] + [e.call]:
            if loop is None and c.fn.in_loop(c.bb) and E._unrollable(c.fn, c) is None:
                loop = UNKNOWN
        return conds, loop

    def add(e, el, conds, loop):
        cs = []
        for c in conds:
            if c not in cs and not (loop not in (None, UNKNOWN) and c == (loop, ['Some'])):
                cs.append(c)
        items.append(Item('arg' if e.kind in ('CMD_ARG', 'VEC_PUSH') else 'args', [el], cs, loop, e.call))

    def contribute(e, pay, iterable):
        conds, loop = context(e)
        pay = strip(pay)
        if not iterable:
            add(e, cls(pay), conds, loop)
            return
        if pay[0] == 'array':
            for x in pay[1]:
                add(e, cls(x), conds, loop)
            return
        al = alts_conds(sl, pay)
        for elem, fa, filtered, tests in al:
            extra, lp, el = [], loop, None
            if fa is not None:
                f0 = strip(fa)
                if f0[0] == 'call' and _is_bool_then(f0[1]) and len(f0[2]) == 2:
                    # `flag.then_some(word)` / `flag.then(|| word)` as an iterable: the word, iff the flag is set
                    w = f0[2][1] if f0[1].endswith('then_some') else sl.apply_closure(f0[2][1], ())
                    fld = _exact_field(f0[2][0], fn)
                    extra.append((fld, True) if fld is not None else (UNKNOWN, vstr(f0[2][0])[:60]))
                    el = cls(w) if (w is not None and canon_eq(elem, iters.elem_of(fa))) else ('other', vstr(elem)[:80])
                else:
                    fld = _field_of_struct(fa, fn)
                    if fld is None:
                        lp = UNKNOWN
                    elif len(al) == 1 and not filtered and canon_eq(elem, iters.elem_of(fa)) and loop is None:
                        el = cls(fa)      # the whole collection handed over as it is
                        el = ('field', el[1], 'splat', None) if el[0] == 'field' else el
                    else:
                        lp = fld if loop is None else UNKNOWN
            if filtered and tests is None:
                extra.append((UNKNOWN, 'filtered iteration'))
            elif filtered:
                # a row of a literal table behind `filter` / `filter_map`: emitted iff its own tests hold
                for k, tv in tests:
                    extra.extend(c for c in _test_conds(sl, k, tv, fn) if c not in extra)
            add(e, el if el is not None else cls(elem), conds + extra, lp)

    spliced = set()
    for e in main:
        if len(e.args) < 2:
            continue
        if e.kind == 'CMD_ARG':
            contribute(e, e.args[1], False)
            continue
        # the frame that owns the vector: the one issuing `args`, or a caller handing the vector to a private assembler
        g, m, hmp, passed = _vec_home(prog, e, 1)
        key = (g.path, m)
        init = _vec_initial(sl, g, m) if m is not None else None
        if m is not None and (key in vec_effs or init is not None):
            # a vector filled with push / extend and handed over whole: its contributions, at this position
            spliced.add(key)
            mp = hmp or {}
            if init is None:
                items.append(Item('args', [('other', 'initial contents of the vector %s' % (g.local_name(m) or m))], [], None, e.call))
            elif init:
                contribute(e, ('array', tuple(E.subst(x, mp) for x in init)), True)
            for wr in _vec_other_writers(g, m) + _passed_writers(passed + vec_passed.get(key, [])):
                items.append(Item('args', [('other', 'the vector %s is also modified by %s' % (g.local_name(m) or m, wr))], [], None, e.call))
            for pe in vec_effs.get(key, []):
                if len(pe.args) > 1:
                    contribute(pe, pe.args[1], pe.kind == 'VEC_EXTEND')
            conds, loop = context(e)
            if conds or loop:
                items.append(Item('args', [('other', 'the vector is handed to Command::args conditionally')], conds, loop, e.call))
            continue
        contribute(e, e.args[1], True)
    for e in raw:
        if e.kind == 'CALLBACK' and e.call is not None:
            # a function value the expansion could not enter may add words of its own
            items.append(Item('args', [('other', 'a call through a function value at %s' % e.call.where())], [], None, e.call))
    for key, es in vec_effs.items():
        if key not in spliced:
            ty = prog.fns[key[0]].local_ty(key[1]) if key[1] is not None else 'String'
            if any(t in ty for t in ('String', 'str', 'OsStr', 'Path')):
                items.append(Item('args', [('other', 'words pushed onto a vector that is not handed to Command::args as a whole')], [], None, es[0].call))
    return program, items


def canon_eq(a, b):
    from .lib.value import canon
    return canon(a) == canon(b)


def disturbed(model):
    """reasons why the words of the model may not reach the command as listed: the vector they were collected in is also
    modified by something that is not push / extend (retain, truncate, sort, a helper borrowing it mutably) — the listed
    words then say nothing about presence or order"""
    if model is None:
        return []
    return [it.elems[0][1] for it in model[1] if it.elems and it.elems[0][0] == 'other' and ' is also modified by ' in str(it.elems[0][1])]


def word_conditions(model, word):
    """conditions under which the literal argv word is emitted, one entry per occurrence in the argv model: [[(field,
    outcome)..]..]; None when an occurrence is emitted under a condition / in a loop that is not understood, or when the
    word does not occur but part of the argv is opaque (it may hide there)"""
    if model is None or disturbed(model):
        return None
    _, items = model
    occ = [it for it in items if it.elems == [('const', word)]]
    if any(it.loop is not None or any(c[0] == UNKNOWN for c in it.conds) for it in occ):
        return None
    if not occ and any(it.elems[0][0] == 'other' for it in items):
        return None
    return [it.conds for it in occ]


# ---- how many random characters a string built piecewise carries ------------------------------------------------------

def _range_len(v):
    v = strip(v)
    while v[0] == 'call' and v[2] and v[1].split('::')[-1] in ('into_iter', 'iter', 'by_ref'):
        v = strip(v[2][0])
    if v[0] == 'agg' and (v[1] or '') in ('std::ops::Range', 'std::ops::RangeInclusive'):
        fl = {k: strip(fv) for k, fv in v[3]}
        a, b = fl.get('start'), fl.get('end')
        if a and b and a[0] == 'const' and b[0] == 'const' and isinstance(a[1], int) and isinstance(b[1], int):
            return max(0, b[1] - a[1] + (1 if v[1].endswith('Inclusive') else 0))
    if v[0] == 'array':
        return len(v[1])
    return None


def pushed_draws(prog, sl, fn, rv, is_source):
    """Lower bound on the number of values from a random source (is_source(call name)) appended to the string value rv
    of fn when it is built with push / push_str (a ('concat', ..) value): a draw made in straight-line code counts once,
    a draw made in a `for` loop over a literal range / array counts once per iteration — provided the loop can only be
    left by exhaustion and the draw and its push happen on every iteration.  None when that cannot be established."""
    from .lib.effects import find_loops
    from .lib.value import concat_parts, canon
    rv = strip(rv)
    if rv[0] != 'concat':
        return None
    loops = find_loops(fn, sl)
    total = 0
    for part in concat_parts(rv):
        for x in walk(part):
            if not (x[0] == 'call' and is_source(x[1])):
                continue
            if len(x) < 4 or not x[3] or x[3][0] != fn.path:
                return None
            bb = x[3][1]
            around = [L for L in loops if bb in L.body]
            if not around:
                total += 1
                continue
            if len(around) != 1:
                return None
            L = around[0]
            n = _range_len(L.collection) if L.collection is not None else None
            exits = [b for b in L.exit_bb if fn.blocks[b]['t']['t'] != 'unreachable']
            if n is None or getattr(L, 'exhaust', None) is None or exits != [L.exhaust[1]]:
                return None
            every = lambda b: all(fn.dominates(b, l) or b == l for l in L.latches)
            pushes = [c for c in fn.calls if c.bb in L.body and not c.indirect and (c.name or '').startswith('std::string::String::push')
                      and len(c.args) > 1 and any(canon(y) == canon(x) for y in walk(sl.operand(fn, c.args[1])))]
            if not (every(bb) and any(every(c.bb) for c in pushes)):
                return None
            total += n
    return total


# ---- names as functions of the guard -----------------------------------------------------------------------------------
# "The guard removes what was created under its names" does not depend on how the guard stores the names: a name is a
# *term over the guard* — a field of it, or a pure string function of its fields (`format!("{}.build-cache", g.image)`,
# also behind a private accessor method, which is inlined).  Two places use the same name when their terms are equal;
# what a term denotes for a concrete guard is obtained by evaluating it on the literal that constructs the guard.

GUARD = ('param', '<guard>', 0, 'guard')
_VIEW_CALLS = ('clone', 'to_string', 'to_owned', 'into', 'as_str', 'as_ref', 'borrow', 'deref', 'from', 'as_deref', 'to_str', 'as_mut_str')


def guard_term(sl, v, is_root):
    """canonical term of value v over the guard (the value recognised by is_root), or None when v is not a pure function
    of fields of the guard (mentions no field of it, or anything else that varies: other parameters, calls)"""
    from .lib.value import canon
    ok = [True]
    seen = [False]

    def norm(x):
        if not isinstance(x, tuple) or not x:
            return x
        if not isinstance(x[0], str):
            return tuple(norm(y) for y in x)
        while x[0] in ('unwrap', 'updated'):
            x = x[1]
        if x[0] == 'call' and len(x[2]) == 1 and (x[1] or '').split('::')[-1] in _VIEW_CALLS:
            return norm(x[2][0])
        if is_root(x):
            return GUARD
        if x[0] == 'field':
            b = norm(x[1])
            if b == GUARD:
                seen[0] = True
            return ('field', b, x[2])
        if x[0] == 'const':
            return x
        if x[0] in ('fmt', 'concat'):
            return tuple(norm(y) if isinstance(y, tuple) else y for y in x)
        ok[0] = False
        return x

    t = norm(sl.inline_deep(v))
    if not ok[0] or not seen[0] or t == GUARD:
        return None
    # every mention of the guard is a field of it
    bare = [0]

    def count(x, parent_field):
        if x == GUARD:
            if not parent_field:
                bare[0] += 1
            return
        if isinstance(x, tuple):
            for i, y in enumerate(x):
                count(y, bool(x) and x[0] == 'field' and i == 1)
    count(t, False)
    return canon(t) if not bare[0] else None


def term_fields(t):
    return sorted({x[2] for x in walk(t) if x[0] == 'field' and x[1] == GUARD})


def eval_term(t, agg):
    """the term's value for the guard constructed by the struct literal `agg`; None when a field it reads is not there"""
    if not (isinstance(agg, tuple) and agg and agg[0] == 'agg'):
        return None
    fl = dict(agg[3])
    if any(n not in fl for n in term_fields(t)):
        return None

    def ev(x):
        if isinstance(x, tuple) and x:
            if x[0] == 'field' and x[1] == GUARD:
                return fl[x[2]]
            return tuple(ev(y) if isinstance(y, tuple) else y for y in x)
        return x
    return ev(t)


def term_label(t):
    from .lib.value import vstr
    if t is None:
        return '?'
    if t[0] == 'field' and t[1] == GUARD:
        return t[2]
    return vstr(t)[:80]
