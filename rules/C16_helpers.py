"""Helpers of C16: where values of a guard type come into existence (struct literals lifted out of private constructor
helpers) and what a `run_command` argument denotes (a removal command struct and the guard fields it names)."""
from .lib.paths import strip
from .lib.value import walk


def literal_sites(fn, ty):
    """[(bb, stmt)] struct literals of `ty` in fn"""
    return [(bi, s) for bi, b in enumerate(fn.blocks) for s in b['s']
            if s[0] == '=' and s[2]['r'] == 'agg' and s[2].get('adt') == ty]


def ctor_helpers(prog, sl, ty):
    """private functions that do nothing to a `ty` but build one and return it: non-pub, return type `ty`, exactly one
    place where the value is made (a literal or a call of another such helper) and that value is what they return.
    Such a function is transparent: the guard starts to exist at its call sites."""
    helpers = {}
    changed = True
    while changed:
        changed = False
        for f in prog.fns.values():
            if f.path in helpers or f.derived or f.vis == 'pub' or f.ret != ty or f.kind == 'Closure':
                continue
            made = len(literal_sites(f, ty)) + len([c for c in f.calls if not c.indirect and c.name in helpers])
            if made != 1:
                continue
            rv = sl.inline_deep(strip(sl.local(f, 0)))
            if rv[0] == 'agg' and rv[1] == ty:
                helpers[f.path] = f
                changed = True
    return helpers


class Made:
    """one place where a guard value starts to exist, in a function that is not a constructor helper"""

    def __init__(self, fn, bb, kind, stmt=None, call=None):
        self.fn, self.bb, self.kind, self.stmt, self.call = fn, bb, kind, stmt, call

    def value(self, sl, keep=()):
        if self.kind == 'stmt':
            v = sl._rvalue(self.fn, self.stmt[2], set(), 0, None)
        elif self.kind == 'call':
            v = sl._call_value(self.fn, self.call, set(), 0)
        else:
            return ('unknown',)
        return sl.inline_deep(strip(v), keep=keep)

    def dest(self):
        """local receiving the value"""
        if self.kind == 'stmt':
            return self.stmt[1][0]
        if self.kind == 'call' and self.call.dest:
            return self.call.dest[0]
        return None

    def __repr__(self):
        return '%s(bb%d,%s)' % (self.fn.path, self.bb, self.kind)


def sites_in(prog, f, ty, helpers):
    """places in f (a constructor helper or not) where a `ty` starts to exist in f's frame: literals, calls of
    constructor helpers, helpers handed over as fn items"""
    out = [Made(f, bi, 'stmt', stmt=s) for bi, s in literal_sites(f, ty)]
    for c in f.calls:
        if not c.indirect and c.name in helpers:
            out.append(Made(f, c.bb, 'call', call=c))
        elif helpers and any(g.path in helpers for g in prog.fn_item_args(c)):
            out.append(Made(f, c.bb, 'fnitem', call=c))
    return out


def construction_sites(prog, sl, ty):
    """every place in the workspace where a `ty` is made, constructor helpers being transparent; a helper handed around
    as a fn item counts as a site where it is handed over (its callers are unknown)"""
    helpers = ctor_helpers(prog, sl, ty)
    out = []
    for f in prog.fns.values():
        if f.derived or f.path in helpers:
            continue
        out.extend(sites_in(prog, f, ty, helpers))
    return out, helpers


def guard_frames(prog, ty, helpers, entry, runs_of, max_depth=6):
    """The frames in which a guard of type `ty` lives while commands are issued, starting at `entry` and descending into
    the constructor helper that makes the guard when that helper issues commands itself (acquire phase split off into a
    private function that hands the guard back by value).
    runs_of(fn) -> effects of fn (in fn's terms) that must not happen before the guard exists.
    Returns (ok, why, frames): frames = [(fn, Made, runs issued in fn's own frame while the guard is owned there)];
    ok is False when in some frame a command can be issued before / not dominated by the guard's creation."""
    frames = []
    fn = entry
    for _ in range(max_depth):
        here = [m for m in sites_in(prog, fn, ty, helpers) if m.kind in ('stmt', 'call')]
        if len(here) != 1:
            return False, '%d construction sites in %s' % (len(here), fn.path), frames
        m = here[0]
        runs = runs_of(fn)
        inner = [e for e in runs if m.kind == 'call' and top_call(e) is m.call]   # issued by the helper itself
        outer = [e for e in runs if not (m.kind == 'call' and top_call(e) is m.call)]
        # a statement precedes the terminator of its block; a call's result exists from the next block on
        late = [e for e in outer if not (fn.dominates(m.bb, top_call(e).bb) and (m.kind == 'stmt' or m.bb != top_call(e).bb))]
        if late:
            return False, 'command at %s is not preceded by the guard made in %s' % (top_call(late[0]).where(), fn.path), frames
        frames.append((fn, m, outer))
        if not inner:
            return True, '', frames
        fn = helpers[m.call.name]
    return False, 'constructor helpers nested too deep', frames


def param_fields(v, fn_path, idx):
    """names of the fields of parameter `idx` of fn_path mentioned in v, in order of appearance"""
    res = []
    for x in walk(v):
        if x[0] == 'field' and x[1][0] == 'param' and x[1][1] == fn_path and x[1][2] == idx:
            res.append(x[2])
    return res


def top_call(e):
    """the call site, in the entry function of the expansion, through which effect e is reached"""
    return e.chain[0].call if e.chain else e.call


OWNING_WRAPPERS = ('std::option::Option', 'std::boxed::Box')


def owns_by_value(ty, inner):
    """type `ty` is `inner` or an Option / Box (nested) of it: dropping a `ty` drops the `inner` it holds.
    References, Rc/Arc (shared), ManuallyDrop and paths derived from the value do not qualify."""
    ty = ty.strip()
    while True:
        if ty == inner:
            return True
        for wr in OWNING_WRAPPERS:
            if ty.startswith(wr + '<') and ty.endswith('>'):
                ty = ty[len(wr) + 1:-1].strip()
                break
        else:
            return False


def owning_fields(adt, inner):
    """{(variant name, field name)} of the fields of adt that own an `inner` by value"""
    return {(v['name'], fl['name']) for v in (adt or {}).get('variants', ()) for fl in v['fields'] if owns_by_value(fl['ty'], inner)}


def held(v):
    """the value held by `Some(x)` / `Box::new(x)` wrappers around it"""
    v = strip(v)
    while True:
        if v[0] == 'agg' and v[1] == 'std::option::Option' and v[2] == 'Some':
            v = strip(dict(v[3]).get('0', ('unknown',)))
        elif v[0] == 'call' and v[1] in ('std::boxed::Box::<T>::new', 'std::boxed::Box::new') and len(v[2]) == 1:
            v = strip(v[2][0])
        else:
            return v
