"""Helpers of C16: where values of a guard type come into existence (struct literals lifted out of private constructor
helpers) and what a `run_command` argument denotes (a removal command struct and the guard fields it names)."""
from .lib.paths import strip
from .lib.value import walk


def literal_sites(fn, ty):
    """[(bb, stmt)] struct literals of `ty` in fn"""
    return [(bi, s) for bi, b in enumerate(fn.blocks) for s in b['s']
            if s[0] == '=' and s[2]['r'] == 'agg' and s[2].get('adt') == ty]


def ctor_helpers(prog, sl, ty):
    """private functions that do nothing to a `ty` but build one and return it: non-pub, return type `ty`, exactly one
    place where the value is made (a literal or a call of another such helper) and that value is what they return.
    Such a function is transparent: the guard starts to exist at its call sites."""
    helpers = {}
    changed = True
    while changed:
        changed = False
        for f in prog.fns.values():
            if f.path in helpers or f.derived or f.vis == 'pub' or f.ret != ty or f.kind == 'Closure':
                continue
            made = len(literal_sites(f, ty)) + len([c for c in f.calls if not c.indirect and c.name in helpers])
            if made != 1:
                continue
            rv = sl.inline_deep(strip(sl.local(f, 0)))
            if rv[0] == 'agg' and rv[1] == ty:
                helpers[f.path] = f
                changed = True
    return helpers


class Made:
    """one place where a guard value starts to exist, in a function that is not a constructor helper"""

    def __init__(self, fn, bb, kind, stmt=None, call=None):
        self.fn, self.bb, self.kind, self.stmt, self.call = fn, bb, kind, stmt, call

    def value(self, sl, keep=()):
        if self.kind == 'stmt':
            v = sl._rvalue(self.fn, self.stmt[2], set(), 0, None)
        elif self.kind == 'call':
            v = sl._call_value(self.fn, self.call, set(), 0)
        else:
            return ('unknown',)
        return sl.inline_deep(strip(v), keep=keep)

    def dest(self):
        """local receiving the value"""
        if self.kind == 'stmt':
            return self.stmt[1][0]
        if self.kind == 'call' and self.call.dest:
            return self.call.dest[0]
        return None

    def __repr__(self):
        return '%s(bb%d,%s)' % (self.fn.path, self.bb, self.kind)


def construction_sites(prog, sl, ty):
    """every place in the workspace where a `ty` is made, constructor helpers being transparent; a helper handed around
    as a fn item counts as a site where it is handed over (its callers are unknown)"""
    helpers = ctor_helpers(prog, sl, ty)
    out = []
    for f in prog.fns.values():
        if f.derived or f.path in helpers:
            continue
        for bi, s in literal_sites(f, ty):
            out.append(Made(f, bi, 'stmt', stmt=s))
        for c in f.calls:
            if not c.indirect and c.name in helpers:
                out.append(Made(f, c.bb, 'call', call=c))
            elif helpers and any(g.path in helpers for g in prog.fn_item_args(c)):
                out.append(Made(f, c.bb, 'fnitem', call=c))
    return out, helpers


def param_fields(v, fn_path, idx):
    """names of the fields of parameter `idx` of fn_path mentioned in v, in order of appearance"""
    res = []
    for x in walk(v):
        if x[0] == 'field' and x[1][0] == 'param' and x[1][1] == fn_path and x[1][2] == idx:
            res.append(x[2])
    return res


def top_call(e):
    """the call site, in the entry function of the expansion, through which effect e is reached"""
    return e.chain[0].call if e.chain else e.call
