"""Helpers of C16: where values of a guard type come into existence (struct literals lifted out of private constructor
helpers) and what a `run_command` argument denotes (a removal command struct and the guard fields it names)."""
from .lib.paths import strip
from .lib.value import walk


def literal_sites(fn, ty):
    """[(bb, stmt)] struct literals of `ty` in fn"""
    return [(bi, s) for bi, b in enumerate(fn.blocks) for s in b['s']
            if s[0] == '=' and s[2]['r'] == 'agg' and s[2].get('adt') == ty]


def ctor_helpers(prog, sl, ty):
    """private functions that do nothing to a `ty` but build one and return it: non-pub, return type `ty`, exactly one
    place where the value is made (a literal or a call of another such helper) and that value is what they return.
    Such a function is transparent: the guard starts to exist at its call sites."""
    helpers = {}
    changed = True
    while changed:
        changed = False
        for f in prog.fns.values():
            if f.path in helpers or f.derived or f.vis == 'pub' or f.ret != ty or f.kind == 'Closure':
                continue
            made = len(literal_sites(f, ty)) + len([c for c in f.calls if not c.indirect and c.name in helpers])
            if made != 1:
                continue
            rv = sl.inline_deep(strip(sl.local(f, 0)))
            if rv[0] == 'agg' and rv[1] == ty:
                helpers[f.path] = f
                changed = True
    return helpers


class Made:
    """one place where a guard value starts to exist, in a function that is not a constructor helper"""

    def __init__(self, fn, bb, kind, stmt=None, call=None):
        self.fn, self.bb, self.kind, self.stmt, self.call = fn, bb, kind, stmt, call

    def value(self, sl, keep=()):
        if self.kind == 'stmt':
            v = sl._rvalue(self.fn, self.stmt[2], set(), 0, None)
        elif self.kind == 'call':
            v = sl._call_value(self.fn, self.call, set(), 0)
        else:
            return ('unknown',)
        return sl.inline_deep(strip(v), keep=keep)

    def dest(self):
        """local receiving the value"""
        if self.kind == 'stmt':
            return self.stmt[1][0]
        if self.kind == 'call' and self.call.dest:
            return self.call.dest[0]
        return None

    def __repr__(self):
        return '%s(bb%d,%s)' % (self.fn.path, self.bb, self.kind)


def sites_in(prog, f, ty, helpers):
    """places in f (a constructor helper or not) where a `ty` starts to exist in f's frame: literals, calls of
    constructor helpers, helpers handed over as fn items"""
    out = [Made(f, bi, 'stmt', stmt=s) for bi, s in literal_sites(f, ty)]
    for c in f.calls:
        if not c.indirect and c.name in helpers:
            out.append(Made(f, c.bb, 'call', call=c))
        elif helpers and any(g.path in helpers for g in prog.fn_item_args(c)):
            out.append(Made(f, c.bb, 'fnitem', call=c))
    return out


def construction_sites(prog, sl, ty):
    """every place in the workspace where a `ty` is made, constructor helpers being transparent; a helper handed around
    as a fn item counts as a site where it is handed over (its callers are unknown)"""
    helpers = ctor_helpers(prog, sl, ty)
    out = []
    for f in prog.fns.values():
        if f.derived or f.path in helpers:
            continue
        out.extend(sites_in(prog, f, ty, helpers))
    return out, helpers


def guard_frames(prog, ty, helpers, entry, runs_of, max_depth=6):
    """The frames in which a guard of type `ty` lives while commands are issued, starting at `entry` and descending into
    the constructor helper that makes the guard when that helper issues commands itself (acquire phase split off into a
    private function that hands the guard back by value).
    runs_of(fn) -> effects of fn (in fn's terms) that must not happen before the guard exists.
    Returns (ok, why, frames): frames = [(fn, Made, runs issued in fn's own frame while the guard is owned there)];
    ok is False when in some frame a command can be issued before / not dominated by the guard's creation."""
    frames = []
    fn = entry
    for _ in range(max_depth):
        here = [m for m in sites_in(prog, fn, ty, helpers) if m.kind in ('stmt', 'call')]
        if len(here) != 1:
            return False, '%d construction sites in %s' % (len(here), fn.path), frames
        m = here[0]
        runs = runs_of(fn)
        inner = [e for e in runs if m.kind == 'call' and top_call(e) is m.call]   # issued by the helper itself
        outer = [e for e in runs if not (m.kind == 'call' and top_call(e) is m.call)]
        # a statement precedes the terminator of its block; a call's result exists from the next block on
        late = [e for e in outer if not (fn.dominates(m.bb, top_call(e).bb) and (m.kind == 'stmt' or m.bb != top_call(e).bb))]
        if late:
            return False, 'command at %s is not preceded by the guard made in %s' % (top_call(late[0]).where(), fn.path), frames
        frames.append((fn, m, outer))
        if not inner:
            return True, '', frames
        fn = helpers[m.call.name]
    return False, 'constructor helpers nested too deep', frames


def param_fields(v, fn_path, idx):
    """names of the fields of parameter `idx` of fn_path mentioned in v, in order of appearance"""
    res = []
    for x in walk(v):
        if x[0] == 'field' and x[1][0] == 'param' and x[1][1] == fn_path and x[1][2] == idx:
            res.append(x[2])
    return res


def top_call(e):
    """the call site, in the entry function of the expansion, through which effect e is reached"""
    return e.chain[0].call if e.chain else e.call


OWNING_WRAPPERS = ('std::option::Option', 'std::boxed::Box')


def owns_by_value(ty, inner):
    """type `ty` is `inner` or an Option / Box (nested) of it: dropping a `ty` drops the `inner` it holds.
    References, Rc/Arc (shared), ManuallyDrop and paths derived from the value do not qualify."""
    ty = ty.strip()
    while True:
        if ty == inner:
            return True
        for wr in OWNING_WRAPPERS:
            if ty.startswith(wr + '<') and ty.endswith('>'):
                ty = ty[len(wr) + 1:-1].strip()
                break
        else:
            return False


def owning_fields(adt, inner):
    """{(variant name, field name)} of the fields of adt that own an `inner` by value"""
    return {(v['name'], fl['name']) for v in (adt or {}).get('variants', ()) for fl in v['fields'] if owns_by_value(fl['ty'], inner)}


def held(v):
    """the value held by `Some(x)` / `Box::new(x)` wrappers around it"""
    v = strip(v)
    while True:
        if v[0] == 'agg' and v[1] == 'std::option::Option' and v[2] == 'Some':
            v = strip(dict(v[3]).get('0', ('unknown',)))
        elif v[0] == 'call' and v[1] in ('std::boxed::Box::<T>::new', 'std::boxed::Box::new') and len(v[2]) == 1:
            v = strip(v[2][0])
        else:
            return v


# ---- deepening round: divergence inside a drop, constructor → argv provenance, setters, temp-dir provenance ----------

def _diverging_blocks(fn):
    """blocks of fn (not on the unwind path) that end in a call which never returns (panic machinery, process exit)"""
    return [bi for bi, b in enumerate(fn.blocks) if not b['cleanup'] and b['t']['t'] == 'call' and b['t'].get('to') is None]


def may_diverge(prog, fn, _seen=None):
    """can entering workspace function fn end in a panic / exit raised by workspace code (fn itself, the workspace
    functions and closures it may enter)?  Panics raised inside std are outside this question."""
    for g in prog.reach([fn]).values():
        if _diverging_blocks(g):
            return True
    return False


def divergence_points(prog, fn):
    """blocks of fn at which control can leave fn by a panic / exit caused by workspace code: a never-returning call in
    fn's own body, a call of a workspace function that may diverge, or a call that is handed a closure / fn item that may
    diverge (`.unwrap_or_else(|e| panic!(..))`)"""
    out = set(_diverging_blocks(fn))
    for c in fn.calls:
        if fn.blocks[c.bb]['cleanup']:
            continue
        tgts = list(prog.callee_fns(c)) + list(prog.fn_item_args(c))
        if any(may_diverge(prog, g) for g in tgts):
            out.add(c.bb)
    return out


def result_fate_levels(prog, e):
    """fate kinds of the Result produced by the vocabulary call behind effect e, followed upwards through the frames
    that merely hand it back to their caller; -> (set of kinds, [(frame fn, consumer Call | None)] for 'panics' fates)"""
    from .lib.discard import result_fates
    call, links = e.call, list(e.chain)
    kinds, panics = set(), []
    for _ in range(8):
        fates = result_fates(prog, call.fn, call)
        ks = {f.kind for f in fates}
        for f in fates:
            if f.kind == 'panics':
                panics.append((call.fn, f.via))
        up = ks & {'returned', 'propagated'}
        kinds |= ks - up
        if not up or not links:
            if up and not links:
                kinds |= up
            break
        call = links.pop().call
    return kinds, panics


def ctor_field_params(sl, nf):
    """{field name: set of parameter indices of constructor nf its initial value derives from}, None when nf does not
    return a struct literal (private helpers inlined)"""
    nv = strip(sl.inline_deep(strip(sl.local(nf, 0))))
    if nv[0] != 'agg':
        return None
    return {name: {x[2] for x in walk(fv) if x[0] == 'param' and x[1] == nf.path} for name, fv in nv[3]}


def setter_assignments(sl, fn):
    """{field: value} written through the `&mut self` receiver of setter fn (`self.field = v`), values in fn's terms;
    None when fn writes through its receiver in a way that is not a plain field assignment"""
    out = {}
    for d in fn.partial_defs(1):
        kind, bi, si, rv, pl = d
        if kind != 'stmt' or len(pl) != 3 or pl[1] != '*' or not str(pl[2]).startswith('.'):
            return None
        out[pl[2][1:]] = strip(sl._rvalue(fn, rv, set(), 0, None))
    return out


def sets_param(sl, fn, field):
    """index of the parameter of setter fn that is stored in `field` (and fn stores nothing else), else None"""
    a = setter_assignments(sl, fn)
    if a is None or set(a) != {field}:
        return None
    v = a[field]
    return v[2] if v[0] == 'param' and v[1] == fn.path else None


TEMPDIR_MAKERS = ('tempfile::tempdir', 'tempfile::TempDir::new', 'tempfile::Builder::tempdir', 'tempfile::Builder::<\'_, \'_>::tempdir')
TEMPDIR_VIEWS = ('tempfile::TempDir::path', 'std::convert::AsRef::as_ref', 'std::ops::Deref::deref', 'std::borrow::Borrow::borrow')


def tempdir_path(sl, v):
    """is v the path of a directory made by tempdir() whose TempDir is still owned (a view of it: `.path()`, `.as_ref()`,
    not `keep` / `into_path`, not a fresh path computed elsewhere)?  Path copies (`to_path_buf`, `to_owned`, `into`)
    of such a view name the same directory."""
    v = strip(sl.inline_deep(strip(v)))
    for _ in range(6):
        if v[0] == 'call' and v[2] and v[1].split('::')[-1] in ('to_path_buf', 'to_owned', 'into', 'clone', 'from', 'as_path'):
            v = strip(v[2][0])
        elif v[0] == 'call' and v[1] in ('std::path::Path::join', 'std::path::PathBuf::join') and len(v[2]) == 2 and \
                strip(v[2][1])[0] == 'const' and isinstance(strip(v[2][1])[1], str) and not strip(v[2][1])[1].startswith(('/', '..')):
            v = strip(v[2][0])       # a literal relative sub-directory of the TempDir is removed with it
        else:
            break
    if not (v[0] == 'call' and v[1] in TEMPDIR_VIEWS and len(v[2]) == 1):
        return False
    inner = strip(v[2][0])
    return inner[0] == 'call' and (inner[1] in TEMPDIR_MAKERS or (inner[1].startswith('tempfile::') and inner[1].split('::')[-1] in ('tempdir', 'tempdir_in')))


def params_in(v, fn_path):
    return {x[2] for x in walk(v) if x[0] == 'param' and x[1] == fn_path}


def _deref_ty(ty):
    ty = ty.strip()
    for pre in ('&mut ', '&', '*mut ', '*const '):
        if ty.startswith(pre):
            rest = ty[len(pre):].strip()
            if rest.startswith("'") and ' ' in rest:     # &'a T
                rest = rest.split(' ', 1)[1]
                if rest.startswith('mut '):
                    rest = rest[4:]
            return rest.strip()
    for wr in ('std::boxed::Box<',):
        if ty.startswith(wr) and ty.endswith('>'):
            return ty[len(wr):-1].strip()
    return None


def place_types(prog, fn, pl):
    """types of every prefix of place pl (index i -> type of pl[:i+1]); None entries where the type is not known"""
    tys = [fn.locals[pl[0]]['ty']]
    variant = None
    for pr in pl[1:]:
        cur = tys[-1]
        nxt = None
        if cur is not None:
            if pr == '*':
                nxt = _deref_ty(cur)
            elif isinstance(pr, str) and pr.startswith('@'):
                variant = pr[1:]
                nxt = cur
            elif isinstance(pr, str) and pr.startswith('.'):
                adt = prog.adts.get(cur.split('<')[0].strip())
                if adt is not None:
                    vs = adt.get('variants', ())
                    v = next((x for x in vs if x['name'] == variant), None) if variant else (vs[0] if len(vs) == 1 else None)
                    if v is not None:
                        nxt = next((fl['ty'] for fl in v['fields'] if fl['name'] == pr[1:]), None)
                variant = None
        tys.append(nxt)
    return tys


def guard_mutations(prog, fn, guard_types):
    """places inside (or holding) a value of a guard type that fn overwrites or borrows mutably after the value was
    made: [(bb, what, place)].  The first assignment of a whole local is construction, not mutation."""
    is_guard = lambda t: t is not None and t.split('<')[0].strip() in guard_types
    out = []

    def inside(pl, whole_ok):
        tys = place_types(prog, fn, pl)
        # a place strictly inside a guard, or (for borrows / overwritten fields of an owner) the guard itself
        for i, t in enumerate(tys):
            if is_guard(t) and (i < len(tys) - 1 or (whole_ok and len(pl) > 1)):
                return True
        return False

    for bi, b in enumerate(fn.blocks):
        for s in b['s']:
            if s[0] != '=':
                continue
            if len(s[1]) > 1 and inside(s[1], True):
                out.append((bi, 'write', s[1]))
            rv = s[2]
            if (rv['r'] == 'ref' and rv.get('mut')) or rv['r'] == 'rawptr':
                p = rv['p']
                tys = place_types(prog, fn, p)
                if any(is_guard(t) for t in tys) and not (len(p) == 2 and p[1] == '*' and fn.locals[p[0]]['ty'].startswith('&mut ')):
                    out.append((bi, 'mutable borrow', p))
        t = b['t']
        if t['t'] == 'call' and len(t.get('dest') or ()) > 1 and inside(t['dest'], True):
            out.append((bi, 'write', t['dest']))
    return out


def _const_str_blocks(fn, text):
    """blocks of fn in which the string constant `text` occurs (statement operand or call argument)"""
    from .lib.mir import op_const, const_value
    out = []

    def is_text(o):
        k = op_const(o) if isinstance(o, dict) else None
        return k is not None and const_value(k) == text

    for bi, b in enumerate(fn.blocks):
        if b['cleanup']:
            continue
        hit = False
        for s in b['s']:
            if s[0] != '=':
                continue
            rv = s[2]
            ops = [rv.get('o'), rv.get('a'), rv.get('b')] + list(rv.get('ops') or ())
            hit = hit or any(is_text(o) for o in ops if o)
        t = b['t']
        if t['t'] == 'call':
            hit = hit or any(is_text(a) for a in t.get('args', ()))
        if hit:
            out.append(bi)
    return out


def flag_conditions(prog, sl, fn, flag):
    """Under which conditions on boolean fields of the converted struct (parameter 0 of conversion fn) is the literal
    argv word `flag` emitted?  -> list (one entry per occurrence of the literal) of [(field, outcome)], or None when an
    occurrence sits in a place whose condition is not understood.  Understood: the literal in fn's own body under
    `if self.field` guards, and inside a closure handed to `bool::then` on such a field (`field.then(|| "--flag")`)."""
    from .lib.guards import conditions
    res = []

    def field_of(v):
        for x in walk(v):
            if x[0] == 'field' and x[1][0] == 'param' and x[1][1] == fn.path and x[1][2] == 0:
                return x[2]
        return None

    def conds_at(bb):
        out = []
        for cd in conditions(fn, bb, sl):
            if cd.kind != 'bool':
                continue
            fld = field_of(cd.subject if cd.subject is not None else cd.value)
            if fld is None:
                return None
            out.append((fld, cd.outcome))
        return out

    for bb in _const_str_blocks(fn, flag):
        c = conds_at(bb)
        if c is None:
            return None
        res.append(c)
    for cl in prog.closures_of(fn):
        if not _const_str_blocks(cl, flag):
            continue
        sites = [c for c in fn.calls if any(g.path == cl.path for g in prog.fn_item_args(c))]
        if len(sites) != 1:
            return None
        c = sites[0]
        nm = c.name or ''
        if not (nm.split('::')[-1] == 'then' and 'bool' in nm and c.args):
            return None
        fld = field_of(sl.operand(fn, c.args[0]))
        outer = conds_at(c.bb)
        if fld is None or outer is None:
            return None
        res.append(outer + [(fld, True)])
    return res
