"""Normal forms used by C13 (dependency order): the rule states its obligations on these instead of on one spelling.

  core(v)                 the entity a value denotes, without `?`/unwrap/ok_or/map_err wrappers
  reduce(sl, v, keep)     beta-normal form: workspace helpers inlined (except `keep`; keep='*': none), closures applied where they are called
                          (`pred(&g[i])` inside a helper that received `pred`), `from_fn(f)` elements = results of f
  joint(...)              values that range over the elements of a *stored* collection (a local Vec that is only ever
                          pushed to, then iterated) re-expressed per pushed element, consistently across several values
  vec_uses(...)           every call that receives a given local Vec, classified append / read / other
  appended(...)           the element values an append call adds, in order (push: one, extend: the iterator's elements)
  option_cases / cases_of the (guards, value) alternatives of a selected value, whether it is written as an Option
                          combinator chain (`find().map().or_else(|| c.then(..)).unwrap_or_default()`) or as
                          `if let .. else if .. else ..` assigning one local
  flows_out(...)          a "not found" outcome travels up every level of the call chain into a propagated error
"""
from .lib import iters
from .lib.discard import result_fates, verdict
from .lib.guards import conditions, always_through
from .lib.mir import op_place
from .lib.value import walk, canon, subst, OK_PRESERVING, is_transparent

IT = iters.IT
FN_CALLS = ('std::ops::Fn::call', 'std::ops::FnMut::call_mut', 'std::ops::FnOnce::call_once')
ATOMS = ('const', 'param', 'fnitem', 'constitem', 'unknown', 'closure_env', 'upvar')
VEC_NEW = ('std::vec::Vec::<T>::new', 'std::vec::Vec::<T>::with_capacity', 'std::vec::Vec::<T, A>::new')
# Vec methods (and the slice methods reached through deref) that neither change nor reorder the elements
VEC_READS = ('::len', '::is_empty', '::iter', '::into_iter', '::as_slice', '::capacity', '::first', '::last', '::get',
             '::contains', '::reserve', '::shrink_to_fit')
PUSH = ('std::vec::Vec::<T, A>::push', 'std::vec::Vec::<T>::push')
EXTEND = 'std::iter::Extend::extend'


def peel(v):
    while v[0] in ('unwrap', 'updated'):
        v = v[1]
    return v


def core(v):
    """peel everything that leaves the success payload untouched"""
    while True:
        if v[0] in ('unwrap', 'updated'):
            v = v[1]
        elif v[0] == 'call' and v[1] in OK_PRESERVING and v[2]:
            v = v[2][0]
        else:
            return v


def is_call(v, *suffixes):
    return isinstance(v, tuple) and len(v) >= 3 and v[0] == 'call' and isinstance(v[1], str) and v[1].endswith(suffixes)


def site_of(v):
    return v[3] if isinstance(v, tuple) and len(v) == 4 and v[0] == 'call' else None


# ---- beta normal form ---------------------------------------------------------------------------------------------
def reduce(sl, v, keep=(), depth=0):
    if not isinstance(v, tuple) or not v:
        return v
    if isinstance(v[0], str) and v[0] in ATOMS:
        return v
    out = tuple(reduce(sl, x, keep, depth) if isinstance(x, tuple) else x for x in v)
    if not isinstance(out[0], str) or depth > 8:
        return out
    k = out[0]
    if k == 'call' and len(out) >= 3:
        name, args = out[1], out[2]
        if name in FN_CALLS and len(args) == 2 and peel(args[0])[0] in ('closure', 'fnitem') and args[1][0] == 'tuple':
            r = sl.apply_closure(peel(args[0]), tuple(args[1][1]))
            if r is not None:
                return reduce(sl, r, keep, depth + 1)
        if keep != '*' and name in sl.prog.fns and name not in keep and sl.prog.fns[name].kind != 'Closure':
            iv = sl.inline_call(out)
            if iv is not None and iv != out:
                return reduce(sl, iv, keep, depth + 1)
        return out
    if k == 'icall' and len(out) >= 3 and peel(out[1])[0] in ('closure', 'fnitem'):
        r = sl.apply_closure(peel(out[1]), tuple(out[2]))
        if r is not None:
            return reduce(sl, r, keep, depth + 1)
        return out
    if k == 'unwrap':
        x = out[1]
        if is_call(x, 'Iterator::next') and x[2]:
            src = core(x[2][0])
            if src[0] == 'call' and src[1] == 'std::iter::from_fn' and src[2]:
                r = sl.apply_closure(peel(src[2][0]), ())
                if r is not None:
                    # the elements of from_fn(f) are the Some payloads f returns, until the first None
                    return reduce(sl, sl.mk_unwrap(r, 1), keep, depth + 1)
        return sl.mk_unwrap(x, 1) if out != v else out
    if out != v:
        if k == 'field':
            return sl._field(out[1], out[2])
        if k == 'variant':
            return sl._variant(out[1], out[2])
    return out


def apply1(sl, clv, arg, keep=()):
    """beta-normal result of calling closure value clv with one argument; None when clv is not a known closure"""
    clv = peel(clv)
    if clv[0] not in ('closure', 'fnitem'):
        return None
    r = sl.apply_closure(clv, (arg,))
    return reduce(sl, r, keep) if r is not None else None


def sym(name):
    return ('param', '$' + name, 0, name)


# ---- local collections that are filled and then iterated -----------------------------------------------------------
def scope_fns(prog, fn):
    return [fn] + prog.closures_of(fn)


def vec_uses(prog, sl, fn, site, _is=None, _depth=0):
    """calls in fn (its closures, and the workspace helpers the collection is handed to) that receive the Vec created at
    `site`: ([(call, holder fn, 'push'|'extend')], [read-only calls], [anything else])"""
    app, reads, other = [], [], []
    is_vec = _is or (lambda v: site_of(v) == site)
    for g in scope_fns(prog, fn):
        for c in g.calls:
            if c.indirect or not c.args:
                continue
            hit = [i for i, a in enumerate(c.args) if is_vec(peel(sl.operand(g, a)))]
            if not hit:
                continue
            if is_transparent(c) and hit == [0]:
                continue    # deref / as_ref: the result is the same entity, followed by the slicer
            if hit == [0] and c.name in PUSH and len(c.args) == 2:
                app.append((c, g, 'push'))
            elif hit == [0] and c.decl == EXTEND and len(c.args) == 2:
                app.append((c, g, 'extend'))
            elif hit == [0] and c.decl == IT + 'next':
                reads.append(c)     # `for x in v`: into_iter is transparent, the loop reads the elements front to back
            elif hit == [0] and c.name and c.name.endswith(VEC_READS) and c.name.startswith(('std::vec::Vec', 'core::slice', 'std::slice', '<std::vec::Vec', 'std::iter::IntoIterator')):
                reads.append(c)
            else:
                callees = [h for h in prog.callee_fns(c) if h.kind != 'Closure']
                if len(callees) == 1 and len(hit) == 1 and _depth < 4 and hit[0] < callees[0].argc:
                    # a helper that receives the collection: what it does with that parameter
                    h, i = callees[0], hit[0]
                    a2, r2, o2 = vec_uses(prog, sl, h, site, lambda v, h=h, i=i: v[0] == 'param' and v[1] == h.path and v[2] == i, _depth + 1)
                    app.extend(a2)
                    reads.extend(r2)
                    other.extend(o2)
                else:
                    other.append(c)
    return app, reads, other


def appended(sl, call, holder, kind, keep=()):
    """[(element value, filtered?)] added by one append call, in order"""
    if kind == 'push':
        return [(reduce(sl, sl.operand(holder, call.args[1]), keep), False)]
    it = sl.operand(holder, call.args[1])
    keeps = in_order(it)
    return [(reduce(sl, e, keep), fl or not keeps) for e, _, fl in iters.alts(sl, it)]


ORDERED = {IT + 'map', IT + 'peekable', IT + 'by_ref', IT + 'fuse', IT + 'cloned', IT + 'copied', IT + 'inspect'}


def in_order(it, depth=0):
    """the iterator expression yields the elements of its sources front to back, none dropped: only element-wise stages
    (map, cloned, ..), collect / iter / into_iter round trips, chain, once, from_fn"""
    it = peel(it)
    if depth > 12:
        return False
    if it[0] != 'call':
        return it[0] in ('param', 'field', 'array', 'upvar')
    name, args = it[1], it[2]
    if name in ORDERED or name in iters.COLLECTING:
        return bool(args) and in_order(args[0], depth + 1)
    if name == IT + 'chain' and len(args) == 2:
        return in_order(args[0], depth + 1) and in_order(args[1], depth + 1)
    if name in ('std::iter::from_fn', 'std::iter::once', 'std::iter::empty'):
        return True
    if iters._is_source(name) and name.endswith(iters.SAME_ELEMS) and len(args) == 1:
        return in_order(args[0], depth + 1)
    # any other iterator adapter (rev, filter, skip, step_by, ..) or an opaque producer
    return not name.startswith(('std::iter::', 'core::iter::')) and name in VEC_NEW


def _choice(prog, sl, fn, v):
    """first sub-value `unwrap(next(C))` whose collection C decomposes: (element, [element values]) where C is
       - a local Vec that is only ever pushed to (filled in one phase, iterated in the next): the pushed values
       - an iterator pipeline / collected pipeline (`xs.into_iter().map(f).collect::<Result<Vec<_>, _>>()?`): the
         pipeline's element values in terms of the elements of xs (iters.alts), none filtered"""
    for x in walk(v):
        if not (x[0] == 'unwrap' and is_call(x[1], 'Iterator::next') and x[1][1].startswith(IT) and x[1][2]):
            continue
        coll = x[1][2][0]
        src = peel(coll)
        st = site_of(src)
        if st is not None and src[1] in VEC_NEW:
            holder = prog.fns.get(st[0])
            if holder is None:
                continue
            top = holder
            while top.kind == 'Closure' and top.parent in prog.fns:
                top = prog.fns[top.parent]
            app, _, other = vec_uses(prog, sl, top, st)
            if other or not app or any(kind != 'push' or g not in scope_fns(prog, top) for _, g, kind in app):
                continue
            return x, [sl.operand(g, c.args[1]) for c, g, _ in app]
        al = iters.alts(sl, coll)
        if al and not iters.trivial(al, coll) and not any(fl for _, _, fl in al) and \
                not (len(al) == 1 and al[0][1] is not None and canon(iters.elem_of(al[0][1])) == canon(al[0][0])):
            return x, [e for e, _, _ in al]
    return None


def joint(prog, sl, fn, values, depth=0):
    """[tuple(values)] with every element of a decomposable collection replaced by each of its element values, the same
    one in all values (a pair pushed as `(a, b)` and read back as `.0` / `.1` stays a pair)"""
    values = tuple(values)
    if depth > 6:
        return [values]
    for v in values:
        ch = _choice(prog, sl, fn, v)
        if ch is None:
            continue
        elem, pushed = ch
        out = []
        for p in pushed:
            m = {'__repl__': [(canon(elem), p)]}
            out.extend(joint(prog, sl, fn, tuple(subst(x, m, sl) for x in values), depth + 1))
        return out
    return [values]


def normal_forms(prog, sl, fn, values, keep=()):
    """the alternatives of a tuple of values (joint) in beta-normal form"""
    return [tuple(reduce(sl, x, keep) for x in alt) for alt in joint(prog, sl, fn, values)]


# ---- iterated collections -----------------------------------------------------------------------------------------
def element_of(sl, v):
    """if v (peeled) is the element of an iteration return the iterated collection (peeled), else None"""
    v = peel(v)
    if is_call(v, 'Iterator::next') and v[1].startswith(IT) and v[2]:
        al = iters.alts(sl, v[2][0])
        if len(al) == 1 and al[0][1] is not None and not al[0][2]:
            return peel(al[0][1])
        return peel(v[2][0])
    return None


# ---- selected values ----------------------------------------------------------------------------------------------
DEFAULT = ('const', '<Default::default()>')
OPT = 'std::option::Option::<T>::'
THEN = ('std::bool::<impl bool>::then', 'core::bool::<impl bool>::then')
THEN_SOME = ('std::bool::<impl bool>::then_some', 'core::bool::<impl bool>::then_some')


def origin_local(fn, local):
    """the local that `local` is a view of: follows single-definition copies, borrows and transparent calls
    (`&v`, `&*v`, `Deref::deref(&v)`) back to the local that is actually assigned"""
    for _ in range(12):
        defs = fn.whole_defs(local)
        if len(defs) != 1 or 1 <= local <= fn.argc:
            return local
        d = defs[0]
        if d[0] == 'stmt' and d[3]['r'] in ('use', 'ref', 'cfd'):
            src = op_place(d[3]['o']) if d[3]['r'] == 'use' else d[3]['p']
        elif d[0] == 'call' and is_transparent(d[3]) and d[3].args:
            src = op_place(d[3].args[0])
        else:
            return local
        if not src or any(p != '*' for p in src[1:]):
            return local
        local = src[0]
    return local


class Cases:
    """the alternatives [(guards, value)] of a selected value, with the decisions that lead to each alternative:
    guards are ('some'|'none', option value) and (True|False, boolean value).  The same table comes out of
      find(..).map(f).or_else(|| c.then(|| all)).unwrap_or_default()
      if let Some(n) = find(..) { f(n) } else if c { all } else { Vec::new() }
      match find(..) { Some(n) => f(n), None if c => all, None => vec![] }
      find(..).map_or_else(|| if c { all } else { vec![] }, f)        a private helper returning any of these
    because combinators are unfolded, closures and private helpers are entered, and an assigned local / returned value
    contributes one alternative per assignment under the branch decisions that dominate it."""

    def __init__(self, prog, sl, keep='*'):
        from .lib.value import Slicer
        self.prog, self.sl, self.keep = prog, sl, keep
        self.sym = Slicer(prog, sl.max_depth)
        self.sym.symbolic_upvars = True

    # -- entry points
    def of_operand(self, fn, operand):
        pl = op_place(operand)
        v = self.sl.operand(fn, operand)
        if not pl:
            return self.of_value(v, ())
        local = origin_local(fn, pl[0])
        if len(fn.whole_defs(local)) < 2:
            return self.of_value(v, ())
        return self.of_local(self.sl, fn, local, {}, (), 0)

    def of_local(self, S, fn, local, m, guards, depth):
        """one alternative per assignment of the local, under the decisions dominating that assignment"""
        out = []
        for d in fn.whole_defs(local):
            if d[0] == 'call' and d[3].decl and d[3].decl.endswith('FromResidual::from_residual'):
                continue
            val = subst(S._def_value(fn, d, set(), 0), m, self.sl) if m else S._def_value(fn, d, set(), 0)
            gs = []
            for c in conditions(fn, d[1], S):
                if c.kind == 'variant' and c.subject is not None and c.enum == 'std::option::Option' and len(c.outcome) == 1:
                    gs.append(('some' if 'Some' in c.outcome else 'none', subst(c.subject, m, self.sl) if m else c.subject))
                elif c.kind == 'bool':
                    gs.append((c.outcome, subst(c.value, m, self.sl) if m else c.value))
            out.extend(self.of_value(val, guards + tuple(gs), depth + 1))
        return out

    def returned(self, g, m, guards, depth):
        """alternatives of what function / closure g returns, parameters and captures bound by m"""
        S = self.sym if g.kind == 'Closure' else self.sl
        local = origin_local(g, 0)
        if 1 <= local <= g.argc or not g.whole_defs(local):
            v = S.local(g, 0)
            return self.of_value(subst(v, m, self.sl) if m else v, guards, depth + 1)
        return self.of_local(S, g, local, m, guards, depth)

    def apply(self, clv, args, guards, depth):
        """alternatives of calling closure / fn item clv; None when it is not a known body"""
        clv = peel(clv)
        if clv[0] not in ('closure', 'fnitem') or depth > 8:
            return None
        g = self.prog.fns.get(clv[1])
        if g is None:
            return None
        if clv[0] == 'closure':
            m = {(g.path, 1 + i): a for i, a in enumerate(args)}
            for i, uv in enumerate(clv[2]):
                m[('upvar', g.path, i)] = uv
        else:
            m = {(g.path, i): a for i, a in enumerate(args)}
        return self.returned(g, m, guards, depth + 1)

    # -- plain values
    def of_value(self, v, guards, depth=0):
        p = peel(v) if v[0] == 'updated' else v
        if depth < 10 and p[0] == 'call':
            name, args = p[1], p[2]
            other = None
            if name == OPT + 'unwrap_or_default' and len(args) == 1:
                other = lambda g: [(g, DEFAULT)]
            elif name == OPT + 'unwrap_or' and len(args) == 2:
                other = lambda g: self.of_value(args[1], g, depth + 1)
            elif name == OPT + 'unwrap_or_else' and len(args) == 2:
                other = lambda g: self.apply(args[1], (), g, depth + 1) or [(g, ('unknown', 'unwrap_or_else'))]
            if other is not None:
                out = []
                for g, pay in self.option(args[0], guards, depth + 1):
                    out.extend(self.of_value(pay, g, depth + 1) if pay is not None else other(g))
                return out
            if name in (OPT + 'map_or_else', OPT + 'map_or') and len(args) == 3:
                out = []
                for g, pay in self.option(args[0], guards, depth + 1):
                    if pay is not None:
                        out.extend(self.apply(args[2], (pay,), g, depth + 1) or [(g, ('unknown', 'map_or'))])
                    elif name.endswith('map_or'):
                        out.extend(self.of_value(args[1], g, depth + 1))
                    else:
                        out.extend(self.apply(args[1], (), g, depth + 1) or [(g, ('unknown', 'map_or_else'))])
                return out
            h = self.prog.fns.get(name)
            if h is not None and h.kind != 'Closure' and h.vis != 'pub' and not h.ret.startswith(('std::result::Result', 'std::option::Option')):
                # a private helper that makes the selection
                m = {(h.path, i): a for i, a in enumerate(args) if i < h.argc}
                return self.returned(h, m, guards, depth + 1)
        if p[0] == 'phi':
            # alternatives whose decisions are not known here stay one opaque value
            return [(guards, v)]
        return [(guards, reduce(self.sl, v, self.keep))]

    # -- Option values: [(guards, payload | None)]
    def option(self, v, guards, depth=0):
        v0 = v
        v = peel(v) if v[0] == 'updated' else v
        if depth < 10 and v[0] == 'call' and v[2]:
            name, args = v[1], v[2]
            if name == OPT + 'map' and len(args) == 2:
                out = []
                for g, p in self.option(args[0], guards, depth + 1):
                    if p is None:
                        out.append((g, None))
                    else:
                        out.extend(self.apply(args[1], (p,), g, depth + 1) or [(g, ('unknown', 'map'))])
                return out
            if name in (OPT + 'or_else', OPT + 'or') and len(args) == 2:
                out = []
                for g, p in self.option(args[0], guards, depth + 1):
                    if p is not None:
                        out.append((g, p))
                    elif name.endswith('::or'):
                        out.extend(self.option(args[1], g, depth + 1))
                    else:
                        rs = self.apply(args[1], (), g, depth + 1)
                        if rs is None:
                            out.append((g, ('unknown', 'or_else')))
                        for g2, r in rs or ():
                            out.extend(self.option(r, g2, depth + 1))
                return out
            if name in THEN + THEN_SOME and len(args) == 2:
                cond = args[0]
                yes = guards + ((True, cond),)
                if name in THEN_SOME:
                    rs = self.of_value(args[1], yes, depth + 1)
                else:
                    rs = self.apply(args[1], (), yes, depth + 1) or [(yes, ('unknown', 'then'))]
                return rs + [(guards + ((False, cond),), None)]
        if v[0] == 'agg' and v[1] == 'std::option::Option':
            if v[2] == 'Some' and v[3]:
                return self.of_value(v[3][0][1], guards, depth + 1)
            if v[2] == 'None':
                return [(guards, None)]
        return [(guards + (('some', v0),), self.sl.mk_unwrap(v0)), (guards + (('none', v0),), None)]


def vec_macro_elems(sl, fn, v):
    """elements of a `vec![a, b]` value (lowered to a boxed array written through a raw pointer), or None"""
    v = peel(v)
    st = site_of(v)
    if st is None or 'into_vec' not in v[1]:
        return None
    g = sl.prog.fns.get(st[0])
    if g is None:
        return None
    call = g.call_at(st[1])
    if call is None or 'vec' not in (call.macros or []) and 'vec' not in str(call.exp):
        return None
    found = []
    for b in g.blocks:
        for s in b['s']:
            if s[0] == '=' and len(s[1]) > 1 and s[2]['r'] == 'agg' and s[2].get('kind') == 'array':
                found.append(s)
    if len(found) != 1:
        return None
    return [sl.operand(g, o) for o in found[0][2]['ops']]


# ---- error propagation along a call chain --------------------------------------------------------------------------
def carried_out(prog, calls):
    """the Option/Result produced by calls[0] is, at every level (calls[1:] = the enclosing calls, innermost first),
    propagated (`?`, returned, matched with the failure read) and never discarded — inside a closure or helper `?` only
    hands the failure to the enclosing call, whose result has to be carried on in turn: (ok, first bad level)"""
    for c in calls:
        fates = result_fates(prog, c.fn, c)
        vd = verdict(fates)
        if vd != 'ok':
            return False, '%s at %s: %s' % (c.name, c.where(), [repr(x) for x in fates])
        if not any(f.kind in ('returned', 'propagated') for f in fates):
            break
    return True, None


def flows_out(prog, eff):
    return carried_out(prog, [eff.call] + [l.call for l in reversed(eff.chain)])


def none_is_error(prog, sl, eff, variant):
    """the Option produced at the effect's call is branched on (`match` / `let .. else` / `if let .. else`) and its None
    arm can only leave the function through `Err(<variant>)`, which the enclosing levels carry on"""
    c = eff.call
    f = c.fn
    here = (f.path, c.bb)
    for d in f.whole_defs(0):
        if not (d[0] == 'stmt' and d[3]['r'] == 'agg' and d[3].get('variant') == 'Err'):
            continue
        val = sl._def_value(f, d, set(), 0)
        if not any(y[0] == 'agg' and y[2] == variant for y in walk(val)):
            continue
        for cd in conditions(f, d[1], sl):
            if cd.kind == 'variant' and cd.subject is not None and cd.outcome == frozenset(['None']) and site_of(core(cd.subject)) == here:
                if always_through(f, cd.target, d[1], f.return_blocks()):
                    return carried_out(prog, [l.call for l in reversed(eff.chain)])
    return False, 'no None arm returning Err(%s)' % variant
